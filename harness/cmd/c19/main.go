package main

// C19: prometheus.WriteToTextfile replaces the target atomically or not at all.
//
// Every case runs the REAL function on a real directory under os.MkdirTemp and projects:
// returned error / panic, what the target path holds afterwards (absent / exactly as before /
// exactly the expected exposition / anything else) with its mode and inode identity, entries left
// behind in the directory tree, what the gatherer itself saw while it ran (temp file present,
// target untouched), and what a concurrently polling reader saw.  Wire format: Run/C19_run.v.
//
// Faults are real: missing directory, directory is a file, name too long for the temp suffix,
// NUL in the name, failing / partially failing / panicking gatherer, families the text encoder
// rejects (error) or dereferences (panic), RLIMIT_FSIZE making write(2) fail in the middle of the
// encode loop (a full disk), the temp file closed or removed behind the function's back (close /
// chmod fail), target being a directory (rename fails), and - in a child process running as
// uid 65534 - unwritable and sticky directories.  A further child runs under strace.

import (
	"bufio"
	"bytes"
	"encoding/json"
	"errors"
	"fmt"
	"hash/fnv"
	"io"
	"math"
	"os"
	"os/exec"
	"os/signal"
	"path/filepath"
	"regexp"
	"runtime"
	"sort"
	"strconv"
	"strings"
	"sync"
	"syscall"
	"time"

	"github.com/prometheus/client_golang/prometheus"
	dto "github.com/prometheus/client_model/go"
	"github.com/prometheus/common/expfmt"
	"google.golang.org/protobuf/proto"

	"verifharness/internal/cli"
	"verifharness/internal/emit"
)

func main() {
	if os.Getenv("VERIF_C19_CHILD") != "" {
		childMain()
		return
	}
	cli.Main("C19", runC19)
}

// ---------------------------------------------------------------------------------------------
// what one call is given

type callSpec struct {
	Filename string
	Root     string // directory tree that is compared before / after
	Seed     uint64
	N        int // families returned by the gatherer
	Prefix   string
	Big      bool
	BadKind  int // 0 none; 1 wrong value for the type (error, torn write); 2 no metrics; 3 no name; 4 nil family (panic); 5 nil metric (panic)
	BadAt    int
	GErr     int // 0 none; 1 error, no families; 2 error together with families
	GPanic   bool
	Interf   int   // 0 none; 1 the gatherer removes the temp file; 2 the gatherer closes the temp file's descriptor
	Rlimit   int64 // RLIMIT_FSIZE during the call; < 0 none
	Reader   bool
	Snapshot bool
}

type callOut struct {
	Res       int // 0 nil, 1 error, 2 panic
	Class     int // 0 absent, 1 as before, 2 expected exposition, 3 anything else
	Mode      int64
	Same      bool
	Temps     int
	OthersOK  bool
	Snap      []int64 // ntemps tmp_mode tmp_empty tclass tmode
	RBad      int
	Polls     int
	OldExists bool
	OldMode   int64
	ErrText   string
}

const dirFlag = int64(1) << 31

// ---------------------------------------------------------------------------------------------
// families

func mkFamily(r *emit.Rng, name string, big bool) *dto.MetricFamily {
	nm := 1 + r.Intn(4)
	if big {
		nm = 400 + r.Intn(1200)
	}
	helps := []string{"help", "", "with \\ backslash and\nnewline", "üñï \xff", "a \"quoted\" help"}
	mf := &dto.MetricFamily{Name: proto.String(name), Help: proto.String(helps[r.Intn(len(helps))])}
	if r.Chance(1, 8) {
		mf.Help = nil
	}
	typ := r.Intn(5)
	lv := []string{"", "x", "a\"b", "line\nbreak", "back\\slash", "\xff\xfe"}
	for i := 0; i < nm; i++ {
		m := &dto.Metric{Label: []*dto.LabelPair{{Name: proto.String("i"), Value: proto.String(strconv.Itoa(i))},
			{Name: proto.String("v"), Value: proto.String(lv[r.Intn(len(lv))])}}}
		if r.Chance(1, 5) {
			m.TimestampMs = proto.Int64(int64(r.Intn(2000000)) - 1000000)
		}
		v := r.AnyFloat()
		switch typ {
		case 0:
			mf.Type = dto.MetricType_COUNTER.Enum()
			m.Counter = &dto.Counter{Value: proto.Float64(math.Abs(v))}
		case 1:
			mf.Type = dto.MetricType_GAUGE.Enum()
			m.Gauge = &dto.Gauge{Value: proto.Float64(v)}
		case 2:
			mf.Type = dto.MetricType_UNTYPED.Enum()
			m.Untyped = &dto.Untyped{Value: proto.Float64(v)}
		case 3:
			mf.Type = dto.MetricType_SUMMARY.Enum()
			m.Summary = &dto.Summary{SampleCount: proto.Uint64(uint64(r.Intn(100))), SampleSum: proto.Float64(v),
				Quantile: []*dto.Quantile{{Quantile: proto.Float64(0.5), Value: proto.Float64(r.AnyFloat())}, {Quantile: proto.Float64(0.99), Value: proto.Float64(r.AnyFloat())}}}
		default:
			mf.Type = dto.MetricType_HISTOGRAM.Enum()
			c := uint64(r.Intn(50))
			m.Histogram = &dto.Histogram{SampleCount: proto.Uint64(c + 3), SampleSum: proto.Float64(v),
				Bucket: []*dto.Bucket{{UpperBound: proto.Float64(0.5), CumulativeCount: proto.Uint64(c)}, {UpperBound: proto.Float64(10), CumulativeCount: proto.Uint64(c + 2)}}}
		}
		mf.Metric = append(mf.Metric, m)
	}
	return mf
}

func mkFams(cs *callSpec) []*dto.MetricFamily {
	r := emit.NewRng(cs.Seed ^ 0xC19C19)
	fams := make([]*dto.MetricFamily, 0, cs.N)
	for i := 0; i < cs.N; i++ {
		mf := mkFamily(r, fmt.Sprintf("%sfam_%d", cs.Prefix, i), cs.Big && i == cs.N/2)
		if cs.BadKind != 0 && i == cs.BadAt {
			switch cs.BadKind {
			case 1:
				mf.Type = dto.MetricType_COUNTER.Enum()
				for _, m := range mf.Metric {
					m.Counter = nil
					m.Gauge = &dto.Gauge{Value: proto.Float64(1)}
				}
			case 2:
				mf.Metric = nil
			case 3:
				mf.Name = nil
			case 4:
				mf = nil
			case 5:
				mf.Metric = append(mf.Metric, nil)
			}
		}
		fams = append(fams, mf)
	}
	return fams
}

// encodedSizes returns the cumulative size of the exposition after every family (all encodable).
func encodeAll(fams []*dto.MetricFamily) (content []byte, cum []int64, ok bool) {
	var buf bytes.Buffer
	ok = true
	func() {
		defer func() {
			if recover() != nil {
				ok = false
			}
		}()
		for _, mf := range fams {
			if _, err := expfmt.MetricFamilyToText(&buf, mf); err != nil {
				ok = false
				return
			}
			cum = append(cum, int64(buf.Len()))
		}
	}()
	return buf.Bytes(), cum, ok
}

// ---------------------------------------------------------------------------------------------
// observing the file system

type entry struct {
	mode os.FileMode
	size int64
	sum  uint64
}

func walk(root string) map[string]entry {
	out := map[string]entry{}
	filepath.WalkDir(root, func(p string, d os.DirEntry, err error) error {
		if err != nil {
			return nil
		}
		fi, e := os.Lstat(p)
		if e != nil {
			return nil
		}
		rel, _ := filepath.Rel(root, p)
		en := entry{mode: fi.Mode()}
		switch {
		case fi.Mode().IsRegular():
			b, _ := os.ReadFile(p)
			h := fnv.New64a()
			h.Write(b)
			en.size, en.sum = int64(len(b)), h.Sum64()
		case fi.Mode()&os.ModeSymlink != 0:
			l, _ := os.Readlink(p)
			h := fnv.New64a()
			h.Write([]byte(l))
			en.sum = h.Sum64()
		}
		out[rel] = en
		return nil
	})
	return out
}

type pathSnap struct {
	exists  bool
	isDir   bool
	content []byte
	perm    int64
	ino     uint64
}

func snapPath(p string) pathSnap {
	fi, err := os.Stat(p)
	if err != nil {
		return pathSnap{}
	}
	s := pathSnap{exists: true, isDir: fi.IsDir(), perm: int64(fi.Mode().Perm())}
	if st, ok := fi.Sys().(*syscall.Stat_t); ok {
		s.ino = st.Ino
	}
	if fi.IsDir() {
		s.perm |= dirFlag
		es, _ := os.ReadDir(p)
		names := make([]string, 0, len(es))
		for _, e := range es {
			names = append(names, e.Name())
		}
		sort.Strings(names)
		_ = names // a directory stays "as before" as long as it is a directory; its entries are compared by walk
	} else {
		s.content, _ = os.ReadFile(p)
	}
	return s
}

func classOf(cur, old pathSnap, newc []byte, hasNew bool) int {
	switch {
	case !cur.exists:
		return 0
	case old.exists && cur.isDir == old.isDir && bytes.Equal(cur.content, old.content):
		return 1
	case hasNew && !cur.isDir && bytes.Equal(cur.content, newc):
		return 2
	}
	return 3
}

// targetRel is the key of the target in a walk of root ("" if outside).
func targetRel(root, filename string) string {
	p := filename
	if !filepath.IsAbs(p) {
		wd, _ := os.Getwd()
		p = filepath.Join(wd, p)
	}
	p = filepath.Clean(p)
	if d, err := filepath.EvalSymlinks(filepath.Dir(p)); err == nil {
		p = filepath.Join(d, filepath.Base(p))
	}
	rel, err := filepath.Rel(root, p)
	if err != nil {
		return ""
	}
	return rel
}

// ---------------------------------------------------------------------------------------------
// the concurrent reader: re-reads the path; every read must be the old or a complete new file

const (
	badOther      = 1  // neither the complete old nor a complete new content
	badVanished   = 2  // missing after it existed
	badOldAfter   = 4  // old content after a new one
	badNewMode    = 8  // new content with a mode other than 0644
	badOldMode    = 16 // old content with a changed mode
	badReadFailed = 32
)

type reader struct {
	stop, done, started chan struct{}
	bad, polls          int
	readFailed          int // open/stat/read errors unrelated to the file's existence (EMFILE, EINTR, ...): inconclusive, never an alarm
	sawNew              int // index of the last new content seen, -1 none
}

func startReader(path string, old pathSnap, newcs [][]byte) *reader {
	rd := &reader{stop: make(chan struct{}), done: make(chan struct{}), started: make(chan struct{}), sawNew: -1}
	go func() {
		defer close(rd.done)
		exists := old.exists
		once := func() {
			rd.polls++
			f, err := os.Open(path)
			if err != nil {
				if errors.Is(err, os.ErrNotExist) || errors.Is(err, syscall.ENOTDIR) || errors.Is(err, syscall.EINVAL) || errors.Is(err, syscall.ENAMETOOLONG) {
					if exists {
						rd.bad |= badVanished
					}
				} else {
					rd.readFailed++
				}
				return
			}
			defer f.Close()
			fi, e1 := f.Stat()
			b, e2 := io.ReadAll(f)
			if e1 != nil || e2 != nil {
				rd.readFailed++
				return
			}
			exists = true
			for i, nc := range newcs {
				if bytes.Equal(b, nc) {
					rd.sawNew = i
					if fi.Mode().Perm() != 0o644 {
						rd.bad |= badNewMode
					}
					return
				}
			}
			if old.exists && bytes.Equal(b, old.content) {
				if rd.sawNew >= 0 {
					rd.bad |= badOldAfter
				}
				if int64(fi.Mode().Perm()) != old.perm {
					rd.bad |= badOldMode
				}
				return
			}
			rd.bad |= badOther
		}
		once()
		close(rd.started)
		for {
			select {
			case <-rd.stop:
				once()
				return
			default:
				once()
			}
		}
	}()
	<-rd.started
	return rd
}

func (rd *reader) finish() {
	close(rd.stop)
	<-rd.done
}

// ---------------------------------------------------------------------------------------------
// one call of the real function

type callEnv struct {
	cs     *callSpec
	fams   []*dto.MetricFamily
	before map[string]entry
	trel   string
	old    pathSnap
	newc   []byte
	hasNew bool
	snap   []int64
}

func (e *callEnv) newEntries() []string {
	now := walk(e.cs.Root)
	var extra []string
	for k := range now {
		if _, ok := e.before[k]; !ok && k != e.trel {
			extra = append(extra, k)
		}
	}
	sort.Strings(extra)
	return extra
}

func (e *callEnv) Gather() ([]*dto.MetricFamily, error) {
	cs := e.cs
	temps := e.newEntries()
	if cs.Snapshot && e.snap == nil {
		cur := snapPath(cs.Filename)
		sn := []int64{int64(len(temps)), 0, 0, int64(classOf(cur, e.old, e.newc, e.hasNew)), cur.perm}
		if len(temps) > 0 {
			if fi, err := os.Lstat(filepath.Join(cs.Root, temps[0])); err == nil {
				sn[1] = int64(fi.Mode().Perm())
				if fi.Size() == 0 {
					sn[2] = 1
				}
			}
		}
		e.snap = sn
	}
	switch cs.Interf {
	case 1:
		for _, t := range temps {
			os.Remove(filepath.Join(cs.Root, t))
		}
	case 2:
		for _, t := range temps {
			closeBehind(filepath.Join(cs.Root, t), cs.N > 0)
		}
	}
	if cs.GPanic {
		panic("gatherer panics")
	}
	switch cs.GErr {
	case 1:
		return nil, errors.New("gather failed")
	case 2:
		return e.fams, errors.New("gather failed for one collector")
	}
	return e.fams, nil
}

// closeBehind closes the descriptor this process holds on path (an I/O error surfacing at the next
// write or at close).  With placeholder the number is re-occupied by a read-only /dev/null so that
// the finalizer of the abandoned *os.File cannot close an unrelated descriptor later.
func closeBehind(path string, placeholder bool) {
	es, _ := os.ReadDir("/proc/self/fd")
	for _, e := range es {
		l, err := os.Readlink("/proc/self/fd/" + e.Name())
		if err != nil || l != path {
			continue
		}
		fd, _ := strconv.Atoi(e.Name())
		if placeholder {
			if null, err := syscall.Open("/dev/null", syscall.O_RDONLY|syscall.O_CLOEXEC, 0); err == nil {
				syscall.Dup3(null, fd, syscall.O_CLOEXEC)
				syscall.Close(null)
				continue
			}
		}
		syscall.Close(fd)
	}
}

var rlimitMu sync.Mutex

func runCall(cs *callSpec) callOut {
	e := &callEnv{cs: cs, fams: mkFams(cs)}
	if cs.BadKind == 0 && cs.GErr == 0 && !cs.GPanic {
		e.newc, _, e.hasNew = encodeAll(e.fams)
	}
	e.before = walk(cs.Root)
	e.trel = targetRel(cs.Root, cs.Filename)
	e.old = snapPath(cs.Filename)
	var rd *reader
	if cs.Reader && !e.old.isDir {
		var ncs [][]byte
		if e.hasNew {
			ncs = [][]byte{e.newc}
		}
		rd = startReader(cs.Filename, e.old, ncs)
	}
	out := callOut{OldExists: e.old.exists, OldMode: e.old.perm}
	func() {
		var lim syscall.Rlimit
		if cs.Rlimit >= 0 {
			rlimitMu.Lock()
			defer rlimitMu.Unlock()
			if syscall.Getrlimit(syscall.RLIMIT_FSIZE, &lim) == nil {
				syscall.Setrlimit(syscall.RLIMIT_FSIZE, &syscall.Rlimit{Cur: uint64(cs.Rlimit), Max: lim.Max})
				defer syscall.Setrlimit(syscall.RLIMIT_FSIZE, &lim)
			}
		}
		defer func() {
			if p := recover(); p != nil {
				out.Res = 2
				out.ErrText = fmt.Sprint(p)
			}
		}()
		if err := prometheus.WriteToTextfile(cs.Filename, e); err != nil {
			out.Res = 1
			out.ErrText = err.Error()
		}
	}()
	if rd != nil {
		rd.finish()
		out.RBad, out.Polls = rd.bad, rd.polls
	}
	cur := snapPath(cs.Filename)
	out.Class = classOf(cur, e.old, e.newc, e.hasNew)
	out.Mode = cur.perm
	out.Same = (!e.old.exists && !cur.exists) || (e.old.exists && cur.exists && e.old.ino == cur.ino)
	after := walk(cs.Root)
	out.OthersOK = true
	for k, b := range e.before {
		if k == e.trel || k == "." {
			continue
		}
		if a, ok := after[k]; !ok || a != b {
			out.OthersOK = false
		}
	}
	for k := range after {
		if _, ok := e.before[k]; !ok && k != e.trel {
			out.Temps++
		}
	}
	out.Snap = e.snap
	return out
}

func childMain() {
	signal.Ignore(syscall.SIGXFSZ)
	var cs callSpec
	if err := json.Unmarshal([]byte(os.Getenv("VERIF_C19_ARGS")), &cs); err != nil {
		fmt.Fprintln(os.Stderr, "c19 child:", err)
		os.Exit(4)
	}
	out := runCall(&cs)
	b, _ := json.Marshal(out)
	os.Stdout.Write(append(b, '\n'))
}

// runChild runs the call in a copy of this binary, optionally as another user or under strace.
func runChild(exe string, cs *callSpec, uid int, straceOut string) (callOut, error) {
	var out callOut
	args, _ := json.Marshal(cs)
	var cmd *exec.Cmd
	if straceOut != "" {
		cmd = exec.Command("strace", "-f", "-o", straceOut, "-e", "trace=openat,open,creat,rename,renameat,renameat2,unlink,unlinkat,chmod,fchmod,fchmodat,close,write,pwrite64,truncate,ftruncate", exe)
	} else {
		cmd = exec.Command(exe)
	}
	cmd.Env = append(os.Environ(), "VERIF_C19_CHILD=1", "VERIF_C19_ARGS="+string(args))
	cmd.Dir = "/"
	if uid > 0 {
		cmd.SysProcAttr = &syscall.SysProcAttr{Credential: &syscall.Credential{Uid: uint32(uid), Gid: uint32(uid)}}
	}
	var so, se bytes.Buffer
	cmd.Stdout, cmd.Stderr = &so, &se
	done := make(chan error, 1)
	if err := cmd.Start(); err != nil {
		return out, err
	}
	go func() { done <- cmd.Wait() }()
	select {
	case err := <-done:
		if err != nil {
			return out, fmt.Errorf("%v: %s", err, strings.TrimSpace(se.String()))
		}
	case <-time.After(60 * time.Second):
		cmd.Process.Kill()
		return out, errors.New("child timed out")
	}
	if err := json.Unmarshal(bytes.TrimSpace(so.Bytes()), &out); err != nil {
		return out, fmt.Errorf("child output: %v: %q %s", err, so.String(), se.String())
	}
	return out, nil
}

// ---------------------------------------------------------------------------------------------
// scenarios

type site struct {
	kind  int // 0 none 1 create 2 gather 3 encode 4 close 5 chmod 6 rename
	k     int
	panic bool
}

func (s site) term() string {
	if s.kind == 3 {
		return emit.C(3, emit.I(s.k))
	}
	return emit.C(s.kind)
}

var siteNames = []string{"none", "create", "gather", "encode", "close", "chmod", "rename"}

func optMode(exists bool, m int64) string {
	if !exists {
		return emit.None()
	}
	return emit.Some(emit.Z(m))
}

func snapTerm(sn []int64) string {
	if sn == nil {
		return emit.None()
	}
	return emit.Some(emit.ZL(sn))
}

func soloTerm(o callOut, n int, st site) string {
	return emit.C(0, optMode(o.OldExists, o.OldMode), emit.I(n), st.term(), emit.B(st.panic),
		emit.Tup(emit.I(o.Res), emit.I(o.Class), emit.Z(o.Mode), emit.B(o.Same), emit.I(o.Temps), emit.B(o.OthersOK), snapTerm(o.Snap), emit.I(o.RBad)))
}

var baseNames = []string{"metrics.prom", "a", ".hidden.prom", "with space.prom", "x*y.prom", "**", "ünï.prom", "m.prom.tmp", strings.Repeat("n", 240) + ".prom"}

// setupDir creates root/d with two bystander files and returns root.
func setupDir(runRoot string, base string) (root, dir string, err error) {
	root, err = os.MkdirTemp(runRoot, "s")
	if err != nil {
		return
	}
	dir = filepath.Join(root, "d")
	if err = os.Mkdir(dir, 0o755); err != nil {
		return
	}
	os.Mkdir(filepath.Join(root, "cwd"), 0o755)
	os.WriteFile(filepath.Join(dir, "other.prom"), []byte("# bystander\nother 1\n"), 0o640)
	if len(base) < 200 {
		os.WriteFile(filepath.Join(dir, base+"123456"), []byte("looks like a temp file of an earlier run\n"), 0o600)
	}
	return
}

var oldModes = []os.FileMode{0o600, 0o644, 0o666, 0o400, 0o755, 0o000, 0o640}

// makeOld installs a previous target; returns a tag.
func makeOld(r *emit.Rng, dir, base string, kind int) string {
	p := filepath.Join(dir, base)
	content := []byte(fmt.Sprintf("# old content %d\nold_metric 1\n", r.Intn(1000000)))
	mode := oldModes[r.Intn(len(oldModes))]
	switch kind {
	case 0:
		return "old:absent"
	case 1:
		os.WriteFile(p, content, 0o600)
		os.Chmod(p, mode)
		return "old:file"
	case 2:
		big := bytes.Repeat([]byte("# old content, large\nold_metric{i=\"0123456789\"} 1\n"), 4000)
		os.WriteFile(p, big, 0o600)
		os.Chmod(p, mode)
		return "old:file-large"
	case 3:
		os.WriteFile(p, nil, 0o600)
		os.Chmod(p, mode)
		return "old:file-empty"
	case 4:
		os.Mkdir(p, 0o755)
		os.WriteFile(filepath.Join(p, "inner"), []byte("inner\n"), 0o644)
		return "old:directory"
	default:
		real := filepath.Join(dir, "real-file-behind-link")
		os.WriteFile(real, content, 0o600)
		os.Chmod(real, mode)
		os.Symlink("real-file-behind-link", p)
		return "old:symlink"
	}
}

func runC19(c *cli.Ctx) error {
	signal.Ignore(syscall.SIGXFSZ)
	if abs, err := filepath.Abs(c.Out); err == nil {
		c.Out = abs
	}
	startWd, _ := os.Getwd()
	defer os.Chdir(startWd)
	runRoot, err := os.MkdirTemp("", "verif-c19-")
	if err != nil {
		return err
	}
	defer func() {
		filepath.WalkDir(runRoot, func(p string, d os.DirEntry, err error) error {
			if err == nil && d.IsDir() {
				os.Chmod(p, 0o755)
			}
			return nil
		})
		os.RemoveAll(runRoot)
	}()
	os.Chmod(runRoot, 0o755)
	if rr, err := filepath.EvalSymlinks(runRoot); err == nil {
		runRoot = rr
	}
	r := emit.NewRng(c.Seed)

	if err := streamSeq(c, r.Fork(), runRoot); err != nil {
		return err
	}
	if err := streamOdd(c, r.Fork(), runRoot); err != nil {
		return err
	}
	if err := streamMulti(c, r.Fork(), runRoot); err != nil {
		return err
	}
	exe, err := copySelf(runRoot)
	if err != nil {
		return err
	}
	if err := streamPerm(c, r.Fork(), runRoot, exe); err != nil {
		return err
	}
	return streamStrace(c, r.Fork(), runRoot, exe)
}

func copySelf(runRoot string) (string, error) {
	self, err := os.Executable()
	if err != nil {
		return "", err
	}
	b, err := os.ReadFile(self)
	if err != nil {
		return "", err
	}
	exe := filepath.Join(runRoot, "c19-child")
	return exe, os.WriteFile(exe, b, 0o755)
}

// ---- stream seq: mostly-valid calls, every reachable fault site -------------------------------

func streamSeq(c *cli.Ctx, r *emit.Rng, runRoot string) error {
	w := emit.NewWriter(c.Out, "C19", "seq")
	polls, rlimitOK := 0, true
	var lim syscall.Rlimit
	if syscall.Getrlimit(syscall.RLIMIT_FSIZE, &lim) != nil {
		rlimitOK = false
	}
	n := 1000 * c.Scale
	for i := 0; i < n; i++ {
		base := baseNames[r.Intn(len(baseNames))]
		if r.Chance(1, 2) {
			base = "metrics.prom"
		}
		root, dir, err := setupDir(runRoot, base)
		if err != nil {
			return err
		}
		cs := &callSpec{Root: root, Seed: r.U64(), N: r.Intn(6), Prefix: "c19_", Rlimit: -1, Reader: true, Snapshot: true}
		if r.Chance(1, 6) {
			cs.N = 0
		}
		if r.Chance(1, 7) {
			cs.N = 1 + r.Intn(3)
			cs.Big = true
		}
		st := site{}
		tags := []string{}
		oldKind := []int{0, 1, 1, 1, 2, 3, 5}[r.Intn(7)]
		scen := r.Intn(20)
		filename := filepath.Join(dir, base)
		switch {
		case scen < 6: // success
		case scen == 6: // create: directory missing
			filename = filepath.Join(root, "missing", base)
			oldKind = 0
			st = site{kind: 1}
			tags = append(tags, "fault:dir-missing")
		case scen == 7: // create: a path component is a regular file / name too long / NUL
			switch r.Intn(3) {
			case 0:
				filename = filepath.Join(dir, "other.prom", base)
				oldKind = 0
				tags = append(tags, "fault:dir-is-a-file")
			case 1:
				base = strings.Repeat("L", 255)
				filename = filepath.Join(dir, base)
				tags = append(tags, "fault:name-255-bytes")
			default:
				filename = filepath.Join(dir, "nul\x00byte.prom")
				oldKind = 0
				tags = append(tags, "fault:nul-in-name")
			}
			st = site{kind: 1}
		case scen == 8 || scen == 9: // gather fails
			cs.GErr = 1 + r.Intn(2)
			st = site{kind: 2}
			tags = append(tags, []string{"", "fault:gather-error", "fault:gather-error-with-families"}[cs.GErr])
		case scen == 10: // gatherer panics
			cs.GPanic = true
			st = site{kind: 2, panic: true}
			tags = append(tags, "fault:gather-panic")
		case scen == 11 || scen == 12: // a family the encoder rejects
			if cs.N == 0 {
				cs.N = 1 + r.Intn(4)
			}
			cs.BadKind = 1 + r.Intn(3)
			cs.BadAt = r.Intn(cs.N)
			if r.Chance(1, 3) {
				cs.BadAt = []int{0, cs.N - 1}[r.Intn(2)]
			}
			st = site{kind: 3, k: cs.BadAt}
			tags = append(tags, []string{"", "fault:family-wrong-value-type", "fault:family-without-metrics", "fault:family-without-name"}[cs.BadKind])
		case scen == 13: // a family the encoder dereferences
			if cs.N == 0 {
				cs.N = 1 + r.Intn(4)
			}
			cs.BadKind = 4 + r.Intn(2)
			cs.BadAt = r.Intn(cs.N)
			st = site{kind: 3, k: cs.BadAt, panic: true}
			tags = append(tags, []string{"fault:nil-family-panic", "fault:nil-metric-panic"}[cs.BadKind-4])
		case scen == 14 || scen == 15: // write(2) fails: file size limit (boundary directed)
			if !rlimitOK {
				break
			}
			if cs.N == 0 {
				cs.N = 1 + r.Intn(5)
			}
			_, cum, ok := encodeAll(mkFams(cs))
			if !ok || len(cum) == 0 {
				break
			}
			j := r.Intn(len(cum))
			lim := cum[j] + int64(r.Intn(3)) - 1 // exactly fits / one short / one over
			if r.Chance(1, 4) {
				lim = int64(r.Intn(int(cum[len(cum)-1]) + 10))
			}
			if lim < 0 {
				lim = 0
			}
			cs.Rlimit = lim
			st = site{}
			for k, cv := range cum {
				if cv > lim {
					st = site{kind: 3, k: k}
					break
				}
			}
			tags = append(tags, "fault:file-size-limit")
		case scen == 16: // the descriptor dies: close fails (no families) or the first write fails
			cs.Interf = 2
			cs.Reader = false
			cs.Big = false
			if cs.N == 0 {
				st = site{kind: 4}
			} else {
				st = site{kind: 3, k: 0}
			}
			tags = append(tags, "fault:descriptor-closed-behind")
		case scen == 17: // temp file removed under the call: chmod fails
			cs.Interf = 1
			st = site{kind: 5}
			tags = append(tags, "fault:temp-removed-behind")
		default: // rename fails: the target is a directory
			oldKind = 4
			st = site{kind: 6}
			tags = append(tags, "fault:target-is-directory")
		}
		if oldKind == 3 && cs.N == 0 {
			oldKind = 1 // an empty old file and an empty exposition are indistinguishable
		}
		tags = append(tags, makeOld(r, filepath.Dir(filename), filepath.Base(filename), oldKind))
		switch r.Intn(8) {
		case 0:
			filename = filepath.Dir(filename) + "//" + filepath.Base(filename)
			tags = append(tags, "path:double-slash")
		case 1:
			filename = filepath.Dir(filename) + "/./" + filepath.Base(filename)
			tags = append(tags, "path:dot-segment")
		case 2:
			if rel, err := filepath.Rel(filepath.Join(root, "cwd"), filename); err == nil && !strings.Contains(filename, "\x00") {
				filename = rel
				tags = append(tags, "path:relative")
			}
		}
		os.Chdir(filepath.Join(root, "cwd"))
		cs.Filename = filename
		out := runCall(cs)
		os.Chdir(runRoot)
		polls += out.Polls
		tags = append(tags, "site:"+siteNames[st.kind], fmt.Sprintf("result:%d", out.Res))
		if st.panic {
			tags = append(tags, "panic")
		}
		switch {
		case strings.Contains(base, "*"):
			tags = append(tags, "name:star")
		case len(base) >= 240:
			tags = append(tags, "name:long")
		}
		if cs.Big {
			tags = append(tags, "families:big")
		}
		tags = append(tags, fmt.Sprintf("families:%d", cs.N))
		w.Add(soloTerm(out, cs.N, st), out.OldExists && (cs.N >= 2 || st.kind != 0), tags...)
		os.RemoveAll(root)
		if i%50 == 0 {
			runtime.GC() // abandoned temp files of failed calls are closed by their finalizers
		}
	}
	w.Extra["reader_polls"] = polls
	w.Extra["rlimit_fsize_available"] = rlimitOK
	w.Extra["euid"] = os.Geteuid()
	return w.Flush()
}

// ---- stream odd: malformed file names and gatherer results -----------------------------------

func streamOdd(c *cli.Ctx, r *emit.Rng, runRoot string) error {
	w := emit.NewWriter(c.Out, "C19", "odd")
	n := 60 * c.Scale
	for i := 0; i < n; i++ {
		root, dir, err := setupDir(runRoot, "metrics.prom")
		if err != nil {
			return err
		}
		cs := &callSpec{Root: root, Seed: r.U64(), N: r.Intn(4), Prefix: "odd_", Rlimit: -1, Reader: false, Snapshot: true}
		os.Chdir(filepath.Join(root, "cwd"))
		var st site
		var tag string
		switch i % 10 {
		case 0:
			cs.Filename, st, tag = "", site{kind: 6}, "name:empty"
		case 1:
			cs.Filename, st, tag = ".", site{kind: 6}, "name:dot"
		case 2:
			cs.Filename, st, tag = "..", site{kind: 6}, "name:dotdot"
		case 3:
			cs.Filename, st, tag = "/", site{kind: 1}, "name:root"
		case 4:
			cs.Filename, st, tag = dir+"/", site{kind: 6}, "name:trailing-slash-directory"
		case 5:
			cs.Filename, st, tag = filepath.Join(dir, "other.prom")+"/", site{kind: 1}, "name:trailing-slash-file"
		case 6:
			cs.Filename, st, tag = filepath.Join(dir, "absent")+"/", site{kind: 1}, "name:trailing-slash-absent"
		case 7: // dangling symlink as target: replaced by the new file
			os.Symlink("nowhere", filepath.Join(dir, "metrics.prom"))
			cs.Filename, st, tag = filepath.Join(dir, "metrics.prom"), site{}, "target:dangling-symlink"
		case 8: // symlinked directory in the path
			os.Symlink("d", filepath.Join(root, "link"))
			cs.Filename, st, tag = filepath.Join(root, "link", "metrics.prom"), site{}, "path:through-symlinked-directory"
			makeOld(r, dir, "metrics.prom", 1)
		default: // gatherer returns (nil, nil) / an empty non-nil slice
			cs.N = 0
			cs.Filename, st, tag = filepath.Join(dir, "metrics.prom"), site{}, "gather:no-families"
			makeOld(r, dir, "metrics.prom", 1)
		}
		out := runCall(cs)
		os.Chdir(runRoot)
		w.Add(soloTerm(out, cs.N, st), true, tag, "site:"+siteNames[st.kind], fmt.Sprintf("result:%d", out.Res))
		os.RemoveAll(root)
	}
	return w.Flush()
}

// ---- stream multi: concurrent calls on one path ----------------------------------------------

func streamMulti(c *cli.Ctx, r *emit.Rng, runRoot string) error {
	w := emit.NewWriter(c.Out, "C19", "multi")
	n := 40 * c.Scale
	polls := 0
	for i := 0; i < n; i++ {
		root, dir, err := setupDir(runRoot, "metrics.prom")
		if err != nil {
			return err
		}
		filename := filepath.Join(dir, "metrics.prom")
		oldTag := makeOld(r, dir, "metrics.prom", []int{0, 1, 2}[r.Intn(3)])
		k := 2 + r.Intn(4)
		specs := make([]*callSpec, k)
		envs := make([]*callEnv, k)
		var newcs [][]byte
		idx := []int{}
		for j := range specs {
			cs := &callSpec{Filename: filename, Root: root, Seed: r.U64(), N: 1 + r.Intn(4), Prefix: fmt.Sprintf("w%d_", j), Rlimit: -1, Big: r.Chance(1, 3)}
			if r.Chance(1, 4) {
				cs.GErr = 1 + r.Intn(2)
			} else if r.Chance(1, 6) {
				cs.BadKind, cs.BadAt = 1, r.Intn(cs.N)
			}
			specs[j] = cs
			envs[j] = &callEnv{cs: cs, fams: mkFams(cs)}
			if cs.GErr == 0 && cs.BadKind == 0 {
				nc, _, _ := encodeAll(envs[j].fams)
				newcs = append(newcs, nc)
				idx = append(idx, j)
			}
		}
		before := walk(root)
		old := snapPath(filename)
		rd := startReader(filename, old, newcs)
		res := make([]int, k)
		var wg sync.WaitGroup
		startc := make(chan struct{})
		for j := range specs {
			wg.Add(1)
			go func(j int) {
				defer wg.Done()
				<-startc
				defer func() {
					if recover() != nil {
						res[j] = 2
					}
				}()
				if err := prometheus.WriteToTextfile(filename, envs[j]); err != nil {
					res[j] = 1
				}
			}(j)
		}
		close(startc)
		wg.Wait()
		rd.finish()
		polls += rd.polls
		cur := snapPath(filename)
		class, winner := 3, 0
		switch {
		case !cur.exists:
			class = 0
		case old.exists && bytes.Equal(cur.content, old.content):
			class = 1
		default:
			for q, nc := range newcs {
				if bytes.Equal(cur.content, nc) {
					class, winner = 2, idx[q]
				}
			}
		}
		temps := 0
		for kk := range walk(root) {
			if _, ok := before[kk]; !ok && kk != "d/metrics.prom" {
				temps++
			}
		}
		nf := make([]string, k)
		rs := make([]string, k)
		nok := 0
		for j := range specs {
			nf[j], rs[j] = emit.I(specs[j].N), emit.I(res[j])
			if res[j] == 0 {
				nok++
			}
		}
		w.Add(emit.C(2, optMode(old.exists, old.perm), emit.L(nf), emit.L(rs),
			emit.Tup(emit.I(class), emit.I(winner), emit.Z(cur.perm), emit.I(temps), emit.I(rd.bad))),
			nok >= 2, oldTag, fmt.Sprintf("writers:%d", k), fmt.Sprintf("succeeded:%d", nok))
		os.RemoveAll(root)
	}
	w.Extra["reader_polls"] = polls
	return w.Flush()
}

// ---- stream perm: the call runs as an unprivileged user ----------------------------------------

func streamPerm(c *cli.Ctx, r *emit.Rng, runRoot, exe string) error {
	w := emit.NewWriter(c.Out, "C19", "perm")
	const uid = 65534
	status := "ok"
	n := 12 * c.Scale
	for i := 0; i < n; i++ {
		root, dir, err := setupDir(runRoot, "metrics.prom")
		if err != nil {
			return err
		}
		os.Chmod(root, 0o755)
		os.Chmod(filepath.Join(dir, "metrics.prom123456"), 0o644)
		os.Chmod(filepath.Join(dir, "other.prom"), 0o644)
		filename := filepath.Join(dir, "metrics.prom")
		cs := &callSpec{Filename: filename, Root: root, Seed: r.U64(), N: 1 + r.Intn(4), Prefix: "perm_", Rlimit: -1, Reader: true, Snapshot: true}
		var st site
		var tag string
		withOld := r.Chance(2, 3)
		if withOld {
			os.WriteFile(filename, []byte("# old content owned by root\nold_metric 1\n"), 0o644)
		}
		switch i % 4 {
		case 0: // directory not writable for the caller
			os.Chmod(dir, 0o555)
			st, tag = site{kind: 1}, "perm:directory-read-only"
		case 1: // sticky world-writable directory, target owned by somebody else: rename is refused
			os.Chmod(dir, 0o777|os.ModeSticky)
			if !withOld {
				os.WriteFile(filename, []byte("# old content owned by root\nold_metric 1\n"), 0o644)
			}
			st, tag = site{kind: 6}, "perm:sticky-directory-foreign-target"
		case 2: // writable directory, read-only foreign target: replaced all the same
			os.Chmod(dir, 0o777)
			if withOld {
				os.Chmod(filename, 0o444)
			}
			st, tag = site{}, "perm:writable-directory-readonly-target"
		default:
			os.Chmod(dir, 0o777)
			cs.GErr = 1
			st, tag = site{kind: 2}, "perm:writable-directory-gather-error"
		}
		out, err := runChild(exe, cs, uid, "")
		os.Chmod(dir, 0o755)
		if err != nil {
			status = "skipped: " + err.Error()
			os.RemoveAll(root)
			break
		}
		w.Add(soloTerm(out, cs.N, st), true, tag, "site:"+siteNames[st.kind], fmt.Sprintf("result:%d", out.Res))
		os.RemoveAll(root)
	}
	w.Extra["unprivileged_child"] = status
	if w.Len() == 0 {
		w.Extra["no_model"] = true
	}
	return w.Flush()
}

// ---- stream strace: the system calls of a child process ----------------------------------------

var (
	reLine    = regexp.MustCompile(`^(\d+)\s+(.*)$`)
	reResumed = regexp.MustCompile(`^<\.\.\. (\w+) resumed>(.*)$`)
	reCall    = regexp.MustCompile(`^(\w+)\((.*)\)\s+= (-?\d+|\?)`)
	reQuoted  = regexp.MustCompile(`"((?:[^"\\]|\\.)*)"`)
)

// straceTokens projects the trace onto the temp/target paths: 1 create temp, 4 write temp,
// 5 close temp, 1000+mode chmod temp, 7 rename temp->target, 8 unlink temp, 99 target opened for writing,
// 98 any other modification inside dir.
func straceTokens(trace, dir, target string) ([]int64, error) {
	f, err := os.Open(trace)
	if err != nil {
		return nil, err
	}
	defer f.Close()
	pending := map[string]string{}
	var toks []int64
	tmpPath, tmpFd := "", int64(-1)
	sc := bufio.NewScanner(f)
	sc.Buffer(make([]byte, 1<<20), 1<<24)
	for sc.Scan() {
		m := reLine.FindStringSubmatch(sc.Text())
		if m == nil {
			continue
		}
		pid, rest := m[1], m[2]
		if strings.HasSuffix(rest, "<unfinished ...>") {
			pending[pid] = strings.TrimSuffix(rest, "<unfinished ...>")
			continue
		}
		if rm := reResumed.FindStringSubmatch(rest); rm != nil {
			rest = pending[pid] + rm[2]
			delete(pending, pid)
		}
		cm := reCall.FindStringSubmatch(rest)
		if cm == nil {
			continue
		}
		name, args := cm[1], cm[2]
		ret, _ := strconv.ParseInt(cm[3], 10, 64)
		var paths []string
		for _, q := range reQuoted.FindAllStringSubmatch(args, -1) {
			paths = append(paths, q[1])
		}
		inDir := func(p string) bool { return strings.HasPrefix(p, dir+"/") }
		switch name {
		case "openat", "open", "creat":
			if len(paths) == 0 {
				break
			}
			p := paths[0]
			writeFlags := name == "creat" || strings.Contains(args, "O_WRONLY") || strings.Contains(args, "O_RDWR") || strings.Contains(args, "O_TRUNC") || strings.Contains(args, "O_CREAT")
			switch {
			case inDir(p) && p != target && strings.Contains(args, "O_CREAT") && strings.Contains(args, "O_EXCL") && ret >= 0 && tmpPath == "":
				tmpPath, tmpFd = p, ret
				toks = append(toks, 1)
			case p == target && writeFlags:
				toks = append(toks, 99)
			case inDir(p) && writeFlags && ret >= 0:
				toks = append(toks, 98)
			}
		case "write", "pwrite64", "ftruncate", "fchmod":
			if tmpFd >= 0 && strings.HasPrefix(args, strconv.FormatInt(tmpFd, 10)+",") {
				if name == "write" || name == "pwrite64" {
					toks = append(toks, 4)
				} else {
					toks = append(toks, 98)
				}
			}
		case "close":
			if tmpFd >= 0 && strings.TrimSpace(args) == strconv.FormatInt(tmpFd, 10) {
				toks = append(toks, 5)
				tmpFd = -1
			}
		case "chmod", "fchmodat":
			if len(paths) > 0 && inDir(paths[0]) {
				if paths[0] == tmpPath {
					fs := strings.Split(args, ",")
					mode, err := strconv.ParseInt(strings.TrimSpace(fs[len(fs)-1]), 8, 64)
					if err != nil && len(fs) >= 2 {
						mode, _ = strconv.ParseInt(strings.TrimSpace(fs[len(fs)-2]), 8, 64)
					}
					toks = append(toks, 1000+mode)
				} else {
					toks = append(toks, 98)
				}
			}
		case "rename", "renameat", "renameat2":
			if len(paths) >= 2 && (inDir(paths[0]) || inDir(paths[1])) {
				if paths[0] == tmpPath && paths[1] == target {
					toks = append(toks, 7)
				} else {
					toks = append(toks, 98)
				}
			}
		case "unlink", "unlinkat", "truncate":
			if len(paths) > 0 && inDir(paths[0]) {
				if paths[0] == tmpPath && name != "truncate" {
					toks = append(toks, 8)
				} else {
					toks = append(toks, 98)
				}
			}
		}
	}
	return toks, sc.Err()
}

func streamStrace(c *cli.Ctx, r *emit.Rng, runRoot, exe string) error {
	w := emit.NewWriter(c.Out, "C19", "strace")
	status := "ok"
	if _, err := exec.LookPath("strace"); err != nil {
		status = "skipped: strace not installed"
	}
	type sc struct {
		n     int
		st    site
		gerr  int
		gpan  bool
		bad   int
		badAt int
		old   bool
		tag   string
	}
	scens := []sc{
		{n: 3, old: true, tag: "success-3-families"},
		{n: 1, old: false, tag: "success-1-family-no-old"},
		{n: 0, old: true, tag: "success-0-families"},
		{n: 2, st: site{kind: 2}, gerr: 1, old: true, tag: "gather-error"},
		{n: 2, st: site{kind: 2, panic: true}, gpan: true, old: true, tag: "gather-panic"},
		{n: 3, st: site{kind: 3, k: 1}, bad: 1, badAt: 1, old: true, tag: "encode-error-family-1"},
		{n: 3, st: site{kind: 3, k: 0}, bad: 2, badAt: 0, old: false, tag: "encode-error-family-0"},
		{n: 2, st: site{kind: 3, k: 1, panic: true}, bad: 4, badAt: 1, old: true, tag: "encode-panic-family-1"},
	}
	reps := 1
	if c.Scale > 1 {
		reps = 3
	}
	for rep := 0; rep < reps && status == "ok"; rep++ {
		for _, s := range scens {
			root, dir, err := setupDir(runRoot, "metrics.prom")
			if err != nil {
				return err
			}
			filename := filepath.Join(dir, "metrics.prom")
			if s.old {
				os.WriteFile(filename, []byte("# old\nold_metric 1\n"), 0o600)
			}
			cs := &callSpec{Filename: filename, Root: root, Seed: r.U64(), N: s.n, Prefix: "st_", Rlimit: -1, GErr: s.gerr, GPanic: s.gpan, BadKind: s.bad, BadAt: s.badAt}
			trace := filepath.Join(root, "trace.txt")
			out, err := runChild(exe, cs, 0, trace)
			if err != nil {
				status = "skipped: " + err.Error()
				if len(status) > 300 {
					status = status[:300]
				}
				os.RemoveAll(root)
				break
			}
			toks, err := straceTokens(trace, dir, filename)
			if err != nil {
				return err
			}
			if len(toks) == 0 {
				status = "skipped: the trace shows no system call on the directory (ptrace not effective)"
				os.RemoveAll(root)
				break
			}
			w.Add(emit.C(1, emit.I(s.n), s.st.term(), emit.B(s.st.panic), emit.ZL(toks)), true, "trace:"+s.tag, fmt.Sprintf("result:%d", out.Res))
			os.RemoveAll(root)
		}
	}
	w.Extra["strace"] = status
	if w.Len() == 0 {
		w.Extra["no_model"] = true
	}
	return w.Flush()
}
