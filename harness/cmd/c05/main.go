package main

// C05: native histograms stay conservative under concurrency and limit enforcement.
// Built with overlay_sched.json: histogram.go is instrumented (sync/atomic, Mutex, sync.Map, Gosched are
// schedule points). Programs of observers and scrapers run (a) under seeded random schedules of the
// deterministic scheduler (deadlocks are detected exactly) and (b) free-running; every scrape is checked by
// the extracted conservative-accounting checker (built from C04's boundary law) against the observations
// that had returned before the scrape started / had been invoked before it ended.

import (
	"fmt"
	"math"
	"strings"
	"sync"
	"sync/atomic"
	"time"

	"github.com/prometheus/client_golang/prometheus"
	"github.com/prometheus/client_golang/prometheus/vsched"
	dto "github.com/prometheus/client_model/go"

	"verifharness/internal/cli"
	"verifharness/internal/emit"
	"verifharness/internal/schedx"
)

func main() { cli.Main("C05", runC05) }

type op struct {
	write bool
	v     float64
	ex    bool // through ObserveWithExemplar
}

var exLabels = prometheus.Labels{"trace": "t"}

func observe(h prometheus.Histogram, o op) {
	if o.ex {
		h.(prometheus.ExemplarObserver).ObserveWithExemplar(o.v, exLabels)
	} else {
		h.Observe(o.v)
	}
}

type obsRec struct {
	v        float64
	inv, res int64
}
type scrapeRec struct {
	expo     string
	inv, res int64
	panicked bool
}

type cfg struct {
	factor  float64
	zt      float64
	maxB    uint32
	maxZT   float64
	classic []float64
	maxEx   int // NativeHistogramMaxExemplars: 0 default (10), <0 disabled
}

func decode(spans []*dto.BucketSpan, deltas []int64) string {
	var out []string
	idx, cur := int64(0), int64(0)
	di := 0
	for _, sp := range spans {
		idx += int64(sp.GetOffset())
		for j := uint32(0); j < sp.GetLength(); j++ {
			if di < len(deltas) {
				cur += deltas[di]
				di++
			}
			out = append(out, emit.Pair(emit.Z(idx), emit.Z(cur)))
			idx++
		}
	}
	return emit.L(out)
}

func scrape(h prometheus.Histogram) (s string, panicked bool) {
	defer func() {
		if e := recover(); e != nil {
			panicked = true
			s = emit.Tup(emit.I(0), emit.F(0), emit.I(0), emit.I(0), emit.F(0), emit.L(nil), emit.L(nil), emit.L(nil))
		}
	}()
	var m dto.Metric
	h.Write(&m)
	return expoOf(&m), false
}

var infBucketMismatch int64

func expoOf(m *dto.Metric) string {
	hh := m.Histogram
	cum := make([]string, 0, len(hh.Bucket))
	for _, b := range hh.Bucket {
		if math.IsInf(b.GetUpperBound(), 1) {
			// the explicit +Inf bucket only exists to carry an exemplar; its count is the sample count
			if b.GetCumulativeCount() != hh.GetSampleCount() {
				atomic.AddInt64(&infBucketMismatch, 1)
			}
			continue
		}
		cum = append(cum, emit.U(b.GetCumulativeCount()))
	}
	return emit.Tup(emit.Z(int64(hh.GetSchema())), emit.F(hh.GetZeroThreshold()), emit.U(hh.GetZeroCount()), emit.U(hh.GetSampleCount()),
		emit.F(hh.GetSampleSum()), decode(hh.PositiveSpan, hh.PositiveDelta), decode(hh.NegativeSpan, hh.NegativeDelta), emit.L(cum))
}

func scrapeWithWatchdog(h prometheus.Histogram) (string, bool) {
	type res struct {
		s string
		p bool
	}
	ch := make(chan res, 1)
	go func() {
		s, p := scrape(h)
		ch <- res{s, p}
	}()
	select {
	case r := <-ch:
		return r.s, false
	case <-time.After(3 * time.Second):
		return emit.Tup(emit.I(0), emit.F(0), emit.I(0), emit.I(0), emit.F(0), emit.L(nil), emit.L(nil), emit.L(nil)), true
	}
}

func genValue(r *emit.Rng) float64 {
	switch r.Intn(12) {
	case 0:
		return 0
	case 1:
		return math.NaN()
	case 2:
		return []float64{math.Inf(1), math.Inf(-1), math.MaxFloat64, -math.MaxFloat64}[r.Intn(4)]
	case 3:
		return -math.Ldexp(1, r.Intn(12)-4)
	case 4:
		return math.Ldexp(1, r.Intn(40)-20) // exact powers of two (bucket boundaries)
	case 5:
		return math.Ldexp(1.5, r.Intn(30)-10)
	case 6:
		if r.Chance(1, 2) { // subnormals (they only reach a regular bucket when the zero threshold is zero)
			v := math.Float64frombits(uint64(1+r.Intn(1<<20)) << uint(r.Intn(32)))
			if r.Bool() {
				v = -v
			}
			return v
		}
		return 1e-50 // below the default zero threshold
	case 7: // exactly on a native bucket boundary that is not a power of two (schemas 1..8), or next to it
		sc := 1 + r.Intn(8)
		bs := prometheus.VerifC04Bounds(sc)
		v := math.Ldexp(bs[1+r.Intn(len(bs)-1)], r.Intn(12)-4)
		switch r.Intn(4) {
		case 0:
			v = math.Nextafter(v, math.Inf(1))
		case 1:
			v = math.Nextafter(v, 0)
		}
		if r.Chance(1, 4) {
			v = -v
		}
		return v
	default:
		return float64(1+r.Intn(4000)) / 8
	}
}

func genCfg(r *emit.Rng) cfg {
	c := cfg{factor: []float64{1.1, 1.5, 2, 4, 1.0002, 16}[r.Intn(6)], maxB: uint32(1 + r.Intn(5))}
	switch r.Intn(3) {
	case 0:
		c.zt = 0 // default threshold
	case 1:
		c.zt = math.Ldexp(1, r.Intn(8)-6)
	default:
		// zero threshold of zero: the documented constant -1 or "any negative float value"
		c.zt = []float64{-1, -1, -0.5, -2, -1e-300, math.Inf(-1)}[r.Intn(6)]
	}
	if r.Chance(1, 2) {
		c.maxZT = math.Ldexp(1, r.Intn(12)-2)
		if r.Chance(1, 6) {
			c.maxZT = math.MaxFloat64 // the zero bucket may then grow up to the last regular bucket
		}
	}
	if r.Chance(1, 2) {
		c.classic = []float64{1, 16, 256}
	}
	c.maxEx = []int{0, 1, 2, 2, 3, -1}[r.Intn(6)]
	return c
}

func mk(c cfg) prometheus.Histogram {
	return prometheus.NewHistogram(prometheus.HistogramOpts{Name: "h", Buckets: c.classic,
		NativeHistogramBucketFactor: c.factor, NativeHistogramZeroThreshold: c.zt, NativeHistogramMaxBucketNumber: c.maxB,
		NativeHistogramMaxZeroThreshold: c.maxZT, NativeHistogramMinResetDuration: 0, NativeHistogramMaxExemplars: c.maxEx})
}

func caseSx(kind int, c cfg, obs []obsRec, scr []scrapeRec, final string, flags int) string {
	os := make([]string, len(obs))
	for i, o := range obs {
		os[i] = emit.Tup(emit.F(o.v), emit.Z(o.inv), emit.Z(o.res))
	}
	ss := make([]string, len(scr))
	for i, s := range scr {
		ss[i] = emit.Tup(s.expo, emit.Z(s.inv), emit.Z(s.res))
	}
	return emit.Tup(emit.I(kind), emit.FL(c.classic), emit.L(os), emit.L(ss), final, emit.I(flags))
}

func runC05(c *cli.Ctx) error {
	if err := runTie(c); err != nil {
		return err
	}
	r := emit.NewRng(c.Seed)
	// ---- (a) deterministic scheduler, seeded random schedules
	w := emit.NewWriter(c.Out, "C05", "sched")
	strategies := 0
	for it := 0; it < 4000*c.Scale; it++ {
		conf := genCfg(r)
		nthreads := 2 + r.Intn(3)
		progs := make([][]op, nthreads)
		for t := range progs {
			n := 1 + r.Intn(4)
			for i := 0; i < n; i++ {
				if t == 0 && r.Chance(1, 2) || r.Chance(1, 6) {
					progs[t] = append(progs[t], op{write: true})
				} else {
					progs[t] = append(progs[t], op{v: genValue(r), ex: r.Chance(1, 3)})
				}
			}
		}
		h := mk(conf)
		obs := make([][]obsRec, nthreads)
		scr := make([][]scrapeRec, nthreads)
		bodies := make([]func(), nthreads)
		panicked := int32(0)
		for t := range progs {
			t := t
			bodies[t] = func() {
				defer func() {
					if e := recover(); e != nil {
						atomic.StoreInt32(&panicked, 1)
					}
				}()
				for _, o := range progs[t] {
					inv := vsched.Now()
					if o.write {
						s, p := scrape(h)
						if p {
							atomic.StoreInt32(&panicked, 1)
						}
						scr[t] = append(scr[t], scrapeRec{expo: s, inv: inv, res: vsched.Now()})
					} else {
						observe(h, o)
						obs[t] = append(obs[t], obsRec{v: o.v, inv: inv, res: vsched.Now()})
					}
				}
			}
		}
		rr := r.Fork()
		// three scheduling styles: uniform random; "sticky" (a thread keeps running for long stretches);
		// "straggler" (one victim thread is frozen after a few of its steps - e.g. between loading the schema
		// and adding to its bucket - until no other thread can run, so whole maintenance operations and
		// scrapes complete around a parked observation)
		style := it % 3
		last := -1
		victim := rr.Intn(nthreads)
		freezeAfter := 1 + rr.Intn(12)
		victimSteps := 0
		res := vsched.Run(bodies, func(ids []int, labels []string) int {
			switch style {
			case 1:
				if last >= 0 && !rr.Chance(1, 12) {
					for k, id := range ids {
						if id == last {
							return k
						}
					}
				}
			case 2:
				if victimSteps >= freezeAfter && len(ids) > 1 {
					var others []int
					for k, id := range ids {
						if id != victim {
							others = append(others, k)
						}
					}
					if len(others) > 0 {
						return others[rr.Intn(len(others))]
					}
				}
			}
			k := rr.Intn(len(ids))
			last = ids[k]
			if ids[k] == victim {
				victimSteps++
			}
			return k
		}, 200000)
		var allObs []obsRec
		var allScr []scrapeRec
		for t := range progs {
			allObs = append(allObs, obs[t]...)
			allScr = append(allScr, scr[t]...)
		}
		flags := 0
		if res.Deadlock {
			flags |= 1
		}
		if res.StepLimit {
			flags |= 2
		}
		if len(res.Panics) > 0 || panicked != 0 {
			flags |= 4
		}
		// after quiescence (scheduler inactive: plain execution). A scrape that never returns (a collector
		// spinning on a count that can no longer be reached) is a deadlock: report it and stop the stream,
		// the spinning goroutine cannot be reclaimed.
		final, hung := scrapeWithWatchdog(h)
		if hung {
			flags |= 8
		}
		tags := []string{fmt.Sprintf("threads:%d", nthreads), fmt.Sprintf("maxbuckets:%d", conf.maxB)}
		for _, s := range res.Trace {
			if s.Label == "Map.Range" || s.Label == "spin" || s.Label == "Map.LoadAndDelete" {
				tags = append(tags, "maintenance-or-spin-in-trace")
				strategies++
				break
			}
		}
		w.Add(caseSx(0, conf, allObs, allScr, final, flags), len(allObs) >= 3 && len(allScr) >= 1, tags...)
		if hung {
			w.Extra["stopped_after_hang_at_run"] = it
			break
		}
	}
	w.Extra["runs_with_maintenance_or_spin"] = strategies
	if err := w.Flush(); err != nil {
		return err
	}
	if _, hungBefore := w.Extra["stopped_after_hang_at_run"]; hungBefore {
		return nil // spinning goroutines cannot be reclaimed; the hang is already reported
	}
	// ---- (a') scheduled resets: MinResetDuration is set and the injected clock never advances, so exceeding the
	// bucket limit schedules a delayed reset through the injected afterFunc; a timer thread fires the captured
	// callbacks at arbitrary points of the schedule. Resets drop observations, so only the upper bounds, the
	// self-consistency of every scrape and liveness (no deadlock, no hanging scrape) are demanded (kind 2).
	w = emit.NewWriter(c.Out, "C05", "sched-reset")
	fired := 0
	for it := 0; it < 1500*c.Scale; it++ {
		conf := genCfg(r)
		conf.maxZT = 0
		nthreads := 2 + r.Intn(2)
		progs := make([][]op, nthreads)
		for t := range progs {
			n := 2 + r.Intn(3)
			for i := 0; i < n; i++ {
				if r.Chance(1, 5) {
					progs[t] = append(progs[t], op{write: true})
				} else {
					progs[t] = append(progs[t], op{v: genValue(r), ex: r.Chance(1, 3)})
				}
			}
		}
		v := prometheus.VerifC04New(prometheus.HistogramOpts{Name: "h", Buckets: conf.classic,
			NativeHistogramBucketFactor: conf.factor, NativeHistogramZeroThreshold: conf.zt, NativeHistogramMaxBucketNumber: conf.maxB,
			NativeHistogramMinResetDuration: time.Hour, NativeHistogramMaxExemplars: conf.maxEx}, time.Unix(1000, 0))
		obs := make([][]obsRec, nthreads)
		scr := make([][]scrapeRec, nthreads)
		bodies := make([]func(), nthreads+1)
		panicked := int32(0)
		for t := range progs {
			t := t
			bodies[t] = func() {
				defer func() {
					if e := recover(); e != nil {
						atomic.StoreInt32(&panicked, 1)
					}
				}()
				for _, o := range progs[t] {
					inv := vsched.Now()
					if o.write {
						var m dto.Metric
						v.Write(&m)
						scr[t] = append(scr[t], scrapeRec{expo: expoOf(&m), inv: inv, res: vsched.Now()})
					} else {
						if o.ex {
							v.ObserveWithExemplar(o.v, exLabels)
						} else {
							v.Observe(o.v)
						}
						obs[t] = append(obs[t], obsRec{v: o.v, inv: inv, res: vsched.Now()})
					}
				}
			}
		}
		bodies[nthreads] = func() { // the timer
			defer func() {
				if e := recover(); e != nil {
					atomic.StoreInt32(&panicked, 1)
				}
			}()
			for i := 0; i < 40; i++ {
				vsched.Point("timer-poll")
				if v.Fire() {
					fired++
				}
			}
		}
		rr := r.Fork()
		victim := rr.Intn(nthreads)
		freezeAfter := 1 + rr.Intn(10)
		victimSteps := 0
		res := vsched.Run(bodies, func(ids []int, labels []string) int {
			if it%2 == 0 && victimSteps >= freezeAfter && len(ids) > 1 {
				var others []int
				for k, id := range ids {
					if id != victim {
						others = append(others, k)
					}
				}
				if len(others) > 0 {
					return others[rr.Intn(len(others))]
				}
			}
			k := rr.Intn(len(ids))
			if ids[k] == victim {
				victimSteps++
			}
			return k
		}, 200000)
		flags := 0
		if res.Deadlock {
			flags |= 1
		}
		if res.StepLimit {
			flags |= 2
		}
		if len(res.Panics) > 0 || panicked != 0 {
			flags |= 4
		}
		var allObs []obsRec
		var allScr []scrapeRec
		for t := range progs {
			allObs = append(allObs, obs[t]...)
			allScr = append(allScr, scr[t]...)
		}
		final := emit.Tup(emit.I(0), emit.F(0), emit.I(0), emit.I(0), emit.F(0), emit.L(nil), emit.L(nil), emit.L(nil))
		hung := false
		if flags == 0 {
			ch := make(chan string, 1)
			go func() { var m dto.Metric; v.Write(&m); ch <- expoOf(&m) }()
			select {
			case final = <-ch:
			case <-time.After(3 * time.Second):
				hung = true
				flags |= 8
			}
		}
		w.Add(caseSx(2, conf, allObs, allScr, final, flags), len(allObs) >= 3, fmt.Sprintf("threads:%d", nthreads), fmt.Sprintf("maxbuckets:%d", conf.maxB))
		if hung {
			w.Extra["stopped_after_hang_at_run"] = it
			break
		}
	}
	w.Extra["timer_callbacks_fired"] = fired
	if err := w.Flush(); err != nil {
		return err
	}
	if _, hungBefore := w.Extra["stopped_after_hang_at_run"]; hungBefore {
		return nil
	}
	// ---- (b) free-running goroutines, logical clock
	w = emit.NewWriter(c.Out, "C05", "stress")
	for it := 0; it < 40*c.Scale; it++ {
		conf := genCfg(r)
		h := mk(conf)
		nobs := 4 + r.Intn(5)
		var clock int64
		var mu sync.Mutex
		var allObs []obsRec
		var allScr []scrapeRec
		var wg sync.WaitGroup
		start := make(chan struct{})
		panicked := int32(0)
		// a bystander: an independent native histogram with many buckets that is collected concurrently by two
		// goroutines of its own during the whole run. Independent histograms must not influence each other.
		bystander := prometheus.NewHistogram(prometheus.HistogramOpts{Name: "by", NativeHistogramBucketFactor: 1.1})
		for k := 0; k < 300; k++ {
			bystander.Observe(math.Ldexp(1+float64(k%7)/8, k%90-45))
		}
		byDone := make(chan struct{})
		var byWg sync.WaitGroup
		for g := 0; g < 2; g++ {
			byWg.Add(1)
			go func() {
				defer byWg.Done()
				for {
					select {
					case <-byDone:
						return
					default:
					}
					if _, p := scrape(bystander); p {
						atomic.StoreInt32(&panicked, 1)
					}
				}
			}()
		}
		for t := 0; t < nobs; t++ {
			vals := make([]float64, 60)
			exs := make([]bool, 60)
			for i := range vals {
				vals[i] = genValue(r)
				exs[i] = r.Chance(1, 3)
			}
			wg.Add(1)
			go func() {
				defer wg.Done()
				defer func() {
					if e := recover(); e != nil {
						atomic.StoreInt32(&panicked, 1)
					}
				}()
				<-start
				for i, v := range vals {
					inv := atomic.AddInt64(&clock, 1)
					observe(h, op{v: v, ex: exs[i]})
					res := atomic.AddInt64(&clock, 1)
					mu.Lock()
					allObs = append(allObs, obsRec{v: v, inv: inv, res: res})
					mu.Unlock()
				}
			}()
		}
		for t := 0; t < 2; t++ {
			wg.Add(1)
			go func() {
				defer wg.Done()
				<-start
				for i := 0; i < 8; i++ {
					inv := atomic.AddInt64(&clock, 1)
					s, p := scrape(h)
					res := atomic.AddInt64(&clock, 1)
					if p {
						atomic.StoreInt32(&panicked, 1)
					}
					mu.Lock()
					allScr = append(allScr, scrapeRec{expo: s, inv: inv, res: res})
					mu.Unlock()
				}
			}()
		}
		close(start)
		done := make(chan struct{})
		go func() { wg.Wait(); close(done) }()
		flags := 0
		stuck := false
		select {
		case <-done:
		case <-time.After(20 * time.Second):
			stuck = true
			flags |= 8
		}
		final := emit.Tup(emit.I(0), emit.F(0), emit.I(0), emit.I(0), emit.F(0), emit.L(nil), emit.L(nil), emit.L(nil))
		if !stuck {
			var hung bool
			final, hung = scrapeWithWatchdog(h) // the bystander's collectors are still running
			close(byDone)
			byWg.Wait()
			if hung {
				stuck = true
				flags |= 8
			}
		}
		if panicked != 0 {
			flags |= 4
		}
		mu.Lock()
		w.Add(caseSx(1, conf, allObs, allScr, final, flags), true, fmt.Sprintf("observers:%d", nobs), fmt.Sprintf("maxbuckets:%d", conf.maxB))
		mu.Unlock()
		if stuck {
			w.Extra["stopped_after_hang_at_run"] = it
			break
		}
	}
	if err := w.Flush(); err != nil {
		return err
	}
	if _, hungBefore := w.Extra["stopped_after_hang_at_run"]; hungBefore {
		return nil
	}
	// ---- (c) the default timer: MinResetDuration is set, the clock is injected but afterFunc is the real
	// time.AfterFunc. The injected clock crosses the reset boundary between the now() calls of one limit
	// enforcement (so the delay handed to the timer is <= 0) or shortly after. Resets drop observations: only
	// self-consistency and liveness are demanded (kind 2).
	w = emit.NewWriter(c.Out, "C05", "default-timer")
	rd := emit.NewRng(c.Seed ^ 0x0d1ec7ed) // the directed cases have their own generator: the others keep their inputs
	for it := 0; it < 100*c.Scale; it++ {
		// the last 40: a hybrid histogram (classic + native) whose observations all lie above the first classic bound,
		// the reset due from the start - so maybeReset's immediate reset repeats an observation of a HIGHER classic
		// bucket, and the first classic bucket must stay empty in every later collection
		directed := it >= 60*c.Scale
		r := r
		if directed {
			r = rd
		}
		conf := genCfg(r)
		conf.maxZT = 0
		if directed {
			conf.classic = []float64{1, 16, 256}
			conf.factor = []float64{2, 4, 1.5}[r.Intn(3)]
			conf.maxB = uint32(1 + r.Intn(2))
		}
		base := time.Unix(1_700_000_000, 0)
		var armed, calls int64
		cross := int64(1 + r.Intn(4)) // the now() call (after arming) from which on the reset is due
		if directed {
			cross = 1
		}
		nowFn := func() time.Time {
			if atomic.LoadInt64(&armed) == 0 {
				return base
			}
			if atomic.AddInt64(&calls, 1) < cross {
				return base.Add(time.Hour - time.Nanosecond)
			}
			return base.Add(time.Hour + time.Second)
		}
		h := prometheus.VerifC05NewClock(prometheus.HistogramOpts{Name: "h", Buckets: conf.classic,
			NativeHistogramBucketFactor: conf.factor, NativeHistogramZeroThreshold: conf.zt, NativeHistogramMaxBucketNumber: conf.maxB,
			NativeHistogramMinResetDuration: time.Hour, NativeHistogramMaxExemplars: conf.maxEx}, nowFn)
		nops := 6 + r.Intn(10)
		ops := make([]op, nops)
		for i := range ops {
			if r.Chance(1, 5) {
				ops[i] = op{write: true}
			} else {
				ops[i] = op{v: math.Ldexp(1, 4*(i%8)-8+r.Intn(3)), ex: r.Chance(1, 3)} // sparse: soon over the limit
				if r.Chance(1, 6) {
					ops[i].v = genValue(r)
				}
				if directed {
					ops[i].v = math.Ldexp(1.5, 1+r.Intn(7)) // 3 .. 192: classic buckets 2 and 3, many sparse buckets
				}
			}
		}
		armAt := r.Intn(nops)
		if directed {
			armAt = 0
		}
		var clock int64
		var obs []obsRec
		var scr []scrapeRec
		panicked := int32(0)
		done := make(chan struct{})
		go func() {
			defer close(done)
			defer func() {
				if e := recover(); e != nil {
					atomic.StoreInt32(&panicked, 1)
				}
			}()
			for i, o := range ops {
				if i == armAt {
					atomic.StoreInt64(&armed, 1)
				}
				inv := atomic.AddInt64(&clock, 1)
				if o.write {
					s, p := scrape(h)
					if p {
						atomic.StoreInt32(&panicked, 1)
					}
					scr = append(scr, scrapeRec{expo: s, inv: inv, res: atomic.AddInt64(&clock, 1)})
				} else {
					observe(h, o)
					obs = append(obs, obsRec{v: o.v, inv: inv, res: atomic.AddInt64(&clock, 1)})
				}
			}
		}()
		flags := 0
		stuck := false
		select {
		case <-done:
		case <-time.After(5 * time.Second):
			stuck = true
			flags |= 8
		}
		final := emit.Tup(emit.I(0), emit.F(0), emit.I(0), emit.I(0), emit.F(0), emit.L(nil), emit.L(nil), emit.L(nil))
		if !stuck {
			time.Sleep(2 * time.Millisecond) // let an immediately due timer callback run
			var hung bool
			final, hung = scrapeWithWatchdog(h)
			if hung {
				stuck = true
				flags |= 8
			}
		}
		if panicked != 0 {
			flags |= 4
		}
		if stuck {
			obs, scr = nil, nil // still owned by the stuck goroutine
		}
		tag := fmt.Sprintf("cross-at-now-call:%d", cross)
		if directed {
			tag = "directed-hybrid-immediate-reset"
		}
		w.Add(caseSx(2, conf, obs, scr, final, flags), len(obs) >= 3, tag, fmt.Sprintf("maxbuckets:%d", conf.maxB))
		if stuck {
			w.Extra["stopped_after_hang_at_run"] = it
			break
		}
	}
	if n := atomic.LoadInt64(&infBucketMismatch); n > 0 {
		w.Extra["direct_failures"] = []map[string]interface{}{{"index": -1, "what": fmt.Sprintf("%d collections (all streams) expose an explicit +Inf classic bucket whose cumulative count differs from the sample count", n)}}
	}
	return w.Flush()
}

// ---- stream tie: the step machine of Model/NativeConc.v against the REAL instrumented code, step by step.
// A native-only histogram (no classic buckets, native exemplars disabled, no reset configured) runs Observe and
// Write under the deterministic scheduler; the case carries the configuration, the programs, the schedule, the
// canonical label of every executed schedule point and every call's result with its invocation/response times.
// Run/C05_run.v runs zmachine under the same schedule and demands identical labels, results and times (kind 3).
type tieCall struct {
	tid, idx int
	ret      string
	inv, res int64
}

func tieExpo(m *dto.Metric) string {
	hh := m.Histogram
	return emit.Tup(emit.Z(int64(hh.GetSchema())), emit.F(hh.GetZeroThreshold()), emit.U(hh.GetZeroCount()), emit.U(hh.GetSampleCount()),
		emit.F(hh.GetSampleSum()), decode(hh.PositiveSpan, hh.PositiveDelta), decode(hh.NegativeSpan, hh.NegativeDelta))
}

type tieTarget interface {
	Observe(float64)
	Write(*dto.Metric) error
}

// op kinds of the tie stream: 0 Observe v, 1 Write, 2 timer poll (fire a pending reset callback), 3 advance the clock by d ns
type tieOp struct {
	kind int
	v    float64
	d    int64
}

func runTie(c *cli.Ctx) error {
	r := emit.NewRng(c.Seed ^ 0x5ca1ab1e)
	w := emit.NewWriter(c.Out, "C05", "tie")
	maint, resets := 0, 0
	for it := 0; it < 1800*c.Scale; it++ {
		withReset := it%3 == 2 // a third of the runs: MinResetDuration > 0, injected clock, timer thread
		factor := []float64{1.1, 1.5, 2, 4, 1.0002, 16}[r.Intn(6)]
		var zt float64
		switch r.Intn(3) {
		case 0:
			zt = 0
		case 1:
			zt = math.Ldexp(1, r.Intn(8)-6)
		default:
			zt = -1
		}
		maxB := uint32(r.Intn(5)) // 0: no limit
		maxZT := 0.0
		if r.Chance(1, 2) {
			maxZT = math.Ldexp(1, r.Intn(12)-2)
			if r.Chance(1, 6) {
				maxZT = math.MaxFloat64
			}
		}
		minReset := int64(0)
		if withReset {
			minReset = 1000
			maxB = uint32(1 + r.Intn(3))
		}
		schema := prometheus.VerifC04PickSchema(factor)
		nthreads := 2 + r.Intn(3)
		progs := make([][]tieOp, nthreads)
		for t := range progs {
			n := 1 + r.Intn(4)
			for i := 0; i < n; i++ {
				if t == 0 && r.Chance(1, 2) || r.Chance(1, 6) {
					progs[t] = append(progs[t], tieOp{kind: 1})
				} else {
					progs[t] = append(progs[t], tieOp{kind: 0, v: genValue(r)})
				}
			}
		}
		if withReset {
			var tp []tieOp
			n := 2 + r.Intn(5)
			for i := 0; i < n; i++ {
				if r.Chance(1, 2) {
					tp = append(tp, tieOp{kind: 2})
				} else {
					tp = append(tp, tieOp{kind: 3, d: []int64{0, 400, 1000, 2500}[r.Intn(4)]})
				}
			}
			progs = append(progs, tp)
			nthreads++
		}
		opts := prometheus.HistogramOpts{Name: "h",
			NativeHistogramBucketFactor: factor, NativeHistogramZeroThreshold: zt, NativeHistogramMaxBucketNumber: maxB,
			NativeHistogramMaxZeroThreshold: maxZT, NativeHistogramMinResetDuration: time.Duration(minReset), NativeHistogramMaxExemplars: -1}
		var h tieTarget
		var vh *prometheus.VerifC04Hist
		if withReset {
			vh = prometheus.VerifC04New(opts, time.Unix(1000, 0))
			h = vh
		} else {
			h = prometheus.NewHistogram(opts).(tieTarget)
		}
		recs := make([][]tieCall, nthreads)
		bodies := make([]func(), nthreads)
		for t := range progs {
			t := t
			bodies[t] = func() {
				for i, o := range progs[t] {
					inv := vsched.Now()
					ret := emit.C(0)
					switch o.kind {
					case 1:
						var m dto.Metric
						h.Write(&m)
						ret = emit.C(1, tieExpo(&m))
					case 0:
						h.Observe(o.v)
					case 2:
						vsched.Point("timer-poll")
						if vh.Fire() {
							resets++
						}
					case 3:
						vsched.Point("clock")
						vh.Advance(time.Duration(o.d))
					}
					recs[t] = append(recs[t], tieCall{tid: t, idx: i, ret: ret, inv: inv, res: vsched.Now()})
				}
			}
		}
		rr := r.Fork()
		style := it % 3
		if withReset {
			style = rr.Intn(3)
		}
		last := -1
		victim := rr.Intn(nthreads)
		freezeAfter := 1 + rr.Intn(12)
		victimSteps := 0
		res := vsched.Run(bodies, func(ids []int, labels []string) int {
			switch style {
			case 1:
				if last >= 0 && !rr.Chance(1, 12) {
					for k, id := range ids {
						if id == last {
							return k
						}
					}
				}
			case 2:
				if victimSteps >= freezeAfter && len(ids) > 1 {
					var others []int
					for k, id := range ids {
						if id != victim {
							others = append(others, k)
						}
					}
					if len(others) > 0 {
						return others[rr.Intn(len(others))]
					}
				}
			}
			k := rr.Intn(len(ids))
			last = ids[k]
			if ids[k] == victim {
				victimSteps++
			}
			return k
		}, 200000)
		var all []string
		for _, rs := range recs {
			for _, cr := range rs {
				all = append(all, emit.Tup(emit.I(cr.tid), emit.I(cr.idx), cr.ret, emit.Z(cr.inv), emit.Z(cr.res)))
			}
		}
		ps := make([]string, len(progs))
		for i, p := range progs {
			os := make([]string, len(p))
			for j, o := range p {
				switch o.kind {
				case 1:
					os[j] = emit.C(1)
				case 0:
					os[j] = emit.C(0, emit.F(o.v))
				case 2:
					os[j] = emit.C(2)
				case 3:
					os[j] = emit.C(3, emit.Z(o.d))
				}
			}
			ps[i] = emit.L(os)
		}
		sched, tr := schedx.TraceSx(res.Trace, true)
		tags := []string{fmt.Sprintf("threads:%d", nthreads), fmt.Sprintf("maxbuckets:%d", maxB)}
		if withReset {
			tags = append(tags, "reset-configured")
		}
		for _, s := range res.Trace {
			if s.Label == "Map.LoadAndDelete" || s.Label == "Map.Delete" {
				tags = append(tags, "widen-or-halve-or-reset-in-trace")
				maint++
				break
			}
		}
		for _, s := range res.Trace {
			if strings.HasPrefix(s.Label, "SwapUint64") {
				tags = append(tags, "reset-swap-in-trace")
				break
			}
		}
		cfgSx := emit.Tup(emit.Z(int64(schema)), emit.F(zt), emit.U(uint64(maxB)), emit.F(maxZT), emit.Z(minReset))
		w.Add(emit.Tup(emit.I(3), cfgSx, emit.L(ps), sched, tr, emit.L(all), emit.I(schedx.Flags(res))), len(res.Trace) >= 12, tags...)
	}
	w.Extra["runs_with_widen_halve_or_reset_deletes"] = maint
	w.Extra["timer_callbacks_fired"] = resets
	return w.Flush()
}
