package main

import (
	"fmt"
	"math"
	"sort"
	"sync"
	"sync/atomic"
	"time"

	"github.com/prometheus/client_golang/prometheus"
	"github.com/prometheus/client_golang/prometheus/vsched"
	dto "github.com/prometheus/client_model/go"

	"verifharness/internal/cli"
	"verifharness/internal/emit"
	"verifharness/internal/schedx"
)

// C06: summary with objectives -- count/sum exact, quantiles reflect only the sliding window.
// case := (opts t0 ops impl)            (see coq/theories/Run/C06_run.v)
//   opts = (vars consts nvalues ((q eps)...) maxage agebuckets bufcap)
//   op   = (0 v) Observe | (1 dt) Advance | (2) Write
//   impl = (0 k) no summary (k: 0 cardinality panic, 1 quantile-label panic, 2 max-age panic, 3 no objectives, 5 other panic)
//        | (1 ((count sum ((q isnan value)...))...)) | (2) hung

func main() { cli.Main("C06", runC06) }

type c06Opts struct {
	vars, consts, values []string
	objs                 [][2]float64 // sorted by quantile
	maxAge               int64
	ageBuckets, bufCap   uint32
}

type c06Op struct {
	kind int // 0 observe, 1 advance, 2 write
	v    float64
	dt   int64
}

type c06Q struct {
	q     float64
	isNaN bool
	v     float64
}
type c06Write struct {
	count uint64
	sum   float64
	qs    []c06Q
}

func (o c06Opts) term() string {
	objs := make([]string, len(o.objs))
	for i, p := range o.objs {
		objs[i] = emit.Pair(emit.F(p[0]), emit.F(p[1]))
	}
	vs := make([]string, len(o.vars))
	for i, s := range o.vars {
		vs[i] = emit.S(s)
	}
	cs := make([]string, len(o.consts))
	for i, s := range o.consts {
		cs[i] = emit.S(s)
	}
	return emit.Tup(emit.L(vs), emit.L(cs), emit.I(len(o.values)), emit.L(objs), emit.Z(o.maxAge), emit.U(uint64(o.ageBuckets)), emit.U(uint64(o.bufCap)))
}

func opsTerm(ops []c06Op) string {
	t := make([]string, len(ops))
	for i, op := range ops {
		switch op.kind {
		case 0:
			t[i] = emit.C(0, emit.F(op.v))
		case 1:
			t[i] = emit.C(1, emit.Z(op.dt))
		default:
			t[i] = emit.C(2)
		}
	}
	return emit.L(t)
}

func writesTerm(ws []c06Write) string {
	t := make([]string, len(ws))
	for i, w := range ws {
		qs := make([]string, len(w.qs))
		for j, q := range w.qs {
			v := q.v
			if q.isNaN {
				v = math.NaN()
			}
			qs[j] = emit.Tup(emit.F(q.q), emit.B(q.isNaN), emit.F(v))
		}
		t[i] = emit.Tup(emit.U(w.count), emit.F(w.sum), emit.L(qs))
	}
	return emit.C(1, emit.L(t))
}

// effective parameters after the defaults of newSummary
func (o c06Opts) eff() (d int64, n int64, cap int64) {
	ma := o.maxAge
	if ma == 0 {
		ma = int64(prometheus.DefMaxAge)
	}
	n = int64(o.ageBuckets)
	if n == 0 {
		n = prometheus.DefAgeBuckets
	}
	cap = int64(o.bufCap)
	if cap == 0 {
		cap = prometheus.DefBufCap
	}
	return ma / n, n, cap
}

type c06Clock struct{ ns int64 }

func (c *c06Clock) now() time.Time { return time.Unix(0, atomic.LoadInt64(&c.ns)) }

// construct the real summary; kind as in the wire format, 4 = summary with objectives
func c06New(o c06Opts, clk *c06Clock) (s prometheus.Summary, kind int) {
	defer func() {
		if e := recover(); e != nil {
			s = nil
			switch {
			case prometheus.VerifC06IsQuantileLabelErr(e):
				kind = 1
			case prometheus.VerifC06IsCardinalityErr(e):
				kind = 0
			default:
				if err, ok := e.(error); ok && len(err.Error()) >= 15 && err.Error()[:15] == "illegal max age" {
					kind = 2
				} else {
					kind = 5
				}
			}
		}
	}()
	var objs map[float64]float64
	if o.objs != nil {
		objs = map[float64]float64{}
		for _, p := range o.objs {
			objs[p[0]] = p[1]
		}
	}
	cl := prometheus.Labels{}
	for _, c := range o.consts {
		cl[c] = "c"
	}
	so := prometheus.SummaryOpts{Name: "s", Help: "h", ConstLabels: cl, Objectives: objs,
		MaxAge: time.Duration(o.maxAge), AgeBuckets: o.ageBuckets, BufCap: o.bufCap}
	s = prometheus.VerifC06NewSummary(so, clk.now, o.vars, o.values)
	if prometheus.VerifC06HasObjectives(s) {
		return s, 4
	}
	return s, 3
}

func c06Collect(s prometheus.Summary) c06Write {
	var m dto.Metric
	if err := s.Write(&m); err != nil {
		panic(err)
	}
	w := c06Write{count: m.Summary.GetSampleCount(), sum: m.Summary.GetSampleSum()}
	for _, q := range m.Summary.Quantile {
		v := q.GetValue()
		w.qs = append(w.qs, c06Q{q: q.GetQuantile(), isNaN: v != v, v: v})
	}
	return w
}

// runs the real code sequentially; impl term
func c06RunImpl(o c06Opts, t0 int64, ops []c06Op) (string, int, []c06Write) {
	clk := &c06Clock{ns: t0}
	s, kind := c06New(o, clk)
	if kind == 3 { // summary without objectives: count and sum of every collection
		var t []string
		for _, op := range ops {
			switch op.kind {
			case 0:
				s.Observe(op.v)
			case 1:
				atomic.AddInt64(&clk.ns, op.dt)
			default:
				x := c06Collect(s)
				t = append(t, emit.Tup(emit.U(x.count), emit.F(x.sum), emit.I(len(x.qs))))
			}
		}
		return emit.C(3, emit.L(t)), kind, nil
	}
	if kind != 4 {
		return emit.C(0, emit.I(kind)), kind, nil
	}
	var ws []c06Write
	for _, op := range ops {
		switch op.kind {
		case 0:
			s.Observe(op.v)
		case 1:
			atomic.AddInt64(&clk.ns, op.dt)
		default:
			ws = append(ws, c06Collect(s))
		}
	}
	return writesTerm(ws), kind, ws
}

// ---------- generators ----------

var c06ObjPool = [][2]float64{{0.5, 0.05}, {0.9, 0.01}, {0.99, 0.001}, {0.1, 0.05}, {0.25, 0.02}, {0.75, 0.02},
	{0.999, 0.0001}, {0.01, 0.005}, {0.5, 0.01}, {0.95, 0.005}, {0.05, 0.01}, {0.5, 0.1}}

func c06Objs(r *emit.Rng) [][2]float64 {
	k := 1 + r.Intn(4)
	seen := map[float64]bool{}
	var out [][2]float64
	for len(out) < k {
		p := c06ObjPool[r.Intn(len(c06ObjPool))]
		if !seen[p[0]] {
			seen[p[0]] = true
			out = append(out, p)
		}
	}
	sort.Slice(out, func(i, j int) bool { return out[i][0] < out[j][0] })
	return out
}

// stream duration classes; MaxAge = d*n + extra (extra < n exercises the integer division)
func c06Config(r *emit.Rng) (c06Opts, string) {
	o := c06Opts{objs: c06Objs(r)}
	n := int64(1 + r.Intn(7))
	o.ageBuckets = uint32(n)
	if r.Chance(1, 12) {
		o.ageBuckets, n = 0, prometheus.DefAgeBuckets
	}
	var d int64
	var tag string
	switch r.Intn(7) {
	case 0:
		d, tag = 1, "d:1ns"
	case 1:
		d, tag = int64(2+r.Intn(9)), "d:2-10ns"
	case 2:
		d, tag = int64(1000+r.Intn(1000)), "d:us"
	case 3:
		d, tag = int64(time.Second), "d:1s"
	case 4:
		d, tag = 12*int64(time.Second), "d:12s"
	case 5:
		d, tag = 2*int64(time.Minute), "d:2min"
	default:
		d, tag = int64(1+r.Intn(100000)), "d:random"
	}
	o.maxAge = d*n + int64(r.Intn(int(n)))
	if r.Chance(1, 15) {
		o.maxAge = 0
		tag = "d:default-maxage"
	}
	caps := []uint32{1, 2, 3, 5, 10, 37, 100, 499, 500, 501, 600, 0}
	o.bufCap = caps[r.Intn(len(caps))]
	return o, tag
}

func c06Values(r *emit.Rng, n int) ([]float64, string) {
	vs := make([]float64, n)
	switch r.Intn(9) {
	case 0:
		for i := range vs {
			vs[i] = float64(i) * 0.5
		}
		return vs, "values:sorted-asc"
	case 1:
		for i := range vs {
			vs[i] = float64(n-i) * 0.25
		}
		return vs, "values:sorted-desc"
	case 2:
		c := float64(r.Intn(7)) - 3
		for i := range vs {
			vs[i] = c
		}
		return vs, "values:constant"
	case 3:
		for i := range vs {
			vs[i] = math.Exp(r.Float01() * 30)
			if r.Chance(1, 5) {
				vs[i] = -vs[i]
			}
		}
		return vs, "values:heavy-tailed"
	case 4:
		for i := range vs {
			switch r.Intn(6) {
			case 0:
				vs[i] = math.Inf(1)
			case 1:
				vs[i] = math.Inf(-1)
			default:
				vs[i] = float64(r.Intn(100))
			}
		}
		return vs, "values:with-inf"
	case 5:
		for i := range vs {
			vs[i] = float64(r.Intn(5))
		}
		return vs, "values:few-distinct"
	case 6:
		for i := range vs {
			f := r.AnyFloat()
			for f != f {
				f = r.AnyFloat()
			}
			vs[i] = f
		}
		return vs, "values:any-non-nan"
	case 7:
		for i := range vs {
			vs[i] = r.Float01()
		}
		return vs, "values:uniform"
	default:
		for i := range vs {
			vs[i] = float64(r.Intn(1000)) / 8
			if r.Chance(1, 3) {
				vs[i] = math.Copysign(0, -1)
			}
		}
		return vs, "values:dyadic-and-negzero"
	}
}

// clock advance of one pattern; now/t0/d/n describe the current position
func c06Advance(r *emit.Rng, pat int, now, t0, d, n int64) int64 {
	switch pat {
	case 0:
		return 0
	case 1: // sub-bucket
		return int64(r.Intn(int(d/4) + 1))
	case 2: // exactly d
		return d
	case 3: // onto / next to the next multiple of d
		next := t0 + ((now-t0)/d+1)*d
		dt := next - now + int64(r.Intn(3)) - 1
		if dt < 0 {
			dt = 0
		}
		return dt
	case 4: // several MaxAge at once
		return int64(1+r.Intn(3))*n*d + int64(r.Intn(int(d)+1))
	case 5: // around the full window n*d and (n-1)*d
		k := n - int64(r.Intn(2))
		dt := k*d + int64(r.Intn(3)) - 1
		if dt < 0 {
			dt = 0
		}
		return dt
	default:
		return c06Advance(r, r.Intn(6), now, t0, d, n)
	}
}

var c06PatNames = []string{"clock:none", "clock:sub-bucket", "clock:exactly-d", "clock:bucket-edge", "clock:several-maxage", "clock:window-edge", "clock:mixed"}

func c06T0(r *emit.Rng) int64 {
	switch r.Intn(4) {
	case 0:
		return 0
	case 1:
		return int64(r.Intn(1000))
	case 2:
		return 1700000000 * int64(time.Second)
	default:
		return int64(r.U64() >> 4)
	}
}

// an operation list: nobs observations with the given clock pattern, writes in between and at the end
func c06Ops(r *emit.Rng, o c06Opts, t0 int64, nobs, pat int, pAdv, pWrite int, vals []float64) (ops []c06Op, rotations bool) {
	d, n, _ := o.eff()
	now := t0
	for i := 0; i < nobs; i++ {
		ops = append(ops, c06Op{kind: 0, v: vals[i]})
		if pat != 0 && r.Chance(1, pAdv) {
			dt := c06Advance(r, pat, now, t0, d, n)
			now += dt
			if dt >= d {
				rotations = true
			}
			ops = append(ops, c06Op{kind: 1, dt: dt})
		}
		if r.Chance(1, pWrite) {
			ops = append(ops, c06Op{kind: 2})
		}
	}
	if pat != 0 && r.Chance(1, 2) {
		dt := c06Advance(r, pat, now, t0, d, n)
		if dt >= d {
			rotations = true
		}
		ops = append(ops, c06Op{kind: 1, dt: dt})
	}
	ops = append(ops, c06Op{kind: 2})
	return
}

func c06CountClass(r *emit.Rng, cap int64) (int, string) {
	switch r.Intn(6) {
	case 0:
		return r.Intn(4), "count:0-3"
	case 1:
		return 4 + r.Intn(30), "count:small"
	case 2: // around the buffer capacity
		k := int(cap) + r.Intn(3) - 1
		if k < 0 {
			k = 0
		}
		return k, "count:bufcap+-1"
	case 3:
		k := 2*int(cap) + r.Intn(3) - 1
		return k, "count:2bufcap+-1"
	case 4:
		return 30 + r.Intn(200), "count:medium"
	default:
		return int(cap) + r.Intn(int(cap)+1), "count:bufcap..2bufcap"
	}
}

func c06Emit(w *emit.Writer, o c06Opts, t0 int64, ops []c06Op, tags ...string) {
	impl, kind, ws := c06RunImpl(o, t0, ops)
	nobs := 0
	for _, op := range ops {
		if op.kind == 0 {
			nobs++
		}
	}
	nonEmpty, empty := false, false
	for _, x := range ws {
		for _, q := range x.qs {
			if q.isNaN {
				empty = true
			} else {
				nonEmpty = true
			}
		}
	}
	tags = append(tags, fmt.Sprintf("result:kind%d", kind))
	if nonEmpty {
		tags = append(tags, "window:some-non-empty")
	}
	if empty && nobs > 0 {
		tags = append(tags, "window:emptied-or-nan")
	}
	w.Add(emit.Tup(o.term(), emit.Z(t0), opsTerm(ops), impl), kind == 4 && nobs >= 2 && nonEmpty, tags...)
}

func runC06(c *cli.Ctx) error {
	r := emit.NewRng(c.Seed)

	// ---- stream seq: structured, mostly valid ----
	w := emit.NewWriter(c.Out, "C06", "seq")
	for i := 0; i < 500*c.Scale; i++ {
		o, dtag := c06Config(r)
		_, _, cap := o.eff()
		nobs, ctag := c06CountClass(r, cap)
		if nobs > 700 {
			nobs = 700
		}
		vals, vtag := c06Values(r, nobs)
		pat := r.Intn(7)
		pw := 2 + r.Intn(12)
		if pw < nobs/12 {
			pw = nobs / 12 // at most a dozen collections or so in a long history
		}
		ops, rot := c06Ops(r, o, 0, nobs, pat, 1+r.Intn(8), pw, vals)
		t0 := c06T0(r)
		tags := []string{dtag, ctag, vtag, c06PatNames[pat], fmt.Sprintf("buckets:%d", o.ageBuckets), fmt.Sprintf("objectives:%d", len(o.objs))}
		if rot {
			tags = append(tags, "rotation:yes")
		}
		// the generator computed the advances relative to t0 = 0; they are relative, so any t0 works
		c06Emit(w, o, t0, ops, tags...)
	}
	if err := w.Flush(); err != nil {
		return err
	}

	// ---- stream edge: few observations, directed clock positions around every multiple of d ----
	w = emit.NewWriter(c.Out, "C06", "edge")
	for i := 0; i < 400*c.Scale; i++ {
		o, dtag := c06Config(r)
		d, n, _ := o.eff()
		if r.Chance(1, 2) {
			o.bufCap = uint32(1 + r.Intn(4))
		}
		t0 := c06T0(r)
		var ops []c06Op
		now := int64(0)
		k := 2 + r.Intn(10)
		for j := 0; j < k; j++ {
			ops = append(ops, c06Op{kind: 0, v: float64(j + 1)})
			// jump to m*d + {-1,0,1} for some m ahead (within 2n+1 buckets)
			m := now/d + int64(r.Intn(int(2*n)+2))
			target := m*d + int64(r.Intn(3)) - 1
			if target < now {
				target = now
			}
			if r.Chance(3, 4) {
				ops = append(ops, c06Op{kind: 1, dt: target - now})
				now = target
			}
			if r.Chance(1, 2) {
				ops = append(ops, c06Op{kind: 2})
			}
		}
		ops = append(ops, c06Op{kind: 2})
		c06Emit(w, o, t0, ops, dtag, "clock:directed-edges", fmt.Sprintf("buckets:%d", o.ageBuckets))
	}
	if err := w.Flush(); err != nil {
		return err
	}

	// ---- stream buckets: many age buckets (around the 8-bit boundary), clock jumps across hundreds of buckets ----
	w = emit.NewWriter(c.Out, "C06", "buckets")
	bigN := []int64{64, 255, 256, 257, 300, 1000}
	for i := 0; i < 48*c.Scale; i++ {
		o := c06Opts{objs: c06Objs(r)}
		n := bigN[i%len(bigN)]
		o.ageBuckets = uint32(n)
		d := []int64{1, 3, 10, 1000, 1000000}[r.Intn(5)]
		o.maxAge = d*n + int64(r.Intn(int(n)))
		o.bufCap = []uint32{1, 2, 5, 0}[r.Intn(4)]
		t0 := c06T0(r)
		var ops []c06Op
		v := 1.0
		rounds := 2 + r.Intn(4)
		for j := 0; j < rounds; j++ {
			for q := 0; q < 1+r.Intn(3); q++ {
				ops = append(ops, c06Op{kind: 0, v: v})
				v++
			}
			// jump m buckets: just past 255/256/257, just inside / at / past the whole window, or a few
			var m int64
			switch r.Intn(7) {
			case 0:
				m = 254 + int64(r.Intn(6))
			case 1:
				m = n - 2 + int64(r.Intn(4))
			case 2:
				m = n/2 + int64(r.Intn(5))
			case 3:
				m = 2*n + int64(r.Intn(5))
			case 4:
				m = int64(r.Intn(4))
			case 5:
				m = 510 + int64(r.Intn(6))
			default:
				m = 1 + int64(r.Intn(int(n)))
			}
			dt := m*d + int64(r.Intn(3)) - 1
			if dt < 0 {
				dt = 0
			}
			ops = append(ops, c06Op{kind: 1, dt: dt})
			if r.Chance(1, 2) {
				ops = append(ops, c06Op{kind: 0, v: v})
				v++
			}
			ops = append(ops, c06Op{kind: 2})
		}
		c06Emit(w, o, t0, ops, fmt.Sprintf("buckets:%d", n), "clock:jumps-across-hundreds-of-buckets")
	}
	if err := w.Flush(); err != nil {
		return err
	}

	// ---- stream noobj: summaries WITHOUT objectives (nil / empty map; directly and as a vec child) collected
	// 3-6 times, with and without observations between the collections, non-zero sums ----
	w = emit.NewWriter(c.Out, "C06", "noobj")
	for i := 0; i < 60*c.Scale; i++ {
		o, _ := c06Config(r)
		o.objs = nil
		if r.Chance(1, 2) {
			o.objs = [][2]float64{}
		}
		tag := "direct"
		if r.Chance(1, 2) {
			o.vars, o.values, tag = []string{"a"}, []string{"x"}, "vec-child"
		}
		var ops []c06Op
		ncoll := 3 + r.Intn(4)
		for j := 0; j < ncoll; j++ {
			nobs := r.Intn(4)
			if j == 0 {
				nobs = 1 + r.Intn(3) // a non-zero sum before the first collection
			}
			if r.Chance(1, 3) {
				nobs = 0 // collections back to back
			}
			for q := 0; q < nobs; q++ {
				v := float64(1+r.Intn(1000)) / 8
				if r.Chance(1, 6) {
					v = math.Exp(r.Float01() * 20)
				}
				ops = append(ops, c06Op{kind: 0, v: v})
			}
			if r.Chance(1, 4) {
				ops = append(ops, c06Op{kind: 1, dt: int64(r.Intn(1000))})
			}
			ops = append(ops, c06Op{kind: 2})
		}
		c06Emit(w, o, c06T0(r), ops, "no-objectives", tag, fmt.Sprintf("collections:%d", ncoll))
	}
	if err := w.Flush(); err != nil {
		return err
	}

	// ---- stream big: windows beyond the estimator's 500-sample buffer ----
	w = emit.NewWriter(c.Out, "C06", "big")
	for i := 0; i < 24*c.Scale; i++ {
		o, dtag := c06Config(r)
		nobs := 501 + r.Intn(1500)
		vals, vtag := c06Values(r, nobs)
		pat := []int{0, 1, 1, 3, 6}[r.Intn(5)]
		ops, rot := c06Ops(r, o, 0, nobs, pat, 40+r.Intn(200), 100+r.Intn(400), vals)
		tags := []string{dtag, "count:501-2000", vtag, c06PatNames[pat]}
		if rot {
			tags = append(tags, "rotation:yes")
		}
		c06Emit(w, o, c06T0(r), ops, tags...)
	}
	if err := w.Flush(); err != nil {
		return err
	}

	// ---- stream malformed: refused constructions, defaults, NaN observations, no objectives ----
	w = emit.NewWriter(c.Out, "C06", "malformed")
	names := []string{"a", "b", "quantile", "Quantile", "quantile_", "le", "q", "quantil"}
	for i := 0; i < 300*c.Scale; i++ {
		o, _ := c06Config(r)
		tag := ""
		switch r.Intn(8) {
		case 0: // quantile as a variable label
			o.vars = []string{"a", "quantile"}[r.Intn(2):]
			if r.Chance(1, 2) {
				o.vars = append([]string{"b"}, o.vars...)
			}
			o.values = make([]string, len(o.vars))
			tag = "bad:quantile-variable-label"
		case 1: // quantile as a const label
			o.consts = []string{"quantile"}
			if r.Chance(1, 2) {
				o.consts = append(o.consts, "zone")
			}
			tag = "bad:quantile-const-label"
		case 2:
			o.maxAge = -int64(1 + r.Intn(1000))
			if r.Chance(1, 3) {
				o.maxAge = math.MinInt64
			}
			tag = "bad:negative-maxage"
		case 3: // random label names, sometimes a cardinality mismatch
			nv := r.Intn(3)
			seen := map[string]bool{}
			for j := 0; j < nv; j++ {
				s := names[r.Intn(len(names))]
				if !seen[s] {
					seen[s] = true
					o.vars = append(o.vars, s)
				}
			}
			nc := r.Intn(3)
			for j := 0; j < nc; j++ {
				s := names[r.Intn(len(names))]
				if !seen[s] {
					seen[s] = true
					o.consts = append(o.consts, s)
				}
			}
			sort.Strings(o.consts)
			o.values = make([]string, len(o.vars))
			if r.Chance(1, 4) {
				o.values = make([]string, r.Intn(4))
			}
			tag = "bad:random-labels"
		case 4:
			o.objs = nil
			if r.Chance(1, 2) {
				o.objs = [][2]float64{}
			}
			tag = "no-objectives"
		case 5: // all defaults
			o.maxAge, o.ageBuckets, o.bufCap = 0, 0, 0
			tag = "all-defaults"
		case 6: // several problems at once: which panic wins
			o.vars = []string{"quantile"}
			o.values = make([]string, r.Intn(3))
			o.maxAge = -5
			tag = "bad:several"
		default: // NaN observations: only count and sum are compared
			tag = "nan-observations"
		}
		d, n, _ := o.eff()
		nobs := r.Intn(40)
		vals, _ := c06Values(r, nobs)
		if tag == "nan-observations" {
			for j := range vals {
				if r.Chance(1, 4) {
					vals[j] = math.NaN()
				}
			}
		}
		var ops []c06Op
		if d > 0 && o.maxAge >= 0 {
			_ = n
			ops, _ = c06Ops(r, o, 0, nobs, r.Intn(7), 1+r.Intn(6), 2+r.Intn(8), vals)
		} else {
			ops = []c06Op{{kind: 0, v: 1}, {kind: 2}}
		}
		c06Emit(w, o, c06T0(r), ops, tag)
	}
	// the vector constructor refuses the label before any child exists (summary.go:570-575)
	for i := 0; i < 40; i++ {
		var vars []string
		for j := 0; j < 1+r.Intn(3); j++ {
			vars = append(vars, names[r.Intn(len(names))])
		}
		has := false
		for _, v := range vars {
			if v == "quantile" {
				has = true
			}
		}
		refused := false
		func() {
			defer func() {
				if e := recover(); e != nil {
					refused = prometheus.VerifC06IsQuantileLabelErr(e)
				}
			}()
			prometheus.NewSummaryVec(prometheus.SummaryOpts{Name: "s", Help: "h", Objectives: map[float64]float64{0.5: 0.05}}, vars)
		}()
		w.Tag("vec-constructor", 1)
		if refused != has {
			fails, _ := w.Extra["direct_failures"].([]map[string]interface{})
			w.Extra["direct_failures"] = append(fails, map[string]interface{}{"index": -1,
				"what": fmt.Sprintf("NewSummaryVec with labels %q: refused=%v, contains quantile=%v", vars, refused, has)})
		}
	}
	if err := w.Flush(); err != nil {
		return err
	}

	// ---- stream sched: the instrumented real code under explored schedules ----
	if err := c06Sched(c, r); err != nil {
		return err
	}

	// ---- stream stress: real goroutines, concurrent Observe and Write ----
	if err := c06Stress(c, r); err != nil {
		return err
	}

	// ---- known finding (runs last: the hung goroutine keeps spinning until the process exits) ----
	return c06KnownZero(c)
}

// Concurrent observers and collectors on a fixed (or concurrently advancing) clock. Values are dyadic
// and small, so the float sum is exact in every order. Every intermediate collection must report a count
// between the observations finished before it started and those started before it ended, and the final
// one must report everything. With a fixed clock the final Write is also a model case (all observations
// are in the window; the rank check does not depend on the order).
func c06Stress(c *cli.Ctx, r *emit.Rng) error {
	w := emit.NewWriter(c.Out, "C06", "stress")
	var fails []map[string]interface{}
	for i := 0; i < 30*c.Scale; i++ {
		o, dtag := c06Config(r)
		if r.Chance(1, 2) {
			o.bufCap = uint32(1 + r.Intn(8)) // many flushes
		}
		d, n, _ := o.eff()
		t0 := c06T0(r)
		clk := &c06Clock{ns: t0}
		s, kind := c06New(o, clk)
		if kind != 4 {
			return fmt.Errorf("stress: unexpected construction result %d", kind)
		}
		moving := r.Chance(1, 3)
		G := 2 + r.Intn(6)
		per := 20 + r.Intn(200)
		vals := make([][]float64, G)
		for g := range vals {
			vals[g] = make([]float64, per)
			for j := range vals[g] {
				vals[g][j] = float64(r.Intn(2048)) / 8
			}
		}
		var started, finished int64
		var wg sync.WaitGroup
		done := make(chan struct{})
		for g := 0; g < G; g++ {
			wg.Add(1)
			go func(vs []float64) {
				defer wg.Done()
				for _, v := range vs {
					atomic.AddInt64(&started, 1)
					s.Observe(v)
					atomic.AddInt64(&finished, 1)
				}
			}(vals[g])
		}
		var cwg sync.WaitGroup
		var bad atomic.Value
		for k := 0; k < 2; k++ {
			cwg.Add(1)
			go func() {
				defer cwg.Done()
				var last uint64
				for {
					select {
					case <-done:
						return
					default:
					}
					lo := atomic.LoadInt64(&finished)
					x := c06Collect(s)
					hi := atomic.LoadInt64(&started)
					if int64(x.count) < lo || int64(x.count) > hi || x.count < last {
						bad.Store(fmt.Sprintf("collection reported count %d outside [%d,%d] or below the previous %d", x.count, lo, hi, last))
					}
					last = x.count
				}
			}()
		}
		if moving {
			cwg.Add(1)
			go func(seed uint64) {
				defer cwg.Done()
				rr := emit.NewRng(seed)
				for {
					select {
					case <-done:
						return
					default:
					}
					atomic.AddInt64(&clk.ns, int64(rr.Intn(int(2*d)+1)))
					time.Sleep(20 * time.Microsecond)
				}
			}(r.U64())
		}
		finishedAll := make(chan struct{})
		go func() { wg.Wait(); close(finishedAll) }()
		hung := false
		select {
		case <-finishedAll:
		case <-time.After(60 * time.Second):
			hung = true
		}
		close(done)
		if hung {
			fails = append(fails, map[string]interface{}{"index": w.Len(), "what": "concurrent Observe/Write did not finish within 60 s (deadlock?)"})
			break
		}
		cwg.Wait()
		final := c06Collect(s)
		total := G * per
		sum := 0.0
		var ops []c06Op
		for g := range vals {
			for _, v := range vals[g] {
				sum += v
				ops = append(ops, c06Op{kind: 0, v: v})
			}
		}
		ops = append(ops, c06Op{kind: 2})
		if b := bad.Load(); b != nil {
			fails = append(fails, map[string]interface{}{"index": w.Len(), "what": b.(string)})
		}
		if final.count != uint64(total) || final.sum != sum {
			fails = append(fails, map[string]interface{}{"index": w.Len(),
				"what": fmt.Sprintf("lost observation: %d goroutines x %d observations, final count %d (want %d), sum %v (want %v)", G, per, final.count, total, final.sum, sum)})
		}
		tags := []string{dtag, fmt.Sprintf("goroutines:%d", G), fmt.Sprintf("buckets:%d", n)}
		if moving {
			// window contents depend on the interleaving with the clock: only count and sum are comparable;
			// emitted with an empty objective observation list is not possible, so keep it driver-checked
			w.Tag("clock:moving(driver-checked)", 1)
			continue
		}
		tags = append(tags, "clock:fixed")
		w.Add(emit.Tup(o.term(), emit.Z(t0), opsTerm(ops), writesTerm([]c06Write{final})), true, tags...)
	}
	if len(fails) > 0 {
		w.Extra["direct_failures"] = fails
	}
	return w.Flush()
}

// known finding stream-duration-zero: MaxAge < AgeBuckets ns gives streamDuration 0; once the clock has
// advanced, swapBufs never terminates.  The real Observe runs in a goroutine under a 2 s watchdog.
func c06KnownZero(c *cli.Ctx) error {
	w := emit.NewWriter(c.Out, "C06", "known-stream-duration-zero")
	o := c06Opts{objs: [][2]float64{{0.5, 0.05}}, maxAge: 1, ageBuckets: 5}
	ops := []c06Op{{kind: 1, dt: 1}, {kind: 0, v: 1}, {kind: 2}}
	clk := &c06Clock{ns: 0}
	s, kind := c06New(o, clk)
	if kind != 4 {
		return fmt.Errorf("known-stream-duration-zero: unexpected construction result %d", kind)
	}
	atomic.AddInt64(&clk.ns, 1)
	ret := make(chan struct{})
	go func() { s.Observe(1); close(ret) }()
	impl := emit.C(2)
	select {
	case <-ret:
		impl = writesTerm([]c06Write{c06Collect(s)})
		w.Tag("returned", 1)
	case <-time.After(2 * time.Second):
		w.Tag("hung", 1)
	}
	w.Add(emit.Tup(o.term(), emit.Z(0), opsTerm(ops), impl), false, "known:stream-duration-zero")
	return w.Flush()
}

// ---------- schedule exploration (binary built with overlay_sched.json) ----------
// summary.go is instrumented at check time: every Mutex.Lock / Mutex.Unlock is a schedule point and the
// `go` statement of asyncFlush creates a managed thread whose first step is "go-start". Small programs
// (2-3 threads x 1-3 calls, BufCap 1-3 so that the full-buffer path runs, a clock that advances with the
// scheduler's step counter so that the expiry path runs) are explored depth-first (exhaustively when the
// tree has at most 120 schedules) plus seeded random schedules; every run emits the schedule, the canonical
// per-step labels, and every call's result and logical invocation/response times.
type c06SOp struct {
	write bool
	v     float64
}

type c06Rec struct {
	tid, idx int
	ret      string
	inv, res int64
}

func c06SchedProgs(r *emit.Rng) [][]c06SOp {
	nthreads := 2 + r.Intn(2)
	maxOps := 3
	if nthreads == 3 {
		maxOps = 2
	}
	progs := make([][]c06SOp, nthreads)
	next := 0
	for t := range progs {
		n := 1 + r.Intn(maxOps)
		for i := 0; i < n; i++ {
			if r.Chance(1, 3) {
				progs[t] = append(progs[t], c06SOp{write: true})
			} else {
				progs[t] = append(progs[t], c06SOp{v: math.Ldexp(1, next)}) // distinct powers of two identify the observation
				next++
			}
		}
	}
	// at least one collector and one observer
	progs[0][len(progs[0])-1] = c06SOp{write: true}
	if progs[1][0].write {
		progs[1][0] = c06SOp{v: math.Ldexp(1, next)}
	}
	return progs
}

func c06Sched(c *cli.Ctx, r *emit.Rng) error {
	w := emit.NewWriter(c.Out, "C06", "sched")
	schedules, programs, exhaustive, withFlusher, withExpiry := 0, 0, 0, 0, 0
	budget := 2400 * c.Scale
	for schedules < budget {
		progs := c06SchedProgs(r)
		o := c06Opts{objs: c06Objs(r)}
		if len(o.objs) > 2 {
			o.objs = o.objs[:2]
		}
		n := int64(1 + r.Intn(3))
		o.ageBuckets = uint32(n)
		d := []int64{1, 2, 3, 7, 1000}[r.Intn(5)]
		o.maxAge = d*n + int64(r.Intn(int(n)))
		o.bufCap = uint32(1 + r.Intn(3))
		if r.Chance(1, 6) {
			o.bufCap = 5
		}
		rate := int64(r.Intn(3))
		t0 := c06T0(r)
		programs++
		var recs [][]c06Rec
		mk := func() []func() {
			clk := func() time.Time {
				if vsched.Active() {
					return time.Unix(0, t0+rate*vsched.Now())
				}
				return time.Unix(0, t0)
			}
			var objs map[float64]float64
			objs = map[float64]float64{}
			for _, p := range o.objs {
				objs[p[0]] = p[1]
			}
			s := prometheus.VerifC06NewSummary(prometheus.SummaryOpts{Name: "s", Help: "h", Objectives: objs,
				MaxAge: time.Duration(o.maxAge), AgeBuckets: o.ageBuckets, BufCap: o.bufCap}, clk, nil, nil)
			recs = make([][]c06Rec, len(progs))
			bodies := make([]func(), len(progs))
			for ti := range progs {
				ti := ti
				bodies[ti] = func() {
					for i, op := range progs[ti] {
						inv := vsched.Now()
						var ret string
						if op.write {
							x := c06Collect(s)
							qs := make([]string, len(x.qs))
							for j, q := range x.qs {
								v := q.v
								if q.isNaN {
									v = math.NaN()
								}
								qs[j] = emit.Tup(emit.F(q.q), emit.B(q.isNaN), emit.F(v))
							}
							ret = emit.C(1, emit.Tup(emit.U(x.count), emit.F(x.sum), emit.L(qs)))
						} else {
							s.Observe(op.v)
							ret = emit.C(0)
						}
						recs[ti] = append(recs[ti], c06Rec{tid: ti, idx: i, ret: ret, inv: inv, res: vsched.Now()})
					}
				}
			}
			return bodies
		}
		ps := make([]string, len(progs))
		for i, p := range progs {
			os := make([]string, len(p))
			for j, op := range p {
				if op.write {
					os[j] = emit.C(1)
				} else {
					os[j] = emit.C(0, emit.F(op.v))
				}
			}
			ps[i] = emit.L(os)
		}
		progsSx := emit.L(ps)
		visit := func(res vsched.Result) {
			var all []string
			for _, rr := range recs {
				for _, x := range rr {
					all = append(all, emit.Tup(emit.I(x.tid), emit.I(x.idx), x.ret, emit.Z(x.inv), emit.Z(x.res)))
				}
			}
			sched, tr := schedx.TraceSx(res.Trace, true)
			tags := []string{fmt.Sprintf("threads:%d", len(progs)), fmt.Sprintf("bufcap:%d", o.bufCap), fmt.Sprintf("clock-rate:%d", rate)}
			fl, ex := false, false
			for _, st := range res.Trace {
				if st.Label == "go-start" {
					fl = true
				}
			}
			if fl {
				tags = append(tags, "flusher-goroutine-ran")
				withFlusher++
			}
			if rate > 0 && int64(len(res.Trace))*rate > d {
				ex = true
				tags = append(tags, "clock-passes-expiry")
				withExpiry++
			}
			_ = ex
			w.Add(emit.Tup(emit.I(7), o.term(), emit.Z(t0), emit.Z(rate), progsSx, sched, tr, emit.L(all), emit.I(schedx.Flags(res))),
				len(res.Trace) >= 8, tags...)
		}
		nruns, complete := schedx.Explore(mk, 120, 4000, visit)
		schedules += nruns
		if complete {
			exhaustive++
		}
		for k := 0; k < 15; k++ {
			visit(schedx.Random(mk, r, 4000))
			schedules++
		}
	}
	w.Extra["programs"] = programs
	w.Extra["programs_explored_exhaustively"] = exhaustive
	w.Extra["schedules"] = schedules
	w.Extra["schedules_with_flusher_goroutine"] = withFlusher
	w.Extra["schedules_where_clock_passes_expiry"] = withExpiry
	return w.Flush()
}
