// Command mutate enumerates and applies small syntactic mutations of a Go source file (mutation testing of the
// verification machinery, DESIGN 13.5). It never writes to the repository: the mutated file goes to -out.
//
//	mutate -file F -lo A -hi B -list            prints one JSON site per line
//	mutate -file F -lo A -hi B -site K -out O   writes F with site K mutated to O
package main

import (
	"bytes"
	"encoding/json"
	"flag"
	"fmt"
	"go/ast"
	"go/format"
	"go/parser"
	"go/token"
	"os"
	"strconv"
)

type site struct {
	ID   int    `json:"id"`
	Line int    `json:"line"`
	Kind string `json:"kind"`
	Desc string `json:"desc"`
	do   func()
}

var swaps = map[token.Token]token.Token{
	token.LSS: token.LEQ, token.LEQ: token.LSS, token.GTR: token.GEQ, token.GEQ: token.GTR,
	token.EQL: token.NEQ, token.NEQ: token.EQL, token.ADD: token.SUB, token.SUB: token.ADD,
	token.LAND: token.LOR, token.LOR: token.LAND, token.MUL: token.QUO, token.SHL: token.SHR, token.SHR: token.SHL,
}
var asgSwaps = map[token.Token]token.Token{token.ADD_ASSIGN: token.SUB_ASSIGN, token.SUB_ASSIGN: token.ADD_ASSIGN}

func main() {
	file := flag.String("file", "", "go file")
	lo := flag.Int("lo", 1, "first line")
	hi := flag.Int("hi", 1<<30, "last line")
	list := flag.Bool("list", false, "list sites")
	pick := flag.Int("site", -1, "site to mutate")
	out := flag.String("out", "", "output file")
	flag.Parse()
	fset := token.NewFileSet()
	f, err := parser.ParseFile(fset, *file, nil, parser.ParseComments)
	if err != nil {
		fmt.Fprintln(os.Stderr, err)
		os.Exit(2)
	}
	var sites []*site
	add := func(pos token.Pos, kind, desc string, do func()) {
		line := fset.Position(pos).Line
		if line < *lo || line > *hi {
			return
		}
		sites = append(sites, &site{ID: len(sites), Line: line, Kind: kind, Desc: desc, do: do})
	}
	isCmp := func(e ast.Expr) bool {
		b, ok := e.(*ast.BinaryExpr)
		if !ok {
			return false
		}
		switch b.Op {
		case token.LSS, token.LEQ, token.GTR, token.GEQ, token.EQL, token.NEQ, token.LAND, token.LOR:
			return true
		}
		return false
	}
	var blockStack []*ast.BlockStmt
	ast.Inspect(f, func(n ast.Node) bool {
		switch x := n.(type) {
		case *ast.BinaryExpr:
			if to, ok := swaps[x.Op]; ok {
				from := x.Op
				add(x.OpPos, "binop", fmt.Sprintf("%s -> %s", from, to), func() { x.Op = to })
			}
		case *ast.IncDecStmt:
			from := x.Tok
			to := token.DEC
			if from == token.DEC {
				to = token.INC
			}
			add(x.TokPos, "incdec", fmt.Sprintf("%s -> %s", from, to), func() { x.Tok = to })
		case *ast.AssignStmt:
			if to, ok := asgSwaps[x.Tok]; ok {
				from := x.Tok
				add(x.TokPos, "assignop", fmt.Sprintf("%s -> %s", from, to), func() { x.Tok = to })
			}
		case *ast.IfStmt:
			if !isCmp(x.Cond) {
				add(x.Cond.Pos(), "negate-if", "if c -> if !(c)", func() {
					if u, ok := x.Cond.(*ast.UnaryExpr); ok && u.Op == token.NOT {
						x.Cond = u.X
					} else {
						x.Cond = &ast.UnaryExpr{Op: token.NOT, X: &ast.ParenExpr{X: x.Cond}}
					}
				})
			}
		case *ast.BasicLit:
			if x.Kind == token.INT {
				if v, err := strconv.ParseInt(x.Value, 0, 64); err == nil && v >= 0 && v < 1<<31 {
					old := x.Value
					add(x.ValuePos, "intlit", fmt.Sprintf("%s -> %d", old, v+1), func() { x.Value = strconv.FormatInt(v+1, 10) })
				}
			}
		case *ast.Ident:
			if x.Name == "true" || x.Name == "false" {
				to := "false"
				if x.Name == "false" {
					to = "true"
				}
				from := x.Name
				add(x.NamePos, "boollit", from+" -> "+to, func() { x.Name = to })
			}
		case *ast.ReturnStmt:
			for i, r := range x.Results {
				if id, ok := r.(*ast.Ident); ok && id.Name == "err" {
					i := i
					add(r.Pos(), "drop-err", "return ... err -> nil", func() { x.Results[i] = ast.NewIdent("nil") })
				}
			}
		case *ast.BlockStmt:
			blockStack = append(blockStack, x)
			for i, s := range x.List {
				i := i
				switch st := s.(type) {
				case *ast.ExprStmt:
					if _, ok := st.X.(*ast.CallExpr); ok {
						add(st.Pos(), "del-call", "delete call statement", func() { x.List[i] = &ast.EmptyStmt{Semicolon: st.Pos(), Implicit: false} })
					}
				case *ast.DeferStmt:
					add(st.Pos(), "del-defer", "delete defer statement", func() { x.List[i] = &ast.EmptyStmt{Semicolon: st.Pos()} })
				case *ast.AssignStmt:
					if st.Tok == token.ASSIGN || st.Tok == token.ADD_ASSIGN || st.Tok == token.SUB_ASSIGN {
						add(st.Pos(), "del-assign", "delete assignment", func() { x.List[i] = &ast.EmptyStmt{Semicolon: st.Pos()} })
					}
				case *ast.BranchStmt:
					if st.Tok == token.BREAK || st.Tok == token.CONTINUE {
						to := token.CONTINUE
						if st.Tok == token.CONTINUE {
							to = token.BREAK
						}
						from := st.Tok
						add(st.Pos(), "branch", fmt.Sprintf("%s -> %s", from, to), func() { st.Tok = to })
					}
				}
			}
		}
		return true
	})
	if *list {
		enc := json.NewEncoder(os.Stdout)
		for _, s := range sites {
			enc.Encode(s)
		}
		return
	}
	if *pick < 0 || *pick >= len(sites) || *out == "" {
		fmt.Fprintln(os.Stderr, "mutate: -site out of range or -out missing")
		os.Exit(2)
	}
	sites[*pick].do()
	var buf bytes.Buffer
	if err := format.Node(&buf, fset, f); err != nil {
		fmt.Fprintln(os.Stderr, err)
		os.Exit(2)
	}
	if err := os.WriteFile(*out, buf.Bytes(), 0o644); err != nil {
		fmt.Fprintln(os.Stderr, err)
		os.Exit(2)
	}
}
