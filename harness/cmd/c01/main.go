package main

// C01: counter and gauge updates are atomic. Built with overlay_sched.json: counter.go and gauge.go are
// replaced by instrumented copies whose sync/atomic calls are schedule points of package vsched.

import (
	"fmt"
	"math"
	"runtime"
	"sync"
	"sync/atomic"
	"time"

	"github.com/prometheus/client_golang/prometheus"
	"github.com/prometheus/client_golang/prometheus/vsched"
	dto "github.com/prometheus/client_model/go"

	"verifharness/internal/cli"
	"verifharness/internal/emit"
	"verifharness/internal/schedx"
)

func main() { cli.Main("C01", runC01) }

type op struct {
	kind int
	v    float64
}

type callRec struct {
	tid, idx int
	ret      string
	inv, res int64
}

// gauge ops: 0 Set v, 1 Add v, 2 Sub v, 3 Inc, 4 Dec, 5 Write ; counter ops: 0 Inc, 1 Add v, 2 Write,
// 3/4 Add v through the AddWithExemplar entry point, with / without exemplar labels (the model's Add: same
// accumulator steps, same panic rule)
func opSx(gauge bool, o op) string {
	if gauge {
		switch o.kind {
		case 0, 1, 2:
			return emit.C(o.kind, emit.F(o.v))
		default:
			return emit.C(o.kind)
		}
	}
	if o.kind == 1 || o.kind == 3 || o.kind == 4 {
		return emit.C(1, emit.F(o.v))
	}
	return emit.C(o.kind)
}

func gaugeVal(g prometheus.Gauge) float64 {
	var m dto.Metric
	g.Write(&m)
	return m.Gauge.GetValue()
}
func counterVal(c prometheus.Counter) float64 {
	var m dto.Metric
	c.Write(&m)
	return m.Counter.GetValue()
}

// runs one op on the object and returns the result term
func doOp(gauge bool, g prometheus.Gauge, c prometheus.Counter, o op) (ret string) {
	defer func() {
		if e := recover(); e != nil {
			ret = emit.C(1)
		}
	}()
	if gauge {
		switch o.kind {
		case 0:
			g.Set(o.v)
		case 1:
			g.Add(o.v)
		case 2:
			g.Sub(o.v)
		case 3:
			g.Inc()
		case 4:
			g.Dec()
		case 5:
			return emit.C(2, emit.F(gaugeVal(g)))
		}
		return emit.C(0)
	}
	switch o.kind {
	case 0:
		c.Inc()
	case 1:
		c.Add(o.v)
	case 2:
		return emit.C(2, emit.F(counterVal(c)))
	case 3:
		c.(prometheus.ExemplarAdder).AddWithExemplar(o.v, prometheus.Labels{"trace": "t"})
	case 4: // nil exemplar labels are legal: only the value is added
		c.(prometheus.ExemplarAdder).AddWithExemplar(o.v, nil)
	}
	return emit.C(0)
}

type runOut struct {
	res   vsched.Result
	calls []callRec
}

// one run of the programs under the scheduler with the given pick function
func runOnce(gauge bool, progs [][]op, pick func(ids []int, labels []string) int) runOut {
	var g prometheus.Gauge
	var c prometheus.Counter
	if gauge {
		g = prometheus.NewGauge(prometheus.GaugeOpts{Name: "g"})
	} else {
		c = prometheus.NewCounter(prometheus.CounterOpts{Name: "c"})
	}
	recs := make([][]callRec, len(progs))
	bodies := make([]func(), len(progs))
	for t := range progs {
		t := t
		bodies[t] = func() {
			for i, o := range progs[t] {
				inv := vsched.Now()
				r := doOp(gauge, g, c, o)
				recs[t] = append(recs[t], callRec{tid: t, idx: i, ret: r, inv: inv, res: vsched.Now()})
			}
		}
	}
	res := vsched.Run(bodies, pick, 10000)
	var all []callRec
	for _, r := range recs {
		all = append(all, r...)
	}
	return runOut{res: res, calls: all}
}

func caseSx(gauge bool, progs [][]op, out runOut) string {
	kind := 1
	if gauge {
		kind = 0
	}
	ps := make([]string, len(progs))
	for i, p := range progs {
		os := make([]string, len(p))
		for j, o := range p {
			os[j] = opSx(gauge, o)
		}
		ps[i] = emit.L(os)
	}
	sched := make([]string, len(out.res.Trace))
	tr := make([]string, len(out.res.Trace))
	for i, s := range out.res.Trace {
		sched[i] = emit.I(s.Tid)
		tr[i] = emit.Pair(emit.I(s.Tid), emit.S(schedx.Canon(s.Label))) // "<op> <field>": receiver/local renames do not matter
	}
	cs := make([]string, len(out.calls))
	for i, c := range out.calls {
		cs[i] = emit.Tup(emit.I(c.tid), emit.I(c.idx), c.ret, emit.Z(c.inv), emit.Z(c.res))
	}
	flags := 0
	if out.res.Deadlock {
		flags |= 1
	}
	if out.res.StepLimit {
		flags |= 2
	}
	if len(out.res.Panics) > 0 {
		flags |= 4
	}
	return emit.Tup(emit.I(kind), emit.L(ps), emit.L(sched), emit.L(tr), emit.L(cs), emit.I(flags))
}

// exhaustive DFS over schedules (stateless: re-run with a forced prefix), up to maxRuns
func explore(gauge bool, progs [][]op, maxRuns int, emitCase func(runOut)) (runs int, complete bool) {
	var prefix []int // forced choice indexes
	for {
		var width []int
		step := 0
		pick := func(ids []int, labels []string) int {
			k := 0
			if step < len(prefix) {
				k = prefix[step]
			}
			width = append(width, len(ids))
			step++
			return k
		}
		out := runOnce(gauge, progs, pick)
		emitCase(out)
		runs++
		// next prefix: increment the last position that still has an alternative
		choice := make([]int, len(width))
		copy(choice, prefix)
		i := len(width) - 1
		for ; i >= 0; i-- {
			if choice[i]+1 < width[i] {
				break
			}
		}
		if i < 0 {
			return runs, true
		}
		if runs >= maxRuns {
			return runs, false
		}
		prefix = append(choice[:i:i], choice[i]+1)
	}
}

// capBig keeps the running integer total of a counter program below 2^64 (the property's quantifier): at most one
// amount of 2^61 or more per program; further ones are replaced by 1.
func capBig(progs [][]op) {
	seen := false
	for t := range progs {
		for i := range progs[t] {
			if progs[t][i].v >= math.Ldexp(1, 61) && !math.IsInf(progs[t][i].v, 0) {
				if seen {
					progs[t][i].v = 1
				}
				seen = true
			}
		}
	}
}

var grid = []float64{0.5, 0.25, 1.5, 2.75, 0.125, 3.5, 1, 2, 4, 1024, 0.0625}

func genOp(r *emit.Rng, gauge bool) op {
	if gauge {
		switch r.Intn(10) {
		case 0, 1:
			vals := []float64{0, 1, -2.5, 7, 100.5, math.Inf(1), math.NaN(), 1e300, -0.0, 3}
			if is386 {
				// which NaN bit pattern an addition returns is platform-specific (amd64 propagates the operand's
				// payload, 386 returns the canonical NaN); the model's is amd64's, and a CAS retry depends on the bits
				vals[6] = -7.25
			}
			return op{kind: 0, v: vals[r.Intn(len(vals))]}
		case 2, 3:
			if r.Chance(1, 6) && !is386 { // infinite and NaN amounts: the gauge holds the IEEE sum (Inf + -Inf = NaN), nothing saturates
				return op{kind: 1, v: []float64{math.Inf(1), math.Inf(-1), math.NaN(), -1e300, 1e308}[r.Intn(5)]}
			}
			return op{kind: 1, v: grid[r.Intn(len(grid))]}
		case 4:
			if r.Chance(1, 6) && !is386 {
				return op{kind: 2, v: []float64{math.Inf(1), math.Inf(-1), math.NaN(), -1e308}[r.Intn(4)]}
			}
			return op{kind: 2, v: grid[r.Intn(len(grid))]}
		case 5:
			return op{kind: 3}
		case 6:
			return op{kind: 4}
		default:
			return op{kind: 5}
		}
	}
	add := 1
	if r.Chance(1, 4) {
		add = 3 + r.Intn(2) // the same amount through AddWithExemplar (with labels / with nil labels)
	}
	switch r.Intn(10) {
	case 0, 1:
		return op{kind: 0}
	case 2:
		return op{kind: add, v: grid[r.Intn(len(grid))]}
	case 3: // fractional amounts that often add up to a whole number
		return op{kind: add, v: []float64{0.5, 0.5, 1.5, 0.25, 0.75}[r.Intn(5)]}
	case 4:
		return op{kind: add, v: float64(1 + r.Intn(1000))}
	case 5:
		vals := []float64{-1, -0.5, -1e-10, -5e-324, math.Copysign(0, -1), 0, math.Ldexp(1, 53), math.Ldexp(1, 63), math.Ldexp(1, 62), 0.1, 1e-300, math.Ldexp(1, 64)}
		if is386 {
			vals = vals[:len(vals)-1] // out-of-range float->uint64 conversion is platform-specific (the model's is amd64's)
		}
		return op{kind: add, v: vals[r.Intn(len(vals))]}
	default:
		return op{kind: 2}
	}
}

// The same driver is also built for GOARCH=386 (streams *-386): 64-bit atomic operations need 8-byte alignment there,
// which the struct layouts of counter.go and gauge.go have to guarantee (a misaligned field panics in sync/atomic).
var is386 = runtime.GOARCH == "386"

func streamName(n string) string {
	if is386 {
		return n + "-386"
	}
	return n
}

func runC01(c *cli.Ctx) error {
	r := emit.NewRng(c.Seed)
	for _, gauge := range []bool{true, false} {
		name := "counter-sched"
		if gauge {
			name = "gauge-sched"
		}
		w := emit.NewWriter(c.Out, "C01", streamName(name))
		schedules, programs, exhaustive := 0, 0, 0
		budget := 1500 * c.Scale
		if is386 {
			budget = 300 * c.Scale
		}
		for schedules < budget {
			nthreads := 2 + r.Intn(2)
			progs := make([][]op, nthreads)
			total := 0
			for t := range progs {
				n := 1 + r.Intn(2)
				if nthreads == 2 {
					n = 1 + r.Intn(3)
				}
				for i := 0; i < n; i++ {
					progs[t] = append(progs[t], genOp(r, gauge))
				}
				total += n
			}
			// make sure at least one reader and one CAS-path writer are present in most programs
			if r.Chance(3, 4) {
				if gauge {
					progs[0][len(progs[0])-1] = op{kind: 5}
					progs[1][0] = op{kind: 1, v: grid[r.Intn(len(grid))]}
				} else {
					progs[0][len(progs[0])-1] = op{kind: 2}
					progs[1][0] = op{kind: 1, v: grid[r.Intn(len(grid))]}
					if r.Chance(1, 2) && len(progs[1]) > 1 { // two fractions that add up to a whole number, raced by a reader
						progs[1][0] = op{kind: 1, v: 0.5}
						progs[1][1] = op{kind: 1, v: []float64{0.5, 1.5}[r.Intn(2)]}
					} else if r.Chance(1, 2) && len(progs[1]) > 1 {
						// a negative amount (must panic, whatever was accumulated before), also one that is smaller than
						// half an ulp of the fractional accumulator
						progs[1][0] = op{kind: 1, v: []float64{1235.5678, 0.5, 1e15 + 0.5}[r.Intn(3)]}
						progs[1][1] = op{kind: []int{1, 3, 4}[r.Intn(3)], v: []float64{-1e-14, -1e-18, -5e-324, -1e-10, -0.5, -1, math.Inf(-1)}[r.Intn(7)]}
					}
				}
			}
			capBig(progs)
			programs++
			n, complete := explore(gauge, progs, 120, func(out runOut) {
				nontrivial := len(out.res.Trace) >= 4
				tags := []string{fmt.Sprintf("threads:%d", nthreads)}
				retry := 0
				for i, s := range out.res.Trace {
					if i > 0 && len(s.Label) > 4 && s.Label[:4] == "Load" {
						for j := i - 1; j >= 0; j-- {
							if out.res.Trace[j].Tid == s.Tid {
								if len(out.res.Trace[j].Label) > 7 && out.res.Trace[j].Label[:7] == "Compare" {
									retry++
								}
								break
							}
						}
					}
				}
				if retry > 0 {
					tags = append(tags, "has-failed-cas-retry")
				}
				w.Add(caseSx(gauge, progs, out), nontrivial, tags...)
			})
			schedules += n
			if complete {
				exhaustive++
			}
		}
		w.Extra["programs"] = programs
		w.Extra["programs_explored_exhaustively"] = exhaustive
		w.Extra["schedules"] = schedules
		if err := w.Flush(); err != nil {
			return err
		}
	}
	// ---- stress: real goroutines (scheduler inactive => wrappers are pass-throughs), logical clock
	for _, gauge := range []bool{true, false} {
		name := "counter-stress"
		if gauge {
			name = "gauge-stress"
		}
		w := emit.NewWriter(c.Out, "C01", streamName(name))
		nstress := 60 * c.Scale
		if is386 {
			nstress = 15 * c.Scale
		}
		for it := 0; it < nstress; it++ {
			nthreads := 3 + r.Intn(2)
			progs := make([][]op, nthreads)
			for t := range progs {
				for i := 0; i < 2; i++ {
					progs[t] = append(progs[t], genOp(r, gauge))
				}
			}
			capBig(progs)
			var g prometheus.Gauge
			var cn prometheus.Counter
			if gauge {
				g = prometheus.NewGauge(prometheus.GaugeOpts{Name: "g"})
			} else {
				cn = prometheus.NewCounter(prometheus.CounterOpts{Name: "c"})
			}
			var clock int64
			recs := make([][]callRec, nthreads)
			var wg sync.WaitGroup
			start := make(chan struct{})
			for t := range progs {
				t := t
				wg.Add(1)
				go func() {
					defer wg.Done()
					<-start
					for i, o := range progs[t] {
						inv := atomic.AddInt64(&clock, 1)
						ret := doOp(gauge, g, cn, o)
						res := atomic.AddInt64(&clock, 1)
						recs[t] = append(recs[t], callRec{tid: t, idx: i, ret: ret, inv: inv, res: res})
					}
				}()
			}
			close(start)
			wg.Wait()
			var all []callRec
			for _, rr := range recs {
				all = append(all, rr...)
			}
			// kind 2/3: history only (no schedule): gauge / counter
			kind := 3
			if gauge {
				kind = 2
			}
			ps := make([]string, len(progs))
			for i, p := range progs {
				os := make([]string, len(p))
				for j, o := range p {
					os[j] = opSx(gauge, o)
				}
				ps[i] = emit.L(os)
			}
			cs := make([]string, len(all))
			for i, cr := range all {
				cs[i] = emit.Tup(emit.I(cr.tid), emit.I(cr.idx), cr.ret, emit.Z(cr.inv), emit.Z(cr.res))
			}
			w.Add(emit.Tup(emit.I(kind), emit.L(ps), emit.L(nil), emit.L(nil), emit.L(cs), emit.I(0)), true, fmt.Sprintf("threads:%d", nthreads))
		}
		if gauge {
			// SetToCurrentTime is a Set of a clock reading taken during the call (seconds, with its sub-second part)
			bad := 0
			g := prometheus.NewGauge(prometheus.GaugeOpts{Name: "t"})
			for i := 0; i < 20; i++ {
				before := float64(time.Now().UnixNano()) / 1e9
				g.SetToCurrentTime()
				after := float64(time.Now().UnixNano()) / 1e9
				if v := gaugeVal(g); v < before-1e-6 || v > after+1e-6 {
					bad++
				}
				time.Sleep(time.Duration(1+i) * 7 * time.Millisecond)
			}
			if bad > 0 {
				w.Extra["direct_failures"] = []map[string]interface{}{{"index": -1, "what": fmt.Sprintf("%d of 20 SetToCurrentTime calls exposed a value that is no clock reading taken during the call", bad)}}
			}
		}
		if !gauge {
			// A rejected AddWithExemplar (negative amount: documented panic) has no effect at all: neither the value nor
			// the exemplar of the last accepted increment changes.
			bad, what := 0, ""
			for i := 0; i < 20; i++ {
				c := prometheus.NewCounter(prometheus.CounterOpts{Name: "e"})
				ea := c.(prometheus.ExemplarAdder)
				if i%2 == 0 {
					ea.AddWithExemplar(float64(1+i), prometheus.Labels{"trace": "accepted"})
				}
				var before, after dto.Metric
				c.Write(&before)
				func() {
					defer func() { recover() }()
					if i%4 < 2 {
						ea.AddWithExemplar(-float64(1+i%3), prometheus.Labels{"trace": "rejected"})
					} else {
						ea.AddWithExemplar(-0.5, nil)
					}
				}()
				c.Write(&after)
				if before.String() != after.String() {
					bad++
					what = fmt.Sprintf("before %s, after %s", before.String(), after.String())
				}
			}
			if bad > 0 {
				w.Extra["direct_failures"] = []map[string]interface{}{{"index": -1, "what": fmt.Sprintf("%d of 20 rejected AddWithExemplar calls (negative amount) changed what the counter exposes: %s", bad, what)}}
			}
		}
		{
			// A collected sample belongs to the caller: collecting again into the same dto.Metric (or collecting another
			// metric into it) must not rewrite a sample taken earlier.
			bad, what := 0, ""
			var m dto.Metric
			if gauge {
				g := prometheus.NewGauge(prometheus.GaugeOpts{Name: "keep_g"})
				g.Set(1)
				g.Write(&m)
				first := m.GetGauge()
				g.Set(2)
				g.Write(&m)
				if first.GetValue() != 1 || m.GetGauge().GetValue() != 2 {
					bad++
					what = fmt.Sprintf("gauge sample collected before Set(2) now reads %v (want 1), the new one %v (want 2)", first.GetValue(), m.GetGauge().GetValue())
				}
			} else {
				a := prometheus.NewCounter(prometheus.CounterOpts{Name: "keep_a"})
				b := prometheus.NewCounter(prometheus.CounterOpts{Name: "keep_b"})
				a.Add(5)
				b.Add(100)
				a.Write(&m)
				first := m.GetCounter()
				a.Inc()
				a.Write(&m)
				second := m.GetCounter()
				b.Write(&m)
				if first.GetValue() != 5 || second.GetValue() != 6 || m.GetCounter().GetValue() != 100 {
					bad++
					what = fmt.Sprintf("counter samples collected into one dto.Metric read %v, %v, %v (want 5, 6, 100)", first.GetValue(), second.GetValue(), m.GetCounter().GetValue())
				}
			}
			if bad > 0 {
				if _, dup := w.Extra["direct_failures"]; !dup {
					w.Extra["direct_failures"] = []map[string]interface{}{{"index": -1, "what": "a later collection rewrote an earlier collected sample: " + what}}
				}
			}
		}
		if err := w.Flush(); err != nil {
			return err
		}
	}
	return nil
}
