package main

// C01 (32-bit alignment smoke test): built for GOARCH=386 WITHOUT the scheduler instrumentation (which replaces
// sync.Mutex etc. and thereby changes struct layouts), so that the struct layouts are the production ones.

import (
	"fmt"

	"github.com/prometheus/client_golang/prometheus"
	dto "github.com/prometheus/client_model/go"

	"verifharness/internal/cli"
	"verifharness/internal/emit"
)

func main() { cli.Main("C01", align386) }

// align386: on a 32-bit build every metric type that uses 64-bit atomics must keep them 8-byte aligned (a misaligned
// field panics inside sync/atomic). Counter and gauge are covered by the streams below; this smoke run covers the
// other types (C02/C06's histograms and summaries) on the same 386 binary.
func align386(c *cli.Ctx) error {
	w := emit.NewWriter(c.Out, "C01", "align-386")
	w.Extra["no_model"] = true
	var failures []map[string]interface{}
	try := func(what string, f func()) {
		defer func() {
			if e := recover(); e != nil {
				failures = append(failures, map[string]interface{}{"index": -1, "what": fmt.Sprintf("GOARCH=386: %s panicked: %v", what, e)})
			}
		}()
		f()
	}
	var m dto.Metric
	try("classic histogram", func() {
		h := prometheus.NewHistogram(prometheus.HistogramOpts{Name: "h", Buckets: []float64{1, 2}})
		h.Observe(1.5)
		h.Write(&m)
	})
	try("native histogram", func() {
		h := prometheus.NewHistogram(prometheus.HistogramOpts{Name: "h", NativeHistogramBucketFactor: 1.1, NativeHistogramMaxBucketNumber: 2})
		for _, v := range []float64{1, 10, 100, 1000} {
			h.Observe(v)
		}
		h.Write(&m)
	})
	try("summary without objectives", func() {
		s := prometheus.NewSummary(prometheus.SummaryOpts{Name: "s"})
		s.Observe(1.5)
		s.Write(&m)
		s.Observe(2.5)
		s.Write(&m)
	})
	try("summary with objectives", func() {
		s := prometheus.NewSummary(prometheus.SummaryOpts{Name: "s", Objectives: map[float64]float64{0.5: 0.05}})
		s.Observe(1.5)
		s.Write(&m)
	})
	try("vectors", func() {
		prometheus.NewCounterVec(prometheus.CounterOpts{Name: "c"}, []string{"a"}).WithLabelValues("x").Add(0.5)
		prometheus.NewGaugeVec(prometheus.GaugeOpts{Name: "g"}, []string{"a"}).WithLabelValues("x").Add(0.5)
		prometheus.NewSummaryVec(prometheus.SummaryOpts{Name: "s"}, []string{"a"}).WithLabelValues("x").Observe(1)
		prometheus.NewHistogramVec(prometheus.HistogramOpts{Name: "h"}, []string{"a"}).WithLabelValues("x").Observe(1)
	})
	for i := 0; i < 5; i++ {
		w.Add(fmt.Sprintf("(align-386 %d)", i), true)
	}
	if len(failures) > 0 {
		w.Extra["direct_failures"] = failures
	}
	return w.Flush()
}
