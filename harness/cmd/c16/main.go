package main

import (
	"context"
	"encoding/json"
	"errors"
	"fmt"
	"io"
	"math"
	"net/http"
	"net/http/httptest"
	"net/url"
	"strconv"
	"strings"
	"sync"
	"sync/atomic"
	"time"

	"github.com/prometheus/client_golang/api"
	v1 "github.com/prometheus/client_golang/api/prometheus/v1"

	"verifharness/internal/cli"
	"verifharness/internal/emit"
)

// C16: the API client sends what was asked and never mistakes failure for success.
//
// Streams:
//   calls      all 21 API methods against a real httptest server answering from a script
//   classify   apiClientImpl.Do through a scripted api.Client: every status 100..599 x body classes
//   malformed  hostile argument strings and bodies that are not envelopes, real server
//   fmt        formatTime on boundary times, parsed back with strconv.ParseFloat
//   known-label-slash   LabelValues with a label name containing "/" (known finding)
//   json       result documents from the model grammar + mutations, jsoniter codecs vs encoding/json (no model)

func main() { cli.Main("C16", runC16) }

// ---------------------------------------------------------------- generated inputs

type gtime struct{ sec, nsec int64 }

func (g gtime) T() time.Time {
	if g.sec == zeroSec && g.nsec == 0 {
		return time.Time{}
	}
	return time.Unix(g.sec, g.nsec)
}
func (g gtime) sx() string { return emit.Tup(emit.Z(g.sec), emit.Z(g.nsec)) }

const zeroSec = -62135596800

type gopt struct {
	kind int // 0 timeout 1 lookback 2 stats 3 limit
	d    int64
	s    string
	n    uint64
}

func (o gopt) opt() v1.Option {
	switch o.kind {
	case 0:
		return v1.WithTimeout(time.Duration(o.d))
	case 1:
		return v1.WithLookbackDelta(time.Duration(o.d))
	case 2:
		return v1.WithStats(v1.StatsValue(o.s))
	default:
		return v1.WithLimit(o.n)
	}
}
func (o gopt) sx() string {
	switch o.kind {
	case 0, 1:
		return emit.C(o.kind, emit.Z(o.d))
	case 2:
		return emit.C(2, emit.S(o.s))
	default:
		return emit.C(3, emit.U(o.n))
	}
}

type gcall struct {
	tag     int
	label   string
	query   string
	a, b, c string
	ms      []string
	st, en  gtime
	step    int64
	opts    []gopt
	skip    bool
}

var methodNames = []string{"Alerts", "AlertManagers", "CleanTombstones", "Config", "DeleteSeries", "Flags", "LabelNames",
	"LabelValues", "Query", "QueryRange", "QueryExemplars", "Buildinfo", "Runtimeinfo", "Series", "Snapshot", "Rules",
	"Targets", "TargetsMetadata", "Metadata", "TSDB", "WalReplay"}

func isFallback(tag int) bool { return tag == 6 || tag == 8 || tag == 9 || tag == 10 || tag == 13 }
func hasArgs(tag int) bool {
	switch tag {
	case 4, 6, 7, 8, 9, 10, 13, 14, 17, 18, 19:
		return true
	}
	return false
}

func optsSx(os []gopt) string {
	it := make([]string, len(os))
	for i, o := range os {
		it[i] = o.sx()
	}
	return emit.L(it)
}

func (c gcall) sx() string {
	switch c.tag {
	case 4:
		return emit.C(4, emit.SL(c.ms), c.st.sx(), c.en.sx())
	case 6:
		return emit.C(6, emit.SL(c.ms), c.st.sx(), c.en.sx(), optsSx(c.opts))
	case 7:
		return emit.C(7, emit.S(c.label), emit.SL(c.ms), c.st.sx(), c.en.sx(), optsSx(c.opts))
	case 8:
		return emit.C(8, emit.S(c.query), c.st.sx(), optsSx(c.opts))
	case 9:
		return emit.C(9, emit.S(c.query), c.st.sx(), c.en.sx(), emit.Z(c.step), optsSx(c.opts))
	case 10:
		return emit.C(10, emit.S(c.query), c.st.sx(), c.en.sx())
	case 13:
		return emit.C(13, emit.SL(c.ms), c.st.sx(), c.en.sx(), optsSx(c.opts))
	case 14:
		return emit.C(14, emit.B(c.skip))
	case 17:
		return emit.C(17, emit.S(c.a), emit.S(c.b), emit.S(c.c))
	case 18:
		return emit.C(18, emit.S(c.a), emit.S(c.b))
	case 19:
		return emit.C(19, optsSx(c.opts))
	default:
		return emit.C(c.tag)
	}
}

// invoke runs the real method; returns the warnings (nil for methods without) and the error.
func (c gcall) invoke(ctx context.Context, a v1.API) ([]string, error) {
	os := make([]v1.Option, len(c.opts))
	for i, o := range c.opts {
		os[i] = o.opt()
	}
	var w v1.Warnings
	var err error
	switch c.tag {
	case 0:
		_, err = a.Alerts(ctx)
	case 1:
		_, err = a.AlertManagers(ctx)
	case 2:
		err = a.CleanTombstones(ctx)
	case 3:
		_, err = a.Config(ctx)
	case 4:
		err = a.DeleteSeries(ctx, c.ms, c.st.T(), c.en.T())
	case 5:
		_, err = a.Flags(ctx)
	case 6:
		_, w, err = a.LabelNames(ctx, c.ms, c.st.T(), c.en.T(), os...)
	case 7:
		_, w, err = a.LabelValues(ctx, c.label, c.ms, c.st.T(), c.en.T(), os...)
	case 8:
		_, w, err = a.Query(ctx, c.query, c.st.T(), os...)
	case 9:
		_, w, err = a.QueryRange(ctx, c.query, v1.Range{Start: c.st.T(), End: c.en.T(), Step: time.Duration(c.step)}, os...)
	case 10:
		_, err = a.QueryExemplars(ctx, c.query, c.st.T(), c.en.T())
	case 11:
		_, err = a.Buildinfo(ctx)
	case 12:
		_, err = a.Runtimeinfo(ctx)
	case 13:
		_, w, err = a.Series(ctx, c.ms, c.st.T(), c.en.T(), os...)
	case 14:
		_, err = a.Snapshot(ctx, c.skip)
	case 15:
		_, err = a.Rules(ctx)
	case 16:
		_, err = a.Targets(ctx)
	case 17:
		_, err = a.TargetsMetadata(ctx, c.a, c.b, c.c)
	case 18:
		_, err = a.Metadata(ctx, c.a, c.b)
	case 19:
		_, err = a.TSDB(ctx, os...)
	case 20:
		_, err = a.WalReplay(ctx)
	}
	return w, err
}

// data of the envelope that decodes into the method's result type
var validData = []string{
	`{"alerts":[]}`, `{"activeAlertManagers":[{"url":"http://a"}],"droppedAlertManagers":[]}`, `{}`, `{"yaml":"global: {}"}`, `{}`,
	`{"a":"b"}`, `["__name__","job"]`, `["v1","v2"]`, `{"resultType":"scalar","result":[1.5,"2"]}`,
	`{"resultType":"matrix","result":[]}`, `[]`, `{"version":"2.0"}`, `{"CWD":"/"}`, `[{"__name__":"up"}]`, `{"name":"snap"}`,
	`{"groups":[]}`, `{"activeTargets":[],"droppedTargets":[]}`, `[]`, `{}`, `{"headStats":{"numSeries":1}}`, `{"min":1,"max":2,"current":1}`,
}

var textPool = []string{"", "up", "a b", "rate(http_requests_total{job=\"x\"}[5m])", "a&b=c", "x+y", "100%", "é漢", "a=b", "{__name__=~\".+\"}",
	"q?x#y", "a;b", "\"quoted\"", "sum by (le) (x)", "0", "-1", "1e3"}
var hostilePool = []string{"\xff\xfe", "a\x00b", "line\nbreak", "tab\there", "%zz", "%2F", " ", "a\\b", strings.Repeat("x", 300), "&&==", "\r\n\r\n", "?", "#"}

func pick(r *emit.Rng, p []string) string { return p[r.Intn(len(p))] }

func genText(r *emit.Rng, hostile bool) string {
	if hostile && r.Chance(2, 3) {
		s := pick(r, hostilePool)
		if r.Bool() {
			s = pick(r, textPool) + s
		}
		return s
	}
	return pick(r, textPool)
}

var secPool = []int64{0, 1, -1, 1700000000, 1700000001, 1234567890, 2147483647, 2147483648, 4102444800, 253402300799, -62135596800,
	-62135596799, 1 << 41, 1<<41 - 1, 1<<43 - 2, 1<<43 - 1, 1 << 43, 1 << 53, 1<<53 + 1, -(1 << 53) - 1, 1 << 62, -(1 << 62), 946684800, 1e9, 1e10}
var nsecPool = []int64{0, 1, 999, 1000, 999999, 1000000, 1000001, 123000000, 500000000, 499999999, 999000000, 999999999, 100000000, 1e8 + 1, 5e5}

func genTime(r *emit.Rng) gtime {
	switch r.Intn(10) {
	case 0, 1:
		return gtime{zeroSec, 0}
	case 2, 3, 4:
		return gtime{secPool[r.Intn(len(secPool))], nsecPool[r.Intn(len(nsecPool))]}
	case 5:
		return gtime{zeroSec, nsecPool[r.Intn(len(nsecPool))]}
	case 6:
		return gtime{int64(r.U64()>>2) - (1 << 61), int64(r.Intn(1000000000))}
	case 7:
		return gtime{1600000000 + int64(r.Intn(200000000)), int64(r.Intn(1000)) * 1000000}
	default:
		return gtime{1600000000 + int64(r.Intn(200000000)), int64(r.Intn(1000000000))}
	}
}

var durPool = []int64{0, 1, -1, 1000, 1e6, 1e9, 15e9, 6e10, 1500000000, 3600e9, 100e6, 1e9 + 1, -5e9, math.MaxInt64, math.MinInt64 + 1, 999999999, 2e9 - 1, 90e9, 1e3 + 1}

func genDur(r *emit.Rng) int64 {
	if r.Chance(3, 4) {
		return durPool[r.Intn(len(durPool))]
	}
	return int64(r.U64()>>r.Intn(40)) - int64(r.Intn(1000))
}

func genOpts(r *emit.Rng, hostile bool) []gopt {
	n := r.Intn(5)
	if r.Chance(1, 3) {
		n = 0
	}
	os := make([]gopt, n)
	for i := range os {
		k := r.Intn(4)
		o := gopt{kind: k}
		switch k {
		case 0, 1:
			o.d = genDur(r)
		case 2:
			o.s = []string{"all", "", "x", "a b"}[r.Intn(4)]
			if hostile && r.Bool() {
				o.s = genText(r, true)
			}
		default:
			o.n = []uint64{0, 1, 10, 1000, math.MaxUint64, 1 << 63, 42}[r.Intn(7)]
		}
		os[i] = o
	}
	return os
}

func genMatches(r *emit.Rng, hostile bool) []string {
	n := r.Intn(4)
	ms := make([]string, n)
	for i := range ms {
		ms[i] = genText(r, hostile)
	}
	return ms
}

// label names for the ordinary streams: never contain "/" (known finding label-slash)
var labelPool = []string{"job", "__name__", "instance", "a b", "é", "a%2Fb", "a?b", "a#b", ":name", "name", "a:b", "x:namey", "a+b", "a&b", "a=b", "漢字", "a%b", "a;b", "UPPER", "a.b", "a\\b", "", ".", "..", "a..b", "%2e%2e", "a\"b", "~", "a,b", "(x)", "a|b", "[x]", "a@b", "$x", "a'b", "*"}

func genLabel(r *emit.Rng, hostile bool) string {
	if hostile && r.Bool() {
		return strings.ReplaceAll(pick(r, hostilePool), "/", "_")
	}
	return pick(r, labelPool)
}

func genCall(r *emit.Rng, tag int, hostile bool) gcall {
	c := gcall{tag: tag}
	c.label = genLabel(r, hostile)
	c.query = genText(r, hostile)
	c.a, c.b, c.c = genText(r, hostile), genText(r, hostile), []string{"", "10", "0", "-1", "x"}[r.Intn(5)]
	c.ms = genMatches(r, hostile)
	c.st, c.en = genTime(r), genTime(r)
	c.step = genDur(r)
	c.opts = genOpts(r, hostile)
	c.skip = r.Bool()
	return c
}

// ---------------------------------------------------------------- scripted peer

const (
	behResp = iota
	behDrop
	behCancelHdr
	behCancelBody
	behCutBody // header, (part of) the body, then the connection is closed before the announced end
)

type genv struct {
	status, etype, errmsg string
	warnings              []string
	dataKind              int // 0 valid, 1 wrong shape, 2 absent
	null                  bool
	pad                   int // bytes of padding in an unknown key / in the data (long bodies)
}

type gbeh struct {
	kind   int
	code   int
	parsed *genv // nil: the body is not an envelope
	body   []byte
	class  string
	long   bool // body larger than 1 KiB
	cut    int  // behCutBody: 0 Content-Length too large, 1 chunked without last chunk, 2 closed mid-chunk, 3 cut mid-envelope
}

func (b gbeh) sx() string {
	switch b.kind {
	case behResp:
		p := emit.None()
		if b.parsed != nil {
			e := b.parsed
			p = emit.Some(emit.Tup(emit.S(e.status), emit.S(e.etype), emit.S(e.errmsg), emit.SL(e.warnings), emit.B(e.dataKind == 0)))
		}
		return emit.C(0, emit.I(b.code), p)
	case behDrop:
		return emit.C(1)
	case behCancelHdr:
		return emit.C(2)
	case behCancelBody:
		return emit.C(3, emit.I(b.code))
	default:
		return emit.C(4, emit.I(b.code))
	}
}

func jstr(s string) string { b, _ := json.Marshal(s); return string(b) }

var statusPool = []string{"success", "success", "success", "error", "error", "", "weird", "Success", "errors"}
var etypePool = []string{"bad_data", "timeout", "canceled", "execution", "unavailable", "internal", "not_found", "", "client_error", "weird type"}
var warnPool = []string{"w1", "", "a \"quoted\" warning", "é", "PromQL info: x"}

func genEnv(r *emit.Rng, want string) *genv {
	e := &genv{}
	switch want {
	case "success":
		e.status = "success"
	case "error":
		e.status = "error"
	case "other":
		e.status = []string{"", "weird", "Success", "errors", "ERROR"}[r.Intn(5)]
	default:
		e.status = pick(r, statusPool)
	}
	if e.status == "error" || r.Chance(1, 6) {
		e.etype = pick(r, etypePool)
		e.errmsg = []string{"boom", "", "parse error at char 3", "é\n"}[r.Intn(4)]
	}
	if r.Chance(1, 3) {
		n := 1 + r.Intn(3)
		for i := 0; i < n; i++ {
			e.warnings = append(e.warnings, pick(r, warnPool))
		}
	}
	// long bodies (1-64 KiB): long error message, many warnings, long unknown field / long data
	if r.Chance(1, 7) {
		size := []int{1100, 1500, 2048, 3000, 4096, 9000, 20000, 65536}[r.Intn(8)]
		switch r.Intn(3) {
		case 0:
			if size > 5000 {
				size = 1100 + r.Intn(3000)
			}
			e.errmsg = "long: " + strings.Repeat("parse error near token; ", size/24+1)
			if e.status == "error" && e.etype == "" {
				e.etype = "bad_data"
			}
		case 1:
			if size > 5000 {
				size = 1100 + r.Intn(3000)
			}
			for n := 0; n < size/40+1; n++ {
				e.warnings = append(e.warnings, fmt.Sprintf("warning %d: series has mixed float and histogram", n))
			}
		default:
			e.pad = size
		}
	}
	switch {
	case e.status == "error":
		e.dataKind = []int{2, 2, 0, 1}[r.Intn(4)]
	case r.Chance(1, 6):
		e.dataKind = 1 + r.Intn(2)
	}
	return e
}

// render the envelope as JSON: shuffled key order, absent zero fields, unknown keys, whitespace
func renderEnv(r *emit.Rng, e *genv, tag int) []byte {
	if e.null {
		return []byte("null")
	}
	var fields []string
	sp := []string{"", " ", "\n ", "\t"}[r.Intn(4)]
	if e.status != "" || r.Bool() {
		fields = append(fields, `"status":`+sp+jstr(e.status))
	}
	if e.etype != "" || r.Chance(1, 4) {
		fields = append(fields, `"errorType":`+sp+jstr(e.etype))
	}
	if e.errmsg != "" || r.Chance(1, 4) {
		fields = append(fields, `"error":`+sp+jstr(e.errmsg))
	}
	if len(e.warnings) > 0 || r.Chance(1, 5) {
		ws := make([]string, len(e.warnings))
		for i, w := range e.warnings {
			ws[i] = jstr(w)
		}
		fields = append(fields, `"warnings":`+sp+"["+strings.Join(ws, ","+sp)+"]")
	}
	if e.pad > 0 && !(e.dataKind == 0 && (tag == 6 || tag == 7)) {
		fields = append(fields, `"infos":["`+strings.Repeat("p", e.pad)+`"]`)
	}
	switch e.dataKind {
	case 0:
		if e.pad > 0 && (tag == 6 || tag == 7) {
			fields = append(fields, `"data":`+sp+`["v0"`+strings.Repeat(`,"value"`, e.pad/8+1)+`]`)
			break
		}
		fields = append(fields, `"data":`+sp+validData[tag])
	case 1:
		fields = append(fields, `"data":`+sp+[]string{`"zzz"`, `7`, `true`}[r.Intn(3)])
	}
	if r.Chance(1, 5) {
		fields = append(fields, `"infos":["i"]`)
	}
	if r.Chance(1, 8) {
		fields = append(fields, `"unknown":{"status":"error","nested":[1,2,{"a":null}]}`)
	}
	for i := len(fields) - 1; i > 0; i-- {
		j := r.Intn(i + 1)
		fields[i], fields[j] = fields[j], fields[i]
	}
	return []byte("{" + sp + strings.Join(fields, ","+sp) + sp + "}")
}

var notEnvelope = []string{"", "<html><body>502 Bad Gateway</body></html>", "{", `{"status":"success"`, "[]", "123", `"success"`, "true",
	`{"status":5}`, `{"status":"success","warnings":"w"}`, `{"status":"success","data":{}} trailing`, `{"status":"success"}{"status":"error"}`,
	"Service Unavailable", `{"status":"error","errorType":"bad_data","error":"x"`, " ", `{"status":"success",}`, `{status:"success"}`}

func genNotEnvelope(r *emit.Rng, tag int) ([]byte, string) {
	if r.Chance(1, 4) {
		full := renderEnv(r, genEnv(r, ""), tag)
		cut := 1 + r.Intn(len(full)-1)
		return full[:cut], "truncated"
	}
	s := pick(r, notEnvelope)
	if strings.TrimSpace(s) == "" {
		return []byte(s), "empty"
	}
	return []byte(s), "notjson"
}

var codePool = []int{200, 200, 200, 200, 201, 202, 204, 206, 299, 300, 301, 302, 304, 399, 400, 400, 401, 403, 404, 405, 406, 418, 421, 422, 422, 423, 429, 499, 500, 501, 502, 503, 504, 599}

// genBeh draws the peer's behaviour; realServer: only what net/http can deliver (no 1xx, no body with 204/304)
func genBeh(r *emit.Rng, tag int, realServer bool, code int, malformed bool) gbeh {
	if code == 0 {
		code = codePool[r.Intn(len(codePool))]
		if r.Chance(1, 6) {
			code = 200 + r.Intn(400)
		}
	}
	b := gbeh{kind: behResp, code: code}
	if code == 204 || code == 304 || code < 200 {
		// no body: net/http refuses one; RFC 9110 forbids one
		b.body, b.class = nil, "nobody"
		return b
	}
	k := r.Intn(10)
	if malformed {
		k = 7 + r.Intn(3)
	}
	switch {
	case k < 4:
		b.parsed, b.class = genEnv(r, "success"), "success"
	case k < 6:
		b.parsed, b.class = genEnv(r, "error"), "error"
	case k < 7:
		b.parsed, b.class = genEnv(r, "other"), "other-status"
		if r.Chance(1, 5) {
			b.parsed = &genv{null: true, dataKind: 2}
			b.class = "null"
		}
	default:
		b.body, b.class = genNotEnvelope(r, tag)
		return b
	}
	if b.parsed.dataKind != 0 && b.class == "success" {
		b.class = "success-baddata"
	}
	b.body = renderEnv(r, b.parsed, tag)
	if len(b.body) > 1024 {
		b.long = true
	}
	return b
}

// the transport fails while the body is read; what had arrived is mostly a complete, valid success envelope
func genCut(r *emit.Rng, tag int) gbeh {
	b := gbeh{kind: behCutBody, code: []int{200, 200, 200, 200, 201, 400, 422, 405, 501, 500, 404}[r.Intn(11)], cut: r.Intn(4), class: "cut-body"}
	e := genEnv(r, []string{"success", "success", "success", "error"}[r.Intn(4)])
	if e.status == "success" && r.Chance(3, 4) {
		e.dataKind = 0
	}
	b.body = renderEnv(r, e, tag)
	if b.cut == 3 {
		b.body = b.body[:1+r.Intn(len(b.body)-1)]
		b.class = "cut-body-mid-envelope"
	} else if e.status == "success" && e.dataKind == 0 {
		b.class = "cut-body-after-complete-success"
	}
	return b
}

func genScript(r *emit.Rng, tag int, realServer bool, malformed bool) []gbeh {
	n := 1
	if isFallback(tag) {
		n = 2
	}
	bs := make([]gbeh, n)
	for i := range bs {
		switch x := r.Intn(40); {
		case x == 0:
			bs[i] = gbeh{kind: behDrop, class: "drop"}
		case x == 1:
			bs[i] = gbeh{kind: behCancelHdr, class: "cancel-hdr"}
		case x == 2:
			bs[i] = gbeh{kind: behCancelBody, code: []int{200, 405, 501, 500, 400}[r.Intn(5)], class: "cancel-body"}
		case x == 3 || x == 4:
			bs[i] = genCut(r, tag)
		default:
			code := 0
			if i == 0 && n == 2 && r.Chance(2, 5) {
				code = []int{405, 501, 405, 501, 404, 406, 500, 502, 400}[r.Intn(9)]
			}
			bs[i] = genBeh(r, tag, realServer, code, malformed)
		}
	}
	return bs
}

// ---------------------------------------------------------------- observation

type seenReq struct {
	method, escPath, rawQuery, ctype string
	body                             []byte
}

func kvSx(raw string, fails *[]string) string {
	if raw == "" {
		return emit.L(nil)
	}
	var it []string
	for _, part := range strings.Split(raw, "&") {
		k, v, _ := strings.Cut(part, "=")
		ku, e1 := url.QueryUnescape(k)
		vu, e2 := url.QueryUnescape(v)
		if e1 != nil || e2 != nil {
			*fails = append(*fails, "undecodable query component "+strconv.Quote(part))
			ku, vu = k, v
		}
		val := emit.C(0, emit.S(vu))
		switch ku {
		case "start", "end", "time", "step":
			if f, err := strconv.ParseFloat(vu, 64); err == nil {
				val = emit.C(1, emit.F(f))
			}
		case "timeout", "lookback_delta":
			if d, err := time.ParseDuration(vu); err == nil {
				val = emit.C(2, emit.Z(int64(d)))
			}
		}
		it = append(it, emit.Tup(emit.S(ku), val))
	}
	return emit.L(it)
}

func (s seenReq) sx(fails *[]string) string {
	post := false
	switch s.method {
	case http.MethodPost:
		post = true
	case http.MethodGet:
	default:
		*fails = append(*fails, "unexpected HTTP method "+s.method)
	}
	var segs []string
	parts := strings.Split(s.escPath, "/")
	if len(parts) > 0 && parts[0] == "" {
		parts = parts[1:]
	} else {
		*fails = append(*fails, "path does not start with /: "+strconv.Quote(s.escPath))
	}
	for _, p := range parts {
		u, err := url.PathUnescape(p)
		if err != nil {
			*fails = append(*fails, "undecodable path segment "+strconv.Quote(p))
			u = p
		}
		segs = append(segs, u)
	}
	return emit.Tup(emit.B(post), emit.SL(segs), kvSx(s.rawQuery, fails), kvSx(string(s.body), fails),
		emit.B(s.ctype == "application/x-www-form-urlencoded"))
}

func resultSx(w []string, err error) string {
	if w == nil {
		w = []string{}
	}
	if err == nil {
		return emit.Tup("0", emit.S(""), emit.S(""), emit.SL(w))
	}
	var e *v1.Error
	if errors.As(err, &e) {
		return emit.Tup("1", emit.S(string(e.Type)), emit.S(e.Msg), emit.SL(w))
	}
	return emit.Tup("2", emit.S(""), emit.S(""), emit.SL(w))
}

// state of the call in flight
type callState struct {
	behs    []gbeh
	mu      sync.Mutex
	seen    []seenReq
	srvN    int
	rtN     int
	cancel  context.CancelFunc
	reached chan struct{}
}

type peer struct {
	cur atomic.Pointer[callState]
	srv *httptest.Server
}

func (p *peer) handle(w http.ResponseWriter, r *http.Request) {
	st := p.cur.Load()
	body, _ := io.ReadAll(r.Body)
	st.mu.Lock()
	i := st.srvN
	st.srvN++
	st.seen = append(st.seen, seenReq{r.Method, r.URL.EscapedPath(), r.URL.RawQuery, r.Header.Get("Content-Type"), body})
	st.mu.Unlock()
	if i >= len(st.behs) {
		w.WriteHeader(599)
		return
	}
	b := st.behs[i]
	wait := func() {
		select {
		case <-r.Context().Done():
		case <-time.After(3 * time.Second):
		}
	}
	switch b.kind {
	case behResp:
		w.Header().Set("Content-Type", "application/json")
		w.WriteHeader(b.code)
		_, _ = w.Write(b.body)
	case behDrop:
		if hj, ok := w.(http.Hijacker); ok {
			if c, _, err := hj.Hijack(); err == nil {
				c.Close()
			}
		}
	case behCancelHdr:
		select {
		case st.reached <- struct{}{}:
		default:
		}
		wait()
	case behCutBody:
		hj, ok := w.(http.Hijacker)
		if !ok {
			return
		}
		c, bw, err := hj.Hijack()
		if err != nil {
			return
		}
		head := fmt.Sprintf("HTTP/1.1 %d Scripted\r\nContent-Type: application/json\r\n", b.code)
		switch b.cut {
		case 0, 3:
			fmt.Fprintf(bw, "%sContent-Length: %d\r\n\r\n%s", head, len(b.body)+17, b.body)
		case 1:
			fmt.Fprintf(bw, "%sTransfer-Encoding: chunked\r\n\r\n%x\r\n%s\r\n", head, len(b.body), b.body)
		default:
			fmt.Fprintf(bw, "%sTransfer-Encoding: chunked\r\n\r\n%x\r\n%s", head, len(b.body)+50, b.body)
		}
		bw.Flush()
		c.Close()
	case behCancelBody:
		w.Header().Set("Content-Type", "application/json")
		w.WriteHeader(b.code)
		_, _ = w.Write([]byte(`{"status":"succ`))
		if f, ok := w.(http.Flusher); ok {
			f.Flush()
		}
		wait()
	}
}

// round tripper that cancels the caller's context at the scripted moment
type scriptedRT struct {
	base http.RoundTripper
	p    *peer
}

func (s *scriptedRT) RoundTrip(req *http.Request) (*http.Response, error) {
	st := s.p.cur.Load()
	if req.Context().Err() != nil {
		return s.base.RoundTrip(req) // fails without reaching the peer
	}
	st.mu.Lock()
	i := st.rtN
	st.rtN++
	st.mu.Unlock()
	if i < len(st.behs) && st.behs[i].kind == behCancelHdr {
		go func() {
			select {
			case <-st.reached:
				st.cancel()
			case <-time.After(5 * time.Second):
			}
		}()
	}
	resp, err := s.base.RoundTrip(req)
	if err == nil && i < len(st.behs) && st.behs[i].kind == behCancelBody {
		st.cancel()
	}
	return resp, err
}

// scripted api.Client: apiClientImpl.Do is exercised without net/http in between
type fakeClient struct {
	real api.Client
	st   *callState
	done bool
}

func (f *fakeClient) URL(ep string, args map[string]string) *url.URL { return f.real.URL(ep, args) }
func (f *fakeClient) Do(ctx context.Context, req *http.Request) (*http.Response, []byte, error) {
	if ctx.Err() != nil || f.done {
		return nil, nil, context.Canceled
	}
	var body []byte
	if req.Body != nil {
		body, _ = io.ReadAll(req.Body)
	}
	st := f.st
	i := st.srvN
	st.srvN++
	st.seen = append(st.seen, seenReq{req.Method, req.URL.EscapedPath(), req.URL.RawQuery, req.Header.Get("Content-Type"), body})
	if i >= len(st.behs) {
		return nil, nil, errors.New("no scripted answer")
	}
	b := st.behs[i]
	switch b.kind {
	case behResp:
		return &http.Response{StatusCode: b.code, Body: io.NopCloser(strings.NewReader(""))}, b.body, nil
	case behDrop:
		return nil, nil, errors.New("connection reset")
	case behCancelHdr:
		f.done = true
		return nil, nil, context.Canceled
	case behCutBody:
		return &http.Response{StatusCode: b.code, Body: io.NopCloser(strings.NewReader(""))}, b.body, io.ErrUnexpectedEOF
	default:
		f.done = true
		return &http.Response{StatusCode: b.code, Body: io.NopCloser(strings.NewReader(""))}, []byte(`{"status":"succ`), context.Canceled
	}
}

type runner struct {
	p        *peer
	realAPI  map[string]v1.API
	realCl   map[string]api.Client
	prefixes []string
}

func newRunner() (*runner, error) {
	p := &peer{}
	p.srv = httptest.NewServer(http.HandlerFunc(p.handle))
	rn := &runner{p: p, realAPI: map[string]v1.API{}, realCl: map[string]api.Client{}, prefixes: []string{"", "/prom", "/a/b"}}
	for _, pre := range rn.prefixes {
		rt := &scriptedRT{base: &http.Transport{DisableKeepAlives: true}, p: p}
		addr := p.srv.URL + pre
		if pre != "" {
			addr += "/" // NewClient trims it
		}
		cl, err := api.NewClient(api.Config{Address: addr, RoundTripper: rt})
		if err != nil {
			return nil, err
		}
		rn.realCl[pre] = cl
		rn.realAPI[pre] = v1.NewAPI(cl)
	}
	return rn, nil
}

type callOut struct {
	reqs   string
	result string
	fails  []string
	fatal  bool
}

// one call; fake = through the scripted api.Client
func (rn *runner) run(c gcall, prefix string, behs []gbeh, pre bool, fake bool) callOut {
	ctx, cancel := context.WithCancel(context.Background())
	defer cancel()
	st := &callState{behs: behs, cancel: cancel, reached: make(chan struct{}, 1)}
	if pre {
		cancel()
	}
	var a v1.API
	if fake {
		a = v1.NewAPI(&fakeClient{real: rn.realCl[prefix], st: st})
	} else {
		rn.p.cur.Store(st)
		a = rn.realAPI[prefix]
	}
	type ret struct {
		w     []string
		err   error
		panic interface{}
	}
	ch := make(chan ret, 1)
	go func() {
		defer func() {
			if x := recover(); x != nil {
				ch <- ret{panic: x}
			}
		}()
		w, err := c.invoke(ctx, a)
		ch <- ret{w: w, err: err}
	}()
	var out callOut
	var rt ret
	select {
	case rt = <-ch:
	case <-time.After(20 * time.Second):
		out.fails = append(out.fails, "call did not return within 20 s (blocked)")
		out.fatal = true
		return out
	}
	if rt.panic != nil {
		out.fails = append(out.fails, fmt.Sprintf("panic: %v", rt.panic))
		rt.err = errors.New("panic")
	}
	st.mu.Lock()
	seen := append([]seenReq(nil), st.seen...)
	st.mu.Unlock()
	it := make([]string, len(seen))
	for i, s := range seen {
		it[i] = s.sx(&out.fails)
	}
	out.reqs = emit.L(it)
	out.result = resultSx(rt.w, rt.err)
	return out
}

func statusTag(code int) string { return fmt.Sprintf("status/%dxx", code/100) }

type failure = map[string]interface{}

func addCase(w *emit.Writer, fails *[]failure, c gcall, prefix string, behs []gbeh, pre bool, fake bool, out callOut) {
	bs := make([]string, len(behs))
	for i, b := range behs {
		bs[i] = b.sx()
	}
	term := emit.C(1, emit.S(prefix), c.sx(), emit.L(bs), emit.B(pre), out.reqs, out.result)
	tags := []string{"method/" + methodNames[c.tag]}
	plain := true
	for i, b := range behs {
		tags = append(tags, "answer/"+b.class)
		if b.long {
			tags = append(tags, fmt.Sprintf("answer/long-body-%dxx", b.code/100))
		}
		if b.kind == behResp {
			tags = append(tags, statusTag(b.code))
			if !(b.code == 200 && b.class == "success") {
				plain = false
			}
		} else {
			plain = false
		}
		if i == 0 && len(behs) == 2 {
			if (b.kind == behResp || b.kind == behCutBody) && (b.code == 405 || b.code == 501) {
				tags = append(tags, "fallback/taken")
			} else {
				tags = append(tags, "fallback/not-taken")
				break // the second answer is never used
			}
		}
	}
	if pre {
		tags = append(tags, "context/precancelled")
		plain = false
	}
	if prefix != "" {
		tags = append(tags, "address/with-path")
	}
	for _, f := range out.fails {
		*fails = append(*fails, failure{"index": w.Len(), "what": f, "method": methodNames[c.tag]})
	}
	w.Add(term, hasArgs(c.tag) || !plain, tags...)
}

func runC16(c *cli.Ctx) error {
	rn, err := newRunner()
	if err != nil {
		return err
	}
	defer rn.p.srv.Close()
	root := emit.NewRng(c.Seed)

	// ---- calls: every method, real server
	{
		r := root.Fork()
		w := emit.NewWriter(c.Out, "C16", "calls")
		var fails []failure
		n := 200 * c.Scale
		for i := 0; i < n; i++ {
			for tag := 0; tag <= 20; tag++ {
				if !hasArgs(tag) && i%7 != 0 && i > 3 {
					continue // argument-less methods: fewer repetitions
				}
				call := genCall(r, tag, false)
				prefix := rn.prefixes[r.Intn(len(rn.prefixes))]
				if r.Chance(2, 3) {
					prefix = ""
				}
				behs := genScript(r, tag, true, false)
				pre := r.Chance(1, 60)
				out := rn.run(call, prefix, behs, pre, false)
				addCase(w, &fails, call, prefix, behs, pre, false, out)
				if out.fatal {
					w.Extra["direct_failures"] = fails
					_ = w.Flush()
					return errors.New("a call blocked; aborting")
				}
			}
		}
		if len(fails) > 0 {
			w.Extra["direct_failures"] = fails
		}
		w.Extra["note"] = "statuses 200..599 only: net/http clients consume 1xx answers themselves; 204/304 carry no body"
		if err := w.Flush(); err != nil {
			return err
		}
	}

	// ---- classify: scripted api.Client, every status 100..599
	{
		r := root.Fork()
		w := emit.NewWriter(c.Out, "C16", "classify")
		var fails []failure
		tags := []int{8, 4, 0, 7, 13, 2}
		for rep := 0; rep < c.Scale; rep++ {
			for code := 100; code <= 599; code++ {
				reps := 3
				if code/100 == 2 {
					reps = 10
				}
				if code == 400 || code == 422 || code == 200 || code == 204 {
					reps = 60
				}
				for k := 0; k < reps; k++ {
					tag := tags[r.Intn(len(tags))]
					call := genCall(r, tag, false)
					behs := []gbeh{genBeh(r, tag, false, code, false)}
					if isFallback(tag) {
						// second answer for the fallback codes
						behs = append(behs, genBeh(r, tag, false, 0, false))
					}
					out := rn.run(call, "", behs, false, true)
					addCase(w, &fails, call, "", behs, false, true, out)
				}
			}
		}
		// DoGetFallback: the POST answered with codes around 405 / 501
		for k := 0; k < 150*c.Scale; k++ {
			tag := []int{6, 8, 9, 10, 13}[r.Intn(5)]
			call := genCall(r, tag, false)
			first := genBeh(r, tag, false, []int{405, 501, 405, 501, 404, 406, 500, 502, 505, 415, 400, 200}[r.Intn(12)], false)
			behs := []gbeh{first, genBeh(r, tag, false, 0, false)}
			out := rn.run(call, "", behs, false, true)
			addCase(w, &fails, call, "", behs, false, true, out)
		}
		// scripted cancellations and failures through the same layer
		for k := 0; k < 60*c.Scale; k++ {
			tag := tags[r.Intn(len(tags))]
			call := genCall(r, tag, false)
			behs := genScript(r, tag, false, false)
			behs[0] = []gbeh{{kind: behDrop, class: "drop"}, {kind: behCancelHdr, class: "cancel-hdr"},
				{kind: behCancelBody, code: []int{200, 405, 501}[r.Intn(3)], class: "cancel-body"}, genCut(r, tag)}[r.Intn(4)]
			pre := r.Chance(1, 5)
			out := rn.run(call, "", behs, pre, true)
			addCase(w, &fails, call, "", behs, pre, true, out)
		}
		if len(fails) > 0 {
			w.Extra["direct_failures"] = fails
		}
		if err := w.Flush(); err != nil {
			return err
		}
	}

	// ---- malformed: hostile strings, bodies that are not envelopes
	{
		r := root.Fork()
		w := emit.NewWriter(c.Out, "C16", "malformed")
		var fails []failure
		for i := 0; i < 60*c.Scale; i++ {
			for tag := 0; tag <= 20; tag++ {
				if !hasArgs(tag) && i%5 != 0 {
					continue
				}
				call := genCall(r, tag, true)
				behs := genScript(r, tag, true, r.Chance(3, 4))
				out := rn.run(call, "", behs, false, false)
				addCase(w, &fails, call, "", behs, false, false, out)
				if out.fatal {
					w.Extra["direct_failures"] = fails
					_ = w.Flush()
					return errors.New("a call blocked; aborting")
				}
			}
		}
		if len(fails) > 0 {
			w.Extra["direct_failures"] = fails
		}
		if err := w.Flush(); err != nil {
			return err
		}
	}

	// ---- fmt: formatTime
	{
		r := root.Fork()
		w := emit.NewWriter(c.Out, "C16", "fmt")
		var fails []failure
		add := func(g gtime) {
			s := v1.VerifFormatTime(g.T())
			f, err := strconv.ParseFloat(s, 64)
			if err != nil {
				fails = append(fails, failure{"index": w.Len(), "what": "formatTime output is not a number: " + strconv.Quote(s)})
				f = math.NaN()
			}
			if strings.ContainsAny(s, "eE") {
				fails = append(fails, failure{"index": w.Len(), "what": "formatTime output uses an exponent: " + s})
			}
			tag := "range/ms-claimed"
			if g.sec <= -(1<<43) || g.sec >= 1<<43-1 {
				tag = "range/beyond-2^43"
			}
			w.Add(emit.C(0, emit.Z(g.sec), emit.Z(g.nsec), emit.F(f)), g.nsec != 0, tag)
		}
		for _, s := range secPool {
			for _, ns := range nsecPool {
				add(gtime{s, ns})
			}
		}
		for i := 0; i < 4000*c.Scale; i++ {
			add(genTime(r))
		}
		if len(fails) > 0 {
			w.Extra["direct_failures"] = fails
		}
		if err := w.Flush(); err != nil {
			return err
		}
	}

	// ---- known finding: label name with a slash
	{
		r := root.Fork()
		w := emit.NewWriter(c.Out, "C16", "known-label-slash")
		var fails []failure
		for _, label := range []string{"a/b", "/", "x/../y"} {
			call := genCall(r, 7, false)
			call.label = label
			behs := []gbeh{genBeh(r, 7, true, 200, false)}
			out := rn.run(call, "", behs, false, false)
			addCase(w, &fails, call, "", behs, false, false, out)
		}
		if err := w.Flush(); err != nil {
			return err
		}
	}

	if err := runJSON(c, rn, root.Fork()); err != nil {
		return err
	}
	return runCodec(c, root.Fork())
}
