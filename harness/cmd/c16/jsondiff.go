package main

import (
	"context"
	"encoding/json"
	"fmt"
	"math"
	"os"
	"sort"
	"strconv"
	"strings"
	"time"
	"unicode/utf8"

	v1 "github.com/prometheus/client_golang/api/prometheus/v1"
	"github.com/prometheus/common/model"

	"verifharness/internal/cli"
	"verifharness/internal/emit"
)

// Differential test of the hand-written jsoniter codecs (api.go:37-356, 706-860) against encoding/json on the
// model types.  No Coq model: disagreements are reported as direct failures.

type jgen struct {
	r      *emit.Rng
	muts   []string // mutations applied to the document under construction
	seen   int      // mutation opportunities met so far
	target int      // the opportunity at which to mutate (-1: none; grammar only)
}

// exactly one local mutation per mutated document: a first pass counts the opportunities, the second pass
// (same random state) mutates at one of them
func (g *jgen) mut(name string) bool {
	g.seen++
	if g.seen-1 == g.target {
		g.muts = append(g.muts, name)
		return true
	}
	return false
}

func (g *jgen) ws() string {
	switch g.r.Intn(12) {
	case 0:
		return " "
	case 1:
		return "\n"
	case 2:
		return " \t "
	}
	return ""
}

var tsPool = []string{"0", "1", "1700000000", "1700000000.123", "1.5", "0.001", "0.01", "0.1", "123.4567", "1.0009", "1435781451.781",
	"9223372036854775", "100", "1.000", "2.999", "1e3", "1.5E2", "1E-3"}

func (g *jgen) ts() string {
	r := g.r
	if g.mut("ts-negative") {
		return []string{"-1", "-1.5", "-0.5", "-0"}[r.Intn(4)]
	}
	if g.mut("ts-not-a-number") {
		return []string{`"123"`, "null", "true", "[]", "{}"}[r.Intn(5)]
	}
	if g.mut("ts-lenient-number") {
		return []string{"+1", "01", "1.", ".5", "1e", "--1", "1.2.3", "0x10", "1_0"}[r.Intn(9)]
	}
	if g.mut("ts-out-of-range") {
		return []string{"9223372036854775807", "1e400", "9223372036854776", "99999999999999999999"}[r.Intn(4)]
	}
	switch r.Intn(4) {
	case 0:
		return tsPool[r.Intn(len(tsPool))]
	case 1:
		return strconv.Itoa(r.Intn(2000000000))
	case 2:
		return fmt.Sprintf("%d.%0*d", r.Intn(2000000000), 1+r.Intn(3), r.Intn(10))
	default:
		return fmt.Sprintf("%d.%03d", 1600000000+r.Intn(100000000), r.Intn(1000))
	}
}

var valPool = []string{"0", "1", "-1", "1.5", "NaN", "+Inf", "-Inf", "Inf", "1e-7", "1e21", "123456789.123456789", "5e-324", "1.7976931348623157e308",
	"-0", "0.1", "3", "42", "1e3", "1E3", "0x1p-2", "nan", "inf", "+1", ".5", "1."}

func (g *jgen) fstr() string {
	r := g.r
	if g.mut("value-not-a-float") {
		return []string{`"abc"`, `""`, `"1e400"`, `"1,5"`, `" 1"`, `"--1"`}[r.Intn(6)]
	}
	if g.mut("value-not-a-string") {
		return []string{"1", "1.5", "null", "true", `["1"]`}[r.Intn(5)]
	}
	switch r.Intn(3) {
	case 0:
		return `"` + valPool[r.Intn(len(valPool))] + `"`
	case 1:
		return `"` + strconv.FormatFloat(r.AnyFloat(), 'g', -1, 64) + `"`
	default:
		return `"` + strconv.Itoa(r.Intn(1000)) + `"`
	}
}

func (g *jgen) pair() string {
	w := g.ws()
	if g.mut("pair-too-short") {
		return []string{"[" + g.ts() + "]", "[]"}[g.r.Intn(2)]
	}
	if g.mut("pair-too-long") {
		return "[" + g.ts() + "," + g.fstr() + "," + g.fstr() + "]"
	}
	if g.mut("pair-not-array") {
		return []string{`{"t":1,"v":"1"}`, `"x"`, "1", "null"}[g.r.Intn(4)]
	}
	return "[" + w + g.ts() + w + "," + w + g.fstr() + w + "]"
}

func (g *jgen) bucket() string {
	r := g.r
	b := strconv.Itoa(r.Intn(4))
	if g.mut("bucket-boundaries-odd") {
		// values outside int32 are kept out of the ordinary stream: suspected finding bucket-boundaries-int32
		b = []string{"1.5", "-1", "2147483647", "-2147483648", `"1"`, "null", "1e2"}[r.Intn(7)]
	}
	if g.mut("bucket-too-short") {
		return "[" + b + "," + g.fstr() + "," + g.fstr() + "]"
	}
	if g.mut("bucket-too-long") {
		return "[" + b + "," + g.fstr() + "," + g.fstr() + "," + g.fstr() + "," + g.fstr() + "]"
	}
	w := g.ws()
	return "[" + w + b + "," + w + g.fstr() + "," + g.fstr() + w + "," + g.fstr() + "]"
}

func (g *jgen) hist() string {
	r := g.r
	var fields []string
	if !g.mut("hist-missing-count") {
		fields = append(fields, `"count":`+g.ws()+g.fstr())
	}
	if !g.mut("hist-missing-sum") {
		fields = append(fields, `"sum":`+g.fstr())
	}
	if r.Chance(3, 4) {
		n := r.Intn(4)
		bs := make([]string, n)
		for i := range bs {
			bs[i] = g.bucket()
		}
		fields = append(fields, `"buckets":`+g.ws()+"["+strings.Join(bs, ",")+"]")
	}
	if g.mut("hist-unknown-key") {
		fields = append(fields, `"zeroThreshold":"0.001"`)
	}
	if r.Bool() {
		for i := len(fields) - 1; i > 0; i-- {
			j := r.Intn(i + 1)
			fields[i], fields[j] = fields[j], fields[i]
		}
	}
	if g.mut("hist-not-object") {
		// null is kept out of the ordinary stream: suspected finding histogram-null
		return []string{"[]", `"h"`, "1", "true"}[r.Intn(4)]
	}
	return "{" + g.ws() + strings.Join(fields, ","+g.ws()) + "}"
}

func (g *jgen) hpair() string {
	if g.mut("hpair-too-short") {
		return "[" + g.ts() + "]"
	}
	if g.mut("hpair-too-long") {
		return "[" + g.ts() + "," + g.hist() + "," + g.hist() + "]"
	}
	return "[" + g.ts() + "," + g.ws() + g.hist() + g.ws() + "]"
}

var lnPool = []string{"__name__", "job", "instance", "le", "a_b", "é", "with space", "q\"uote"}
var lvPool = []string{"up", "", "localhost:9090", "0.5", "é漢", "a\\b", "line\nbreak", " "}

func (g *jgen) metric() string {
	r := g.r
	if g.mut("metric-not-object") {
		return []string{"[]", `"m"`, "1"}[r.Intn(3)]
	}
	n := r.Intn(4)
	seen := map[string]bool{}
	var fs []string
	for i := 0; i < n; i++ {
		k := lnPool[r.Intn(len(lnPool))]
		if seen[k] {
			continue
		}
		seen[k] = true
		v := jstr(lvPool[r.Intn(len(lvPool))])
		if g.mut("metric-value-not-string") {
			v = []string{"1", "null", "true", "[]"}[r.Intn(4)]
		}
		fs = append(fs, jstr(k)+":"+g.ws()+v)
	}
	if g.mut("metric-empty-label-name") {
		fs = append(fs, `"":"x"`)
	}
	return "{" + strings.Join(fs, ","+g.ws()) + "}"
}

func (g *jgen) list(n int, f func() string) string {
	it := make([]string, n)
	for i := range it {
		it[i] = f()
	}
	return "[" + g.ws() + strings.Join(it, ","+g.ws()) + g.ws() + "]"
}

func (g *jgen) stream() string {
	r := g.r
	var fields []string
	if !g.mut("stream-missing-metric") {
		fields = append(fields, `"metric":`+g.ws()+g.metric())
	}
	if r.Chance(4, 5) {
		fields = append(fields, `"values":`+g.ws()+g.list(r.Intn(4), g.pair))
	}
	if r.Chance(1, 3) {
		fields = append(fields, `"histograms":`+g.list(r.Intn(3), g.hpair))
	}
	if g.mut("stream-unknown-key") {
		fields = append(fields, `"extra":1`)
	}
	if g.mut("stream-values-not-array") {
		fields = append(fields, `"values":`+[]string{"{}", `"v"`, "1"}[r.Intn(3)])
	}
	if r.Bool() {
		for i := len(fields) - 1; i > 0; i-- {
			j := r.Intn(i + 1)
			fields[i], fields[j] = fields[j], fields[i]
		}
	}
	return "{" + g.ws() + strings.Join(fields, ","+g.ws()) + g.ws() + "}"
}

func (g *jgen) sample() string {
	r := g.r
	fields := []string{`"metric":` + g.metric()}
	if r.Chance(3, 4) {
		fields = append(fields, `"value":`+g.pair())
	} else {
		fields = append(fields, `"histogram":`+g.hpair())
	}
	if r.Bool() {
		fields[0], fields[1] = fields[1], fields[0]
	}
	return "{" + strings.Join(fields, ","+g.ws()) + "}"
}

func (g *jgen) doc() (string, string) {
	r := g.r
	var typ, res string
	switch r.Intn(7) {
	case 0:
		typ, res = "scalar", g.pair()
	case 1, 2:
		typ, res = "vector", g.list(r.Intn(4), g.sample)
	default:
		typ, res = "matrix", g.list(r.Intn(4), g.stream)
	}
	kind := typ
	if g.mut("unknown-result-type") {
		typ = []string{"string", "none", "tensor", ""}[r.Intn(4)]
	}
	if g.mut("result-missing") {
		return `{"resultType":"` + typ + `"}`, kind
	}
	if g.mut("result-wrong-shape") {
		res = []string{"{}", `"x"`, "1", "null", "[1]"}[r.Intn(5)]
	}
	if r.Bool() {
		return `{"resultType":` + g.ws() + `"` + typ + `",` + g.ws() + `"result":` + g.ws() + res + g.ws() + `}`, kind
	}
	return `{"result":` + res + `,"resultType":"` + typ + `"}`, kind
}

// textual damage: the result is (almost always) not JSON any more
func (g *jgen) damage(doc string) string {
	r := g.r
	if len(doc) < 3 {
		return doc
	}
	switch r.Intn(4) {
	case 0:
		g.muts = append(g.muts, "text-truncated")
		return doc[:1+r.Intn(len(doc)-2)]
	case 1:
		g.muts = append(g.muts, "text-char-deleted")
		i := r.Intn(len(doc))
		return doc[:i] + doc[i+1:]
	case 2:
		g.muts = append(g.muts, "text-char-replaced")
		i := r.Intn(len(doc))
		return doc[:i] + string("{}[],:\"x0"[r.Intn(9)]) + doc[i+1:]
	default:
		g.muts = append(g.muts, "text-garbage-appended")
		return doc + []string{"x", "}", "]", ",", "{}"}[r.Intn(5)]
	}
}

// ---- reference decoder: encoding/json on the model types
func refDecode(doc []byte) (model.Value, error) {
	var v struct {
		Type   model.ValueType `json:"resultType"`
		Result json.RawMessage `json:"result"`
	}
	if err := json.Unmarshal(doc, &v); err != nil {
		return nil, err
	}
	switch v.Type {
	case model.ValScalar:
		var s model.Scalar
		err := json.Unmarshal(v.Result, &s)
		return &s, err
	case model.ValVector:
		var vv model.Vector
		err := json.Unmarshal(v.Result, &vv)
		return vv, err
	case model.ValMatrix:
		var m model.Matrix
		err := json.Unmarshal(v.Result, &m)
		return m, err
	}
	return nil, fmt.Errorf("unexpected value type %q", v.Type)
}

func fb(f float64) string {
	if f != f {
		return "NaN"
	}
	return strconv.FormatUint(math.Float64bits(f), 16)
}

func canonMetric(m model.Metric) string {
	if m == nil {
		return "{}"
	}
	ks := make([]string, 0, len(m))
	for k := range m {
		ks = append(ks, string(k))
	}
	sort.Strings(ks)
	var sb strings.Builder
	sb.WriteString("{")
	for _, k := range ks {
		sb.WriteString(strconv.Quote(k) + "=" + strconv.Quote(string(m[model.LabelName(k)])) + ",")
	}
	sb.WriteString("}")
	return sb.String()
}

func canonHist(h *model.SampleHistogram) string {
	if h == nil {
		return "nil"
	}
	var sb strings.Builder
	sb.WriteString("H(" + fb(float64(h.Count)) + "," + fb(float64(h.Sum)) + ";")
	for _, b := range h.Buckets {
		if b == nil {
			sb.WriteString("nil;")
			continue
		}
		fmt.Fprintf(&sb, "%d,%s,%s,%s;", b.Boundaries, fb(float64(b.Lower)), fb(float64(b.Upper)), fb(float64(b.Count)))
	}
	sb.WriteString(")")
	return sb.String()
}

func canonValue(v model.Value) string {
	var sb strings.Builder
	switch x := v.(type) {
	case nil:
		return "nil"
	case *model.Scalar:
		if x == nil {
			return "nil"
		}
		fmt.Fprintf(&sb, "S %d %s", int64(x.Timestamp), fb(float64(x.Value)))
	case model.Vector:
		sb.WriteString("V ")
		for _, s := range x {
			if s == nil {
				sb.WriteString("nil|")
				continue
			}
			fmt.Fprintf(&sb, "%s %d %s %s|", canonMetric(s.Metric), int64(s.Timestamp), fb(float64(s.Value)), canonHist(s.Histogram))
		}
	case model.Matrix:
		sb.WriteString("M ")
		for _, s := range x {
			if s == nil {
				sb.WriteString("nil|")
				continue
			}
			sb.WriteString(canonMetric(s.Metric) + " [")
			for _, p := range s.Values {
				fmt.Fprintf(&sb, "%d:%s,", int64(p.Timestamp), fb(float64(p.Value)))
			}
			sb.WriteString("] [")
			for _, p := range s.Histograms {
				fmt.Fprintf(&sb, "%d:%s,", int64(p.Timestamp), canonHist(p.Histogram))
			}
			sb.WriteString("]|")
		}
	default:
		return fmt.Sprintf("other %T", v)
	}
	return sb.String()
}

// differences that are known and harmless on the unchanged tree (see checks/C16.json)
func benignImplOnlyReject(muts []string) bool {
	for _, m := range muts {
		if m == "hist-unknown-key" {
			return true
		}
	}
	return false
}

func short(s string) string {
	if len(s) > 300 {
		return s[:300] + "..."
	}
	return s
}

// decode a document through API.Query / API.QueryRange against the test server
func (rn *runner) apiDecode(doc string, ranged bool) (model.Value, error, []string) {
	body := []byte(`{"status":"success","data":` + doc + `}`)
	tag := 8
	if ranged {
		tag = 9
	}
	behs := []gbeh{{kind: behResp, code: 200, body: body}}
	ctx, cancel := context.WithCancel(context.Background())
	defer cancel()
	st := &callState{behs: behs, cancel: cancel, reached: make(chan struct{}, 1)}
	rn.p.cur.Store(st)
	a := rn.realAPI[""]
	type ret struct {
		v     model.Value
		err   error
		panic interface{}
	}
	ch := make(chan ret, 1)
	go func() {
		defer func() {
			if x := recover(); x != nil {
				ch <- ret{panic: x}
			}
		}()
		var v model.Value
		var err error
		if tag == 8 {
			v, _, err = a.Query(ctx, "up", time.Unix(1, 0))
		} else {
			v, _, err = a.QueryRange(ctx, "up", v1.Range{Start: time.Unix(1, 0), End: time.Unix(2, 0), Step: time.Second})
		}
		ch <- ret{v: v, err: err}
	}()
	select {
	case r := <-ch:
		if r.panic != nil {
			return nil, fmt.Errorf("panic"), []string{fmt.Sprintf("panic while decoding: %v", r.panic)}
		}
		return r.v, r.err, nil
	case <-time.After(20 * time.Second):
		return nil, fmt.Errorf("blocked"), []string{"decoding did not return within 20 s"}
	}
}

func runJSON(c *cli.Ctx, rn *runner, r *emit.Rng) error {
	w := emit.NewWriter(c.Out, "C16", "json")
	w.Extra["no_model"] = true
	var fails []failure
	stats := map[string]int{}
	n := 2400 * c.Scale
	for i := 0; i < n; i++ {
		g := &jgen{r: r, target: -1}
		mode := "grammar"
		switch {
		case i%3 == 1:
			mode = "mutated"
		case i%9 == 2:
			mode = "damaged"
		}
		var doc, kind string
		if mode == "mutated" {
			saved := *r
			probe := &jgen{r: &saved, target: -1}
			probe.doc()
			again := *r
			g = &jgen{r: &again, target: r.Intn(probe.seen)}
			doc, kind = g.doc()
		} else {
			doc, kind = g.doc()
		}
		if mode == "damaged" {
			doc = g.damage(doc)
		}
		if mode == "mutated" && len(g.muts) == 0 {
			mode = "grammar"
		}
		iv, ierr, direct := rn.apiDecode(doc, i%2 == 1)
		for _, d := range direct {
			fails = append(fails, failure{"index": w.Len(), "what": d, "document": short(doc)})
		}
		rv, rerr := refDecode([]byte(doc))
		valid := json.Valid([]byte(doc))
		tags := []string{"doc/" + mode, "kind/" + kind}
		if !utf8.ValidString(doc) {
			// damaged in the middle of a multi-byte character: jsoniter keeps the bytes, encoding/json substitutes U+FFFD;
			// only "no panic, no hang" is checked for such text
			tags = append(tags, "doc/invalid-utf8")
			w.Add(emit.C(2, emit.S(doc)), true, tags...)
			continue
		}
		for _, m := range g.muts {
			tags = append(tags, "mutation/"+m)
		}
		verdict := ""
		switch {
		case ierr == nil && rerr == nil:
			tags = append(tags, "outcome/both-accept")
			if a, b := canonValue(iv), canonValue(rv); a != b {
				verdict = "decoded values differ: api=" + short(a) + " reference=" + short(b)
			}
		case ierr != nil && rerr != nil:
			tags = append(tags, "outcome/both-reject")
		case ierr == nil && rerr != nil:
			tags = append(tags, "outcome/api-only-accepts")
			if !valid {
				verdict = "text that is not JSON was decoded without an error"
			} else {
				verdict = "the API accepted a document the reference decoder rejects (" + short(rerr.Error()) + "): value " + short(canonValue(iv))
			}
		default:
			tags = append(tags, "outcome/api-only-rejects")
			if mode == "grammar" {
				verdict = "a document of the model grammar was rejected: " + short(ierr.Error())
			} else if !benignImplOnlyReject(g.muts) {
				stats["api-only-rejects-mutated"]++
			}
		}
		if verdict != "" {
			fails = append(fails, failure{"index": w.Len(), "what": verdict, "document": short(doc), "mutations": strings.Join(g.muts, ",")})
		}
		w.Add(emit.C(2, emit.S(doc)), mode != "grammar" || kind == "matrix", tags...)
	}
	runRules(rn, r, w, &fails, c.Scale)
	if len(fails) > 0 {
		w.Extra["direct_failures"] = fails
	}
	w.Extra["one_sided_rejections_of_mutated_documents_not_counted_as_failures"] = stats["api-only-rejects-mutated"]
	if err := w.Flush(); err != nil {
		return err
	}
	return runSuspected(c, rn)
}

// suspected findings in the hand-written codecs: reproduced only in streams named known-<key>, and only when
// known_findings.txt lists the key (the check treats an unlisted known- stream as an ordinary one)
var suspected = []struct{ key, what string; docs []string }{
	{"bucket-boundaries-int32", "a histogram bucket whose boundaries number does not fit int32 is decoded with the value wrapped instead of an error",
		[]string{`{"resultType":"matrix","result":[{"metric":{},"histograms":[[1,{"count":"1","sum":"1","buckets":[[4294967296,"0","1","1"]]}]]}]}`,
			`{"resultType":"matrix","result":[{"metric":{},"histograms":[[1,{"count":"1","sum":"1","buckets":[[2147483648,"0","1","1"]]}]]}]}`}},
	{"histogram-null", "a histogram sample [t, null] is decoded as an empty histogram instead of an error",
		[]string{`{"resultType":"matrix","result":[{"metric":{},"histograms":[[1,null]]}]}`}},
}

func knownListed(key string) bool {
	home := os.Getenv("VERIF_HOME")
	if home == "" {
		home = "/verif"
	}
	b, err := os.ReadFile(home + "/known_findings.txt")
	if err != nil {
		return false
	}
	for _, line := range strings.Split(string(b), "\n") {
		if strings.HasPrefix(line, "known:") && strings.Contains(line, "property=C16") && strings.Contains(line, "key="+key+" ") {
			return true
		}
	}
	return false
}

func runSuspected(c *cli.Ctx, rn *runner) error {
	for _, s := range suspected {
		if !knownListed(s.key) {
			continue
		}
		w := emit.NewWriter(c.Out, "C16", "known-"+s.key)
		w.Extra["no_model"] = true
		var fails []failure
		for _, doc := range s.docs {
			iv, ierr, _ := rn.apiDecode(doc, false)
			_, rerr := refDecode([]byte(doc))
			if ierr == nil && rerr != nil {
				fails = append(fails, failure{"index": w.Len(), "what": s.what + ": " + short(canonValue(iv)), "document": doc})
			}
			w.Add(emit.C(2, emit.S(doc)), true, "known/"+s.key)
		}
		if len(fails) > 0 {
			w.Extra["direct_failures"] = fails
		}
		if err := w.Flush(); err != nil {
			return err
		}
	}
	return nil
}

// ---- rule groups: documents with known content, decoded through API.Rules
type grule struct {
	alerting            bool
	name, query, health string
	duration, evalTime  float64
	lastError           string
	labels              map[string]string
	typ                 string // possibly damaged
}

func runRules(rn *runner, r *emit.Rng, w *emit.Writer, fails *[]failure, scale int) {
	for i := 0; i < 160*scale; i++ {
		ng := r.Intn(3)
		type ggroup struct {
			name, file string
			interval   float64
			rules      []grule
		}
		var groups []ggroup
		expectErr := false
		var parts []string
		for gi := 0; gi < ng; gi++ {
			gr := ggroup{name: pick(r, textPool), file: "/etc/r" + strconv.Itoa(r.Intn(9)) + ".yml", interval: float64(r.Intn(600)) / 4}
			var rparts []string
			for ri := r.Intn(4); ri > 0; ri-- {
				ru := grule{alerting: r.Bool(), name: pick(r, lnPool), query: pick(r, textPool), health: []string{"ok", "err", "unknown"}[r.Intn(3)],
					duration: float64(r.Intn(1000)) / 8, evalTime: float64(r.Intn(1000)) / 1024, labels: map[string]string{}}
				if r.Bool() {
					ru.lastError = "boom"
				}
				if r.Bool() {
					ru.labels["severity"] = pick(r, lvPool)
				}
				ru.typ = "recording"
				if ru.alerting {
					ru.typ = "alerting"
				}
				if i%4 == 3 && r.Chance(1, 3) {
					ru.typ = []string{"", "other", "Alerting"}[r.Intn(3)]
					expectErr = true
				}
				lb, _ := json.Marshal(ru.labels)
				var f []string
				if ru.typ != "" || r.Bool() {
					f = append(f, `"type":`+jstr(ru.typ))
				}
				f = append(f, `"name":`+jstr(ru.name), `"query":`+jstr(ru.query), `"health":`+jstr(ru.health), `"labels":`+string(lb),
					`"evaluationTime":`+strconv.FormatFloat(ru.evalTime, 'g', -1, 64), `"lastEvaluation":"2024-01-02T03:04:05.678Z"`)
				if i%4 == 1 && r.Chance(1, 3) {
					// a field of the wrong JSON type: the rule decodes neither as alerting nor as recording
					bad := []string{`"name":7`, `"query":["q"]`, `"health":7`, `"labels":["l"]`, `"labels":{"a":1}`, `"evaluationTime":"fast"`,
						`"lastEvaluation":"yesterday"`, `"lastEvaluation":7`, `"lastError":{}`, `"name":{}`, `"query":true`}
					k := r.Intn(len(bad))
					key := bad[k][:strings.Index(bad[k], ":")+1]
					for fi := range f {
						if strings.HasPrefix(f[fi], key) {
							f[fi] = bad[k]
						}
					}
					if key == `"lastError":` {
						f = append(f, bad[k])
					}
					expectErr = true
					ru.lastError = "" // already emitted (or replaced) above
				}
				if ru.lastError != "" {
					f = append(f, `"lastError":`+jstr(ru.lastError))
				}
				if ru.alerting {
					f = append(f, `"duration":`+strconv.FormatFloat(ru.duration, 'g', -1, 64), `"annotations":{}`, `"alerts":[]`, `"state":"inactive"`)
				}
				for k := len(f) - 1; k > 0; k-- {
					j := r.Intn(k + 1)
					f[k], f[j] = f[j], f[k]
				}
				if i%16 == 7 && r.Bool() {
					// the type given twice, the second time with the wrong JSON type
					f = append(f, `"type":5`)
					expectErr = true
				}
				rparts = append(rparts, "{"+strings.Join(f, ",")+"}")
				gr.rules = append(gr.rules, ru)
			}
			gname, gfile, gint, grules := jstr(gr.name), jstr(gr.file), strconv.FormatFloat(gr.interval, 'g', -1, 64), "["+strings.Join(rparts, ",")+"]"
			if i%8 == 5 && r.Chance(1, 2) {
				// a group field of the wrong JSON type
				switch r.Intn(5) {
				case 0:
					gname = "7"
				case 1:
					gfile = `["f"]`
				case 2:
					gint = `"often"`
				case 3:
					grules = `{"r":1}`
				default:
					grules = `"rules"`
				}
				expectErr = true
			}
			parts = append(parts, `{"name":`+gname+`,"file":`+gfile+`,"interval":`+gint+`,"rules":`+grules+`}`)
			groups = append(groups, gr)
		}
		doc := `{"groups":[` + strings.Join(parts, ",") + `]}`
		body := []byte(`{"status":"success","data":` + doc + `}`)
		ctx, cancel := context.WithCancel(context.Background())
		st := &callState{behs: []gbeh{{kind: behResp, code: 200, body: body}}, cancel: cancel, reached: make(chan struct{}, 1)}
		rn.p.cur.Store(st)
		res, err := func() (res v1.RulesResult, err error) {
			defer func() {
				if x := recover(); x != nil {
					err = fmt.Errorf("panic: %v", x)
					*fails = append(*fails, failure{"index": w.Len(), "what": err.Error(), "document": short(doc)})
				}
			}()
			return rn.realAPI[""].Rules(ctx)
		}()
		cancel()
		what := ""
		switch {
		case expectErr && err == nil:
			what = "a rules document with a rule of no valid type or with a field of the wrong JSON type was decoded without an error"
		case !expectErr && err != nil:
			what = "a valid rules document was rejected: " + err.Error()
		case !expectErr:
			if len(res.Groups) != len(groups) {
				what = "number of groups differs"
			}
			for gi := 0; what == "" && gi < len(groups); gi++ {
				g, e := res.Groups[gi], groups[gi]
				if g.Name != e.name || g.File != e.file || g.Interval != e.interval || len(g.Rules) != len(e.rules) {
					what = fmt.Sprintf("group %d differs", gi)
					break
				}
				for ri, er := range e.rules {
					switch x := g.Rules[ri].(type) {
					case v1.AlertingRule:
						if !er.alerting || x.Name != er.name || x.Query != er.query || string(x.Health) != er.health || x.Duration != er.duration ||
							x.EvaluationTime != er.evalTime || x.LastError != er.lastError || string(x.Labels["severity"]) != er.labels["severity"] || x.State != "inactive" {
							what = fmt.Sprintf("alerting rule %d/%d differs", gi, ri)
						}
					case v1.RecordingRule:
						if er.alerting || x.Name != er.name || x.Query != er.query || string(x.Health) != er.health ||
							x.EvaluationTime != er.evalTime || x.LastError != er.lastError || string(x.Labels["severity"]) != er.labels["severity"] {
							what = fmt.Sprintf("recording rule %d/%d differs", gi, ri)
						}
					default:
						what = fmt.Sprintf("rule %d/%d has type %T", gi, ri, x)
					}
				}
			}
		}
		if what != "" {
			*fails = append(*fails, failure{"index": w.Len(), "what": what, "document": short(doc)})
		}
		tag := "rules/valid"
		if expectErr {
			tag = "rules/bad-type"
		}
		w.Add(emit.C(3, emit.S(doc)), ng > 0, tag)
	}
}
