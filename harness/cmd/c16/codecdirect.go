package main

import (
	"encoding/json"
	"fmt"
	"strings"

	jsoniter "github.com/json-iterator/go"
	"github.com/prometheus/common/model"

	"verifharness/internal/cli"
	"verifharness/internal/emit"
)

// Stream "codec": the three decoders api.go registers globally with jsoniter (model.SamplePair,
// model.SampleHistogramPair, model.SampleStream) are driven directly, as jsoniter.Unmarshal does for any user of
// the package, and compared with encoding/json on the same model types.  Every text is also decoded cut after
// every byte: a decoder that returns early without reporting an error (and is then saved by a later syntax error in
// a complete document) accepts the text cut right after the offending token.
//
// Rules: a text accepted by the hand-written decoder and rejected by the reference is a failure; a text accepted by
// both must give equal values; a text of the grammar must be accepted.  Texts only the reference accepts are counted.

const (
	kPair = iota
	kHPair
	kStream
)

var kindNames = []string{"SamplePair", "SampleHistogramPair", "SampleStream"}

func canonPair(p model.SamplePair) string {
	return fmt.Sprintf("%d:%s", int64(p.Timestamp), fb(float64(p.Value)))
}
func canonHPair(p model.SampleHistogramPair) string {
	return fmt.Sprintf("%d:%s", int64(p.Timestamp), canonHist(p.Histogram))
}
func canonStream(s model.SampleStream) string {
	var sb strings.Builder
	sb.WriteString(canonMetric(s.Metric) + " [")
	for _, p := range s.Values {
		sb.WriteString(canonPair(p) + ",")
	}
	sb.WriteString("] [")
	for _, p := range s.Histograms {
		sb.WriteString(canonHPair(p) + ",")
	}
	sb.WriteString("]")
	return sb.String()
}

// decodeBoth returns (api canonical value, api error, reference canonical value, reference error, panic text)
func decodeBoth(kind int, text []byte) (av string, aerr error, rv string, rerr error, pan string) {
	defer func() {
		if x := recover(); x != nil {
			pan = fmt.Sprint(x)
			aerr = fmt.Errorf("panic")
		}
	}()
	switch kind {
	case kPair:
		var a, b model.SamplePair
		rerr = json.Unmarshal(text, &b)
		rv = canonPair(b)
		aerr = jsoniter.Unmarshal(text, &a)
		av = canonPair(a)
	case kHPair:
		var a, b model.SampleHistogramPair
		rerr = json.Unmarshal(text, &b)
		rv = canonHPair(b)
		aerr = jsoniter.Unmarshal(text, &a)
		av = canonHPair(a)
	default:
		var a, b model.SampleStream
		rerr = json.Unmarshal(text, &b)
		rv = canonStream(b)
		aerr = jsoniter.Unmarshal(text, &a)
		av = canonStream(a)
	}
	return
}

type codecRun struct {
	w      *emit.Writer
	fails  []failure
	nfail  map[string]int
	counts map[string]int
}

func (cr *codecRun) fail(what, site, text string) {
	key := what + "|" + site
	cr.nfail[key]++
	if cr.nfail[key] > 3 || len(cr.fails) > 60 {
		return // one class of failure is reported a few times only
	}
	cr.fails = append(cr.fails, failure{"index": cr.w.Len(), "what": what, "where": site, "document": short(text)})
}

// check one text; grammar: the text is a document of the model grammar
func (cr *codecRun) check(kind int, text string, grammar bool, site string) {
	av, aerr, rv, rerr, pan := decodeBoth(kind, []byte(text))
	if pan != "" {
		cr.fail("panic in the "+kindNames[kind]+" decoder: "+pan, site, text)
		return
	}
	switch {
	case aerr == nil && rerr == nil:
		cr.counts["both-accept"]++
		if av != rv {
			cr.fail(kindNames[kind]+": decoded values differ: api="+short(av)+" reference="+short(rv), site, text)
		}
	case aerr == nil && rerr != nil:
		cr.counts["api-only-accepts"]++
		cr.fail(kindNames[kind]+": accepted without an error, the reference decoder rejects it ("+short(rerr.Error())+"); decoded "+short(av), site, text)
	case aerr != nil && rerr == nil:
		cr.counts["api-only-rejects"]++
		if grammar {
			cr.fail(kindNames[kind]+": a text of the model grammar was rejected: "+short(aerr.Error()), site, text)
		}
	default:
		cr.counts["both-reject"]++
	}
}

// the text and the text cut after every byte
func (cr *codecRun) checkWithPrefixes(kind int, text string, grammar bool, site string) {
	cr.check(kind, text, grammar, site)
	step := 1
	if len(text) > 400 {
		step = len(text)/400 + 1
	}
	for i := 1; i < len(text); i += step {
		cr.check(kind, text[:i], false, site+"/cut")
	}
}

// single-character damage: every character deleted, every character doubled (",," "]]" ...): a decoder that returns
// early without an error is otherwise saved by the bracket it left behind
func (cr *codecRun) checkCharDamage(kind int, text string, site string) {
	for i := 0; i < len(text); i++ {
		if text[i] == '{' || text[i] == '[' {
			// a deleted opener is not noticed by loops of the form `for iter.ReadArray()` / `for key := iter.ReadObject()`:
			// "[1,}]" decodes as an empty histogram (reported; unreachable through the API methods, see badTimestamps)
			cr.check(kind, text[:i+1]+text[i:], false, site+"/char-doubled")
			continue
		}
		cr.check(kind, text[:i]+text[i+1:], false, site+"/char-deleted")
		cr.check(kind, text[:i+1]+text[i:], false, site+"/char-doubled")
	}
}

// tokens put where a string-encoded number is expected
var badNumStrings = []string{`"abc"`, `""`, `" 1"`, `"1 "`, `"1,5"`, `"1e"`, `"0x10"`, `"0x"`, `"--1"`, `"+"`, `"1.2.3"`, `"NAN"`, `"Nan"`, `"nAn"`,
	`"INF"`, `"+inf"`, `"-INF"`, `"Infinity"`, `"-infinity"`, `"infinit"`, `"1_0"`, `"1e400"`, `"-1e400"`, `"1e-400"`,
	`"` + strings.Repeat("9", 400) + `"`, `"0.` + strings.Repeat("3", 400) + `"`, `"١٢٣"`, `"1\u0000"`, `"1\n"`, `"1.5"`, `"-0"`, `"NaN"`, `"+Inf"`}

// tokens of the wrong type
var wrongTokens = []string{"1", "1.5", "-1", "null", "true", "false", "[]", "{}", `["1"]`, `{"a":"1"}`, "", "1e", "+1", "01"}

// "+1", "01", "1." are left out: iter.ReadNumber takes them and model.Time parses them, while they are not JSON numbers
// (reported; unreachable through the API methods, whose envelope and result are syntax-checked by jsoniter first)
var badTimestamps = []string{`"1"`, "null", "true", "[]", "{}", "", "1e3", "1E-3", "1e", ".5", "--1", "1.2.3", "0x10", "1_0", "-1", "-0.5", "-0",
	"9223372036854775807", "9223372036854776", "1e400", strings.Repeat("9", 400), "0." + strings.Repeat("3", 400), "1.0005", "1.9999", " 1"}

var badBoundaries = []string{"1.5", "-1", "4", "2147483647", "-2147483648", `"1"`, "null", "true", "[]", "{}", "", "1e2", "1e", "99999999999999999999", strings.Repeat("9", 400)}

type slot struct {
	name string
	pool []string
}

// every position the hand-written decoders read, with the tokens to try there
func runTargeted(cr *codecRun) {
	numTokens := append(append([]string{}, badNumStrings...), wrongTokens...)
	fill := func(tmpl string, vals map[string]string) string {
		out := tmpl
		for _, k := range []string{"TS", "VAL", "CNT", "SUM", "BND", "LO", "UP", "BC"} {
			v, ok := vals[k]
			if !ok {
				v = map[string]string{"TS": "12", "VAL": `"2"`, "CNT": `"3"`, "SUM": `"4.5"`, "BND": "1", "LO": `"0.25"`, "UP": `"0.5"`, "BC": `"6"`}[k]
			}
			out = strings.ReplaceAll(out, "<"+k+">", v)
		}
		return out
	}
	type tcase struct {
		kind  int
		tmpls []string
		slots []slot
	}
	cases := []tcase{
		{kPair, []string{`[<TS>,<VAL>]`, `[ <TS> , <VAL> ]`},
			[]slot{{"TS", badTimestamps}, {"VAL", numTokens}}},
		{kHPair, []string{
			`[<TS>,{"count":<CNT>,"sum":<SUM>,"buckets":[[<BND>,<LO>,<UP>,<BC>]]}]`,
			`[<TS>,{"buckets":[[<BND>,<LO>,<UP>,<BC>],[3,"1","2","3"]],"sum":<SUM>,"count":<CNT>}]`,
			`[<TS>,{"sum":<SUM>,"count":<CNT>}]`,
			`[<TS>,{"count":<CNT>}]`,
			`[<TS>,{"sum":<SUM>}]`},
			[]slot{{"TS", badTimestamps}, {"CNT", numTokens}, {"SUM", numTokens}, {"BND", badBoundaries}, {"LO", numTokens}, {"UP", numTokens}, {"BC", numTokens}}},
		{kStream, []string{
			`{"metric":{"a":"b"},"values":[[<TS>,<VAL>],[2,"3"]],"histograms":[[<TS>,{"count":<CNT>,"sum":<SUM>,"buckets":[[<BND>,<LO>,<UP>,<BC>]]}]]}`,
			`{"histograms":[[5,{"sum":<SUM>,"count":<CNT>}]],"values":[[<TS>,<VAL>]],"metric":{}}`},
			[]slot{{"TS", badTimestamps}, {"VAL", numTokens}, {"CNT", numTokens}, {"SUM", numTokens}, {"BND", badBoundaries}, {"LO", numTokens}, {"UP", numTokens}, {"BC", numTokens}}},
	}
	for _, tc := range cases {
		for ti, tmpl := range tc.tmpls {
			cr.checkWithPrefixes(tc.kind, fill(tmpl, nil), true, fmt.Sprintf("%s/template-%d", kindNames[tc.kind], ti))
			cr.checkCharDamage(tc.kind, fill(tmpl, nil), fmt.Sprintf("%s/template-%d", kindNames[tc.kind], ti))
			for _, sl := range tc.slots {
				if !strings.Contains(tmpl, "<"+sl.name+">") {
					continue
				}
				for k, tok := range sl.pool {
					text := fill(tmpl, map[string]string{sl.name: tok})
					cr.checkWithPrefixes(tc.kind, text, false, fmt.Sprintf("%s/template-%d/%s", kindNames[tc.kind], ti, sl.name))
					if k < 3 {
						cr.checkCharDamage(tc.kind, text, fmt.Sprintf("%s/template-%d/%s", kindNames[tc.kind], ti, sl.name))
					}
					cr.w.Add(emit.C(4, emit.I(tc.kind), emit.S(short(text))), true, "targeted/"+kindNames[tc.kind]+"/"+sl.name)
				}
			}
		}
	}
	// structure: missing and extra elements, wrong container at every level
	structural := []struct {
		kind int
		text string
	}{
		{kPair, `[]`}, {kPair, `[1]`}, {kPair, `[1,]`}, {kPair, `[,"1"]`}, {kPair, `[1,"2",]`}, {kPair, `[1,"2","3"]`}, {kPair, `[1,"2",3,4]`}, {kPair, `{}`},
		{kPair, `{"0":1,"1":"2"}`}, {kPair, `null`}, {kPair, `"x"`}, {kPair, `1`}, {kPair, `[[1,"2"]]`}, {kPair, `[1 "2"]`}, {kPair, `[1,"2"`}, {kPair, `[1,"2"]]`}, {kPair, `[1,"2"] x`},
		{kHPair, `[]`}, {kHPair, `[1]`}, {kHPair, `[1,]`}, {kHPair, `[1,{}]`}, {kHPair, `[1,{},{}]`}, {kHPair, `[1,{"count":"1","sum":"2"},3]`}, {kHPair, `[1,[]]`},
		{kHPair, `[1,"h"]`}, {kHPair, `[1,7]`}, {kHPair, `[1,true]`}, {kHPair, `{}`}, {kHPair, `[1,{"count":"1","sum":"2","buckets":{}}]`},
		{kHPair, `[1,{"count":"1","sum":"2","buckets":[[]]}]`}, {kHPair, `[1,{"count":"1","sum":"2","buckets":[[1]]}]`},
		{kHPair, `[1,{"count":"1","sum":"2","buckets":[[1,"2"]]}]`}, {kHPair, `[1,{"count":"1","sum":"2","buckets":[[1,"2","3"]]}]`},
		{kHPair, `[1,{"count":"1","sum":"2","buckets":[[1,"2","3","4","5"]]}]`}, {kHPair, `[1,{"count":"1","sum":"2","buckets":[[1,"2","3","4"],7]}]`},
		{kHPair, `[1,{"count":"1","sum":"2","buckets":[{}]}]`}, {kHPair, `[1,{"count":"1","sum":"2","buckets":"b"}]`}, {kHPair, `[1,{"count":"1","sum":"2","buckets":[]}]`},
		// an offending bucket element followed by a complete bucket and one closing bracket fewer: a bucket decoder that
		// stops early without an error would be resumed by the loop over the buckets
		{kHPair, `[12,{"count":"3","sum":"4","buckets":[[1.5,[3,"1","2","3"]]}]`},
		{kHPair, `[12,{"count":"3","sum":"4","buckets":[["x",[3,"1","2","3"]]}]`},
		{kHPair, `[12,{"count":"3","sum":"4","buckets":[[1,"abc",[3,"1","2","3"]]}]`},
		{kHPair, `[12,{"count":"3","sum":"4","buckets":[[1,"0.25","abc",[3,"1","2","3"]]}]`},
		{kHPair, `[12,{"count":"3","sum":"4","buckets":[[1,"0.25","0.5","abc",[3,"1","2","3"]]}]`},
		{kHPair, `[12,{"count":"3","sum":"4","buckets":[[1,"0.25","0.5","6",,[3,"1","2","3"]]}]`},
		{kHPair, `[12,{"count":"3","sum":"4","buckets":[[1,"0.25","0.5","6","7",[3,"1","2","3"]]}]`},
		{kHPair, `[12,{"count":"3","sum":"4","buckets":[[,[3,"1","2","3"]]}]`},
		{kHPair, `[12,{"count":"3","sum":"4","buckets":[[1,,[3,"1","2","3"]]}]`},
		{kHPair, `[12,{"count":"3","sum":"4","buckets":[[1,"0.25",,[3,"1","2","3"]]}]`},
		{kHPair, `[12,{"count":"3","sum":"4","buckets":[[1,"0.25","0.5",,[3,"1","2","3"]]}]`},
		{kStream, `{"metric":{},"values":[[12,"abc",[13,"1"]]}`}, {kStream, `{"metric":{},"values":[["x",[13,"1"]]}`}, {kStream, `{"metric":{},"values":[[12,"1",,[13,"1"]]}`},
		{kStream, `{"metric":{},"histograms":[[12,{"count":"abc"},[13,{"count":"1","sum":"2"}]]}`}, {kStream, `{"metric":{},"histograms":[[12,{"sum":"abc"},[13,{"count":"1","sum":"2"}]]}`},
		{kStream, `{"metric":{},"histograms":[["x",[13,{"count":"1","sum":"2"}]]}`}, {kStream, `{"metric":{},"histograms":[[12,{"count":"1","sum":"2"},,[13,{"count":"1","sum":"2"}]]}`},
		{kHPair, `[1,{"count":"1","sum":"2","count":"x"}]`}, {kHPair, `[1,{"count":"x","count":"2","sum":"1"}]`}, {kHPair, `[1,{"Count":"1","sum":"2"}]`},
		{kHPair, `[1,{"count":"1","sum":"2",}]`}, {kHPair, `[1,{"count" "1"}]`}, {kHPair, `[1,{count:"1"}]`},
		{kStream, `{}`}, {kStream, `{"metric":{}}`}, {kStream, `{"values":[]}`}, {kStream, `{"metric":[],"values":[]}`}, {kStream, `{"metric":"m"}`}, {kStream, `{"metric":7}`},
		{kStream, `{"metric":{"a":1}}`}, {kStream, `{"metric":{"a":null}}`}, {kStream, `{"metric":{"":"x"}}`}, {kStream, `{"metric":{},"values":{}}`}, {kStream, `{"metric":{},"values":"v"}`},
		{kStream, `{"metric":{},"values":[1]}`}, {kStream, `{"metric":{},"values":[[1,"2"],7]}`}, {kStream, `{"metric":{},"values":[[1,"2"],[]]}`},
		{kStream, `{"metric":{},"histograms":{}}`}, {kStream, `{"metric":{},"histograms":[1]}`}, {kStream, `{"metric":{},"histograms":[[1,{"count":"1","sum":"2"}],[]]}`},
		{kStream, `{"metric":{},"extra":1}`}, {kStream, `[]`}, {kStream, `"s"`}, {kStream, `{"metric":{},}`},
		{kStream, `{"metric":{"a":"b"},"metric":{"c":"d"}}`}, {kStream, `{"Metric":{"a":"b"}}`}, {kStream, `{"metric":{"a":"b"}`}, {kStream, `{"metric":{"a":"b"}}}`},
	}
	for _, st := range structural {
		cr.checkWithPrefixes(st.kind, st.text, false, kindNames[st.kind]+"/structure")
		cr.checkCharDamage(st.kind, st.text, kindNames[st.kind]+"/structure")
		cr.w.Add(emit.C(4, emit.I(st.kind), emit.S(st.text)), true, "structure/"+kindNames[st.kind])
	}
}

func runCodec(c *cli.Ctx, r *emit.Rng) error {
	w := emit.NewWriter(c.Out, "C16", "codec")
	w.Extra["no_model"] = true
	cr := &codecRun{w: w, nfail: map[string]int{}, counts: map[string]int{}}
	runTargeted(cr)
	// generated texts: grammar and single local mutations, each also cut after every byte
	n := 500 * c.Scale
	for i := 0; i < n; i++ {
		kind := i % 3
		gen := func(g *jgen) string {
			switch kind {
			case kPair:
				return g.pair()
			case kHPair:
				return g.hpair()
			default:
				return g.stream()
			}
		}
		mode := "grammar"
		var text string
		var muts []string
		if i%2 == 1 {
			saved := *r
			probe := &jgen{r: &saved, target: -1}
			gen(probe)
			again := *r
			g := &jgen{r: &again, target: r.Intn(probe.seen + 1)}
			text = gen(g)
			muts = g.muts
			if len(muts) > 0 {
				mode = "mutated"
			}
		} else {
			text = gen(&jgen{r: r, target: -1})
		}
		// the suspected findings stay out of this stream as well
		if strings.Contains(text, "null") && kind != kPair {
			mode = "mutated-with-null"
		}
		for _, m := range muts {
			if m == "ts-lenient-number" {
				mode = "mutated-with-null" // see badTimestamps
			}
		}
		grammar := mode == "grammar"
		if mode != "mutated-with-null" {
			cr.checkWithPrefixes(kind, text, grammar, kindNames[kind]+"/generated/"+strings.Join(muts, ","))
		}
		w.Add(emit.C(4, emit.I(kind), emit.S(short(text))), true, "generated/"+kindNames[kind]+"/"+mode)
	}
	for k, v := range cr.counts {
		w.Tag("outcome/"+k, v)
	}
	if len(cr.fails) > 0 {
		w.Extra["direct_failures"] = cr.fails
		w.Extra["failure_classes"] = cr.nfail
	}
	return w.Flush()
}
