package main

import (
	"fmt"

	"github.com/prometheus/client_golang/prometheus"
)

func try(name string, f func()) {
	defer func() {
		if r := recover(); r != nil {
			fmt.Println(name, "PANIC:", r)
		}
	}()
	f()
}

func main() {
	id := func(s string) string { return s }
	cv := prometheus.V2.NewCounterVec(prometheus.CounterVecOpts{
		CounterOpts:    prometheus.CounterOpts{Name: "m", Help: "h"},
		VariableLabels: prometheus.ConstrainedLabels{{Name: "a", Constraint: id}, {Name: "b"}, {Name: "c"}},
	})
	cur, err := cv.CurryWith(prometheus.Labels{"c": "x"})
	fmt.Println("curry err", err)
	try("get0", func() { _, err := cur.GetMetricWithLabelValues(); fmt.Println("get0 err:", err) })
	try("get1", func() { _, err := cur.GetMetricWithLabelValues("1"); fmt.Println("get1 err:", err) })
	try("del0", func() { fmt.Println("del0:", cur.DeleteLabelValues()) })
	cur2, err := cv.CurryWith(prometheus.Labels{"a": "\xff"})
	fmt.Println("curry invalid utf8 err", err)
	c, err := cur2.GetMetricWithLabelValues("1", "2")
	fmt.Println(c != nil, err)
	reg := prometheus.NewRegistry()
	reg.MustRegister(cv)
	_, err = reg.Gather()
	fmt.Println("gather err:", err)
}
