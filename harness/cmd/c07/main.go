package main

import (
	"fmt"
	"runtime"
	"sort"
	"strings"
	"sync"
	"time"
	"unicode/utf8"

	"github.com/prometheus/client_golang/prometheus"
	dto "github.com/prometheus/client_model/go"

	"verifharness/internal/cli"
	"verifharness/internal/emit"
)

// C07: metric vectors (vec.go) -- lookups, deletions, currying, collection, hash collisions, constraints.
// Wire format: see coq/theories/Run/C07_run.v.
//   (0 hmode names conscodes ops results) | (1 tuples children) | (2 bytes valid)

func main() { cli.Main("C07", runC07) }

// ---------------------------------------------------------------------------------------------
// adapter over the four vector types
// ---------------------------------------------------------------------------------------------

type adapter struct {
	getLV      func(lvs []string) (prometheus.Metric, error)
	withLV     func(lvs []string) prometheus.Metric
	getL       func(l prometheus.Labels) (prometheus.Metric, error)
	withL      func(l prometheus.Labels) prometheus.Metric
	getLKeep   func(c prometheus.Labels) (prometheus.Metric, error) // the caller's own map, not scribbled: reusable
	curry      func(l prometheus.Labels) (*adapter, error)
	mustCurry  func(l prometheus.Labels) *adapter
	delLV      func(lvs []string) bool
	delL       func(l prometheus.Labels) bool
	delPartial func(l prometheus.Labels) int
	reset      func()
	collect    func(ch chan<- prometheus.Metric)
}

type vecAPI[M any, V any] interface {
	GetMetricWithLabelValues(lvs ...string) (M, error)
	WithLabelValues(lvs ...string) M
	GetMetricWith(l prometheus.Labels) (M, error)
	With(l prometheus.Labels) M
	CurryWith(l prometheus.Labels) (V, error)
	MustCurryWith(l prometheus.Labels) V
}

type delAPI interface {
	DeleteLabelValues(lvs ...string) bool
	Delete(l prometheus.Labels) bool
	DeletePartialMatch(l prometheus.Labels) int
	Reset()
	Collect(ch chan<- prometheus.Metric)
}

func toMetric[M any](m M) prometheus.Metric {
	x, _ := any(m).(prometheus.Metric)
	return x
}

// The caller owns the arguments of every call: label values are handed over in a scratch slice (with
// spare capacity) and label maps in a scratch map, and both are scribbled over as soon as the call
// returns. A vector that keeps a reference to its arguments instead of copying them then diverges
// from the plain map (its stored key changes behind its back).
const junk = "\x00scribbled"

// The library must not modify what the caller passed: every argument is compared with a private copy
// when the call returns (normally, with an error or by panicking), BEFORE it is scribbled over.
var (
	argMu         sync.Mutex
	argViolations []string
)

func noteArg(what string) {
	argMu.Lock()
	if len(argViolations) < 20 {
		argViolations = append(argViolations, what)
	}
	argMu.Unlock()
}

func takeArgViolations() []string {
	argMu.Lock()
	v := argViolations
	argViolations = nil
	argMu.Unlock()
	return v
}

func checkLVs(orig, b []string, call string) {
	if len(orig) != len(b) {
		noteArg(fmt.Sprintf("%s changed the length of the caller's values slice", call))
		return
	}
	for i := range orig {
		if orig[i] != b[i] {
			noteArg(fmt.Sprintf("%s modified the caller's values slice: %q became %q", call, orig[i], b[i]))
			return
		}
	}
}

func checkLabels(orig, c prometheus.Labels, call string) {
	if len(orig) != len(c) {
		noteArg(fmt.Sprintf("%s changed the size of the caller's Labels map (%d -> %d)", call, len(orig), len(c)))
		return
	}
	for k, v := range orig {
		if x, ok := c[k]; !ok || x != v {
			noteArg(fmt.Sprintf("%s modified the caller's Labels map: %q: %q became %q (present=%v)", call, k, v, x, ok))
			return
		}
	}
}

func scratchLVs(lvs []string) []string {
	b := make([]string, len(lvs), len(lvs)+3)
	copy(b, lvs)
	return b
}

func scribbleLVs(b []string) {
	b = b[:cap(b)]
	for i := range b {
		b[i] = junk
	}
}

func scratchLabels(l prometheus.Labels) prometheus.Labels {
	if l == nil {
		return nil
	}
	c := make(prometheus.Labels, len(l))
	for k, v := range l {
		c[k] = v
	}
	return c
}

func scribbleLabels(l prometheus.Labels) {
	for k := range l {
		l[k] = junk
	}
	for k := range l {
		delete(l, k)
	}
	if l != nil {
		l[junk] = junk
	}
}

func mk[M any, V any](v0 vecAPI[M, V]) *adapter {
	d0 := any(v0).(delAPI)
	v := scribblingVec[M, V]{v0}
	d := scribblingDel{d0}
	return &adapter{
		getLV: func(lvs []string) (prometheus.Metric, error) {
			m, err := v.GetMetricWithLabelValues(lvs...)
			if err != nil {
				return nil, err
			}
			return toMetric(m), nil
		},
		withLV: func(lvs []string) prometheus.Metric { return toMetric(v.WithLabelValues(lvs...)) },
		getL: func(l prometheus.Labels) (prometheus.Metric, error) {
			m, err := v.GetMetricWith(l)
			if err != nil {
				return nil, err
			}
			return toMetric(m), nil
		},
		withL: func(l prometheus.Labels) prometheus.Metric { return toMetric(v.With(l)) },
		getLKeep: func(c prometheus.Labels) (prometheus.Metric, error) {
			orig := scratchLabels(c)
			defer checkLabels(orig, c, "GetMetricWith")
			m, err := v0.GetMetricWith(c)
			if err != nil {
				return nil, err
			}
			return toMetric(m), nil
		},
		curry: func(l prometheus.Labels) (*adapter, error) {
			nv, err := v.CurryWith(l)
			if err != nil {
				return nil, err
			}
			return mk[M, V](any(nv).(vecAPI[M, V])), nil
		},
		mustCurry: func(l prometheus.Labels) *adapter {
			nv := v.MustCurryWith(l)
			return mk[M, V](any(nv).(vecAPI[M, V]))
		},
		delLV:      func(lvs []string) bool { return d.DeleteLabelValues(lvs...) },
		delL:       func(l prometheus.Labels) bool { return d.Delete(l) },
		delPartial: func(l prometheus.Labels) int { return d.DeletePartialMatch(l) },
		reset:      d0.Reset,
		collect:    d0.Collect,
	}
}

type scribblingVec[M any, V any] struct{ v vecAPI[M, V] }

func (s scribblingVec[M, V]) GetMetricWithLabelValues(lvs ...string) (M, error) {
	b := scratchLVs(lvs)
	defer func() { checkLVs(lvs, b[:len(lvs)], "GetMetricWithLabelValues"); scribbleLVs(b) }()
	return s.v.GetMetricWithLabelValues(b...)
}
func (s scribblingVec[M, V]) WithLabelValues(lvs ...string) M {
	b := scratchLVs(lvs)
	defer func() { checkLVs(lvs, b[:len(lvs)], "WithLabelValues"); scribbleLVs(b) }()
	return s.v.WithLabelValues(b...)
}
func (s scribblingVec[M, V]) GetMetricWith(l prometheus.Labels) (M, error) {
	c := scratchLabels(l)
	defer func() { checkLabels(l, c, "GetMetricWith"); scribbleLabels(c) }()
	return s.v.GetMetricWith(c)
}
func (s scribblingVec[M, V]) With(l prometheus.Labels) M {
	c := scratchLabels(l)
	defer func() { checkLabels(l, c, "With"); scribbleLabels(c) }()
	return s.v.With(c)
}
func (s scribblingVec[M, V]) CurryWith(l prometheus.Labels) (V, error) {
	c := scratchLabels(l)
	defer func() { checkLabels(l, c, "CurryWith"); scribbleLabels(c) }()
	return s.v.CurryWith(c)
}
func (s scribblingVec[M, V]) MustCurryWith(l prometheus.Labels) V {
	c := scratchLabels(l)
	defer func() { checkLabels(l, c, "MustCurryWith"); scribbleLabels(c) }()
	return s.v.MustCurryWith(c)
}

type scribblingDel struct{ d delAPI }

func (s scribblingDel) DeleteLabelValues(lvs ...string) bool {
	b := scratchLVs(lvs)
	defer func() { checkLVs(lvs, b[:len(lvs)], "DeleteLabelValues"); scribbleLVs(b) }()
	return s.d.DeleteLabelValues(b...)
}
func (s scribblingDel) Delete(l prometheus.Labels) bool {
	c := scratchLabels(l)
	defer func() { checkLabels(l, c, "Delete"); scribbleLabels(c) }()
	return s.d.Delete(c)
}
func (s scribblingDel) DeletePartialMatch(l prometheus.Labels) int {
	c := scratchLabels(l)
	defer func() { checkLabels(l, c, "DeletePartialMatch"); scribbleLabels(c) }()
	return s.d.DeletePartialMatch(c)
}

var typeNames = []string{"counter", "gauge", "histogram", "summary"}

func lowerASCII(s string) string {
	b := []byte(s)
	for i, c := range b {
		if c >= 'A' && c <= 'Z' {
			b[i] = c + 32
		}
	}
	return string(b)
}

func consFn(code int) prometheus.LabelConstraint {
	switch code {
	case 1:
		return lowerASCII
	case 2:
		return func(s string) string {
			if len(s) > 2 {
				return s[:2]
			}
			return s
		}
	case 3:
		return func(string) string { return "c" }
	case 4:
		return func(s string) string { return s + "!" }
	case 5:
		return func(s string) string { return s }
	}
	return nil
}

// newVec builds a vector of the given type; plain selects the v1 constructor (only when all codes are 0).
func newVec(typ, hmode int, names []string, codes []int, plain bool, consts prometheus.Labels) *adapter {
	cl := make(prometheus.ConstrainedLabels, len(names))
	for i, n := range names {
		cl[i] = prometheus.ConstrainedLabel{Name: n, Constraint: consFn(codes[i])}
	}
	var a *adapter
	var mv *prometheus.MetricVec
	switch typ {
	case 0:
		var v *prometheus.CounterVec
		o := prometheus.CounterOpts{Name: "m", Help: "h", ConstLabels: consts}
		if plain {
			v = prometheus.NewCounterVec(o, names)
		} else {
			v = prometheus.V2.NewCounterVec(prometheus.CounterVecOpts{CounterOpts: o, VariableLabels: cl})
		}
		a, mv = mk[prometheus.Counter, *prometheus.CounterVec](v), v.MetricVec
	case 1:
		var v *prometheus.GaugeVec
		o := prometheus.GaugeOpts{Name: "m", Help: "h", ConstLabels: consts}
		if plain {
			v = prometheus.NewGaugeVec(o, names)
		} else {
			v = prometheus.V2.NewGaugeVec(prometheus.GaugeVecOpts{GaugeOpts: o, VariableLabels: cl})
		}
		a, mv = mk[prometheus.Gauge, *prometheus.GaugeVec](v), v.MetricVec
	case 2:
		var v *prometheus.HistogramVec
		o := prometheus.HistogramOpts{Name: "m", Help: "h", ConstLabels: consts}
		if plain {
			v = prometheus.NewHistogramVec(o, names)
		} else {
			v = prometheus.V2.NewHistogramVec(prometheus.HistogramVecOpts{HistogramOpts: o, VariableLabels: cl})
		}
		a, mv = mk[prometheus.Observer, prometheus.ObserverVec](v), v.MetricVec
	default:
		var v *prometheus.SummaryVec
		o := prometheus.SummaryOpts{Name: "m", Help: "h", ConstLabels: consts}
		if plain {
			v = prometheus.NewSummaryVec(o, names)
		} else {
			v = prometheus.V2.NewSummaryVec(prometheus.SummaryVecOpts{SummaryOpts: o, VariableLabels: cl})
		}
		a, mv = mk[prometheus.Observer, prometheus.ObserverVec](v), v.MetricVec
	}
	plantHash(mv, hmode)
	return a
}

// drain runs collect into a channel and returns everything it sent.
// plantHash installs the hash hooks of mode hmode (see Model/Vec.v hmode_add / hmode_addb).
func plantHash(mv *prometheus.MetricVec, hmode int) {
	keepB := func(h uint64, b byte) uint64 { return h }
	switch hmode {
	case 1:
		prometheus.VerifPlantHash(mv, func(h uint64, s string) uint64 { return h }, keepB)
	case 2:
		prometheus.VerifPlantHash(mv, func(h uint64, s string) uint64 { return (h + uint64(len(s))) % 4 }, keepB)
	case 3:
		prometheus.VerifPlantHash(mv, func(h uint64, s string) uint64 {
			for i := 0; i < len(s); i++ {
				h ^= uint64(s[i])
				h *= 1099511628211
			}
			return h
		}, keepB)
	}
}

func drain(collect func(ch chan<- prometheus.Metric)) []prometheus.Metric {
	ch := make(chan prometheus.Metric, 64)
	perr := make(chan interface{}, 1)
	go func() {
		defer func() {
			r := recover()
			close(ch)
			perr <- r
		}()
		collect(ch)
	}()
	var out []prometheus.Metric
	for m := range ch {
		out = append(out, m)
	}
	if r := <-perr; r != nil {
		panic(r)
	}
	return out
}

// pairsWellFormed: the complete label-pair list a child writes consists of exactly the const labels (with
// their values) and the variable label names, sorted by name, none twice.
func pairsWellFormed(d *dto.Metric, names []string, consts prometheus.Labels) bool {
	if len(d.Label) != len(names)+len(consts) {
		return false
	}
	seen := map[string]string{}
	for i, lp := range d.Label {
		if i > 0 && d.Label[i-1].GetName() >= lp.GetName() {
			return false
		}
		seen[lp.GetName()] = lp.GetValue()
	}
	for k, v := range consts {
		if x, ok := seen[k]; !ok || x != v {
			return false
		}
	}
	for _, n := range names {
		if _, ok := seen[n]; !ok {
			return false
		}
	}
	return true
}

func labelValuesOf(m prometheus.Metric, names []string) ([]string, *dto.Metric) {
	var d dto.Metric
	if err := m.Write(&d); err != nil {
		panic(err)
	}
	mp := map[string]string{}
	for _, lp := range d.Label {
		mp[lp.GetName()] = lp.GetValue()
	}
	vals := make([]string, len(names))
	for i, n := range names {
		vals[i] = mp[n]
	}
	return vals, &d
}

// ---------------------------------------------------------------------------------------------
// sequential cases
// ---------------------------------------------------------------------------------------------

var allNames = []string{"a", "b", "ab", "a_b", "z", "A", "c", "d"}
var validVals = []string{"", "a", "b", "ab", "abc", "A", "aB", "a!", "c", "é", "日本"}
var invalidVals = []string{"a\xffb", "\xff", "\xc3", "\xe2\x82", "a\x80"}

type view struct {
	a       *adapter
	curried []bool
}

func (v *view) nCurried() int {
	n := 0
	for _, c := range v.curried {
		if c {
			n++
		}
	}
	return n
}

type seqGen struct {
	r      *emit.Rng
	names  []string
	pool   []string
	pm     int // malformed probability in percent
	views  []*view
	ids    map[prometheus.Metric]int
	ops    []string
	res    []string
	errs   map[int]bool
	delHit bool
	consts prometheus.Labels // const labels of the vector (0, 1, 3 or 5 of them)
	sibs   []int             // views curried from one common parent view on a later label (deep cases)
}

func emitLabels(l prometheus.Labels) string {
	ks := make([]string, 0, len(l))
	for k := range l {
		ks = append(ks, k)
	}
	sort.Strings(ks)
	it := make([]string, len(ks))
	for i, k := range ks {
		it[i] = emit.Tup(emit.S(k), emit.S(l[k]))
	}
	return emit.L(it)
}

func classify(msg string) int {
	switch {
	case strings.Contains(msg, "inconsistent label cardinality"):
		return 1
	case strings.Contains(msg, "is not valid UTF-8"):
		return 2
	case strings.Contains(msg, "is already curried"):
		return 3
	case strings.Contains(msg, "missing in label map"):
		return 4
	case strings.Contains(msg, "unknown label(s) found during currying"):
		return 6
	}
	return 0
}

func (g *seqGen) errRes(code int, panicked bool) string {
	g.errs[code] = true
	return emit.C(1, emit.I(code), emit.B(panicked))
}

// exec runs one operation; a panic becomes a (1 err 1) result.
func (g *seqGen) exec(f func() string) (res string) {
	defer func() {
		if r := recover(); r != nil {
			switch x := r.(type) {
			case runtime.Error:
				res = g.errRes(5, true)
			case error:
				res = g.errRes(classify(x.Error()), true)
			default:
				res = g.errRes(classify(fmt.Sprint(r)), true)
			}
		}
	}()
	return f()
}

func (g *seqGen) child(m prometheus.Metric) string {
	id, ok := g.ids[m]
	if !ok {
		id = len(g.ids)
		g.ids[m] = id
	}
	return emit.C(0, emit.I(id))
}

func (g *seqGen) val() string { return g.pool[g.r.Intn(len(g.pool))] }
func (g *seqGen) badVal() string {
	return invalidVals[g.r.Intn(len(invalidVals))]
}

func (g *seqGen) unknownName() string {
	var c []string
	for _, n := range allNames {
		if !contains(g.names, n) {
			c = append(c, n)
		}
	}
	c = append(c, "zz")
	return c[g.r.Intn(len(c))]
}

func contains(l []string, s string) bool {
	for _, x := range l {
		if x == s {
			return true
		}
	}
	return false
}

func (g *seqGen) freeCurried(v *view) (free, cur []string) {
	for i, n := range g.names {
		if v.curried[i] {
			cur = append(cur, n)
		} else {
			free = append(free, n)
		}
	}
	return
}

func (g *seqGen) malformed() bool { return g.r.Intn(100) < g.pm }

// genLVs builds the positional values for a view (possibly malformed).
func (g *seqGen) genLVs(v *view) []string {
	free, cur := g.freeCurried(v)
	lvs := make([]string, len(free))
	for i := range lvs {
		lvs[i] = g.val()
	}
	if !g.malformed() {
		return lvs
	}
	k := g.r.Intn(5)
	if len(cur) > 0 && g.r.Chance(1, 2) {
		k = []int{0, 1, 4}[g.r.Intn(3)] // wrong arity on a curried view
	}
	switch k {
	case 0:
		if len(lvs) > 0 {
			i := g.r.Intn(len(lvs))
			return append(lvs[:i:i], lvs[i+1:]...)
		}
		return append(lvs, g.val())
	case 1:
		return append(lvs, g.val())
	case 2:
		if len(lvs) > 0 {
			return []string{}
		}
		return append(lvs, g.val(), g.val())
	case 3:
		if len(lvs) > 0 {
			lvs[g.r.Intn(len(lvs))] = g.badVal()
			return lvs
		}
		return append(lvs, g.badVal())
	default: // as many values as the uncurried vector has labels
		for len(lvs) < len(g.names) {
			lvs = append(lvs, g.val())
		}
		if len(cur) == 0 {
			lvs = append(lvs, g.val())
		}
		return lvs
	}
}

// genLabels builds a label map for lookups/Delete on a view (possibly malformed).
func (g *seqGen) genLabels(v *view) prometheus.Labels {
	free, cur := g.freeCurried(v)
	l := prometheus.Labels{}
	for _, n := range free {
		l[n] = g.val()
	}
	if g.malformed() {
		g.mutateLabels(l, free, cur)
	}
	return l
}

func (g *seqGen) mutateLabels(l prometheus.Labels, free, cur []string) {
	present := make([]string, 0, len(l))
	for _, n := range free {
		if _, ok := l[n]; ok {
			present = append(present, n)
		}
	}
	k := g.r.Intn(6)
	if len(present) == 0 && (k == 1 || k == 2 || k == 4 || k == 5) {
		k = []int{0, 3}[g.r.Intn(2)]
	}
	if len(cur) == 0 && (k == 3 || k == 4) {
		k = 0
	}
	switch k {
	case 0: // extra unknown label
		l[g.unknownName()] = g.val()
	case 1: // substitute a name with an unknown one
		n := present[g.r.Intn(len(present))]
		delete(l, n)
		l[g.unknownName()] = g.val()
	case 2: // drop a label
		delete(l, present[g.r.Intn(len(present))])
	case 3: // add an already curried label
		l[cur[g.r.Intn(len(cur))]] = g.val()
	case 4: // substitute a free name with a curried one
		delete(l, present[g.r.Intn(len(present))])
		l[cur[g.r.Intn(len(cur))]] = g.val()
	case 5: // invalid UTF-8 value
		l[present[g.r.Intn(len(present))]] = g.badVal()
	}
}

func (g *seqGen) pickView() int {
	if len(g.sibs) > 0 && g.r.Chance(3, 5) {
		return g.sibs[g.r.Intn(len(g.sibs))] // sibling views are used interleaved, most of the time
	}
	return g.r.Intn(len(g.views))
}

// validVal: a value of the pool (or a fallback) that CurryWith accepts.
func (g *seqGen) validVal() string {
	for k := 0; k < 8; k++ {
		if v := g.val(); utf8.ValidString(v) {
			return v
		}
	}
	return "a"
}

// deepPrelude builds, on a vector with 6-8 labels, a curry chain of depth 1-3 ending in a parent view
// with p (3, 5, 6 or 7) curried labels -- the leading labels, so that nothing is curried in front of
// them later -- and then two or three SIBLING views curried from that parent on a later label with
// pairwise different values. All views stay alive; the rest of the case uses them interleaved. Views
// that share storage for their curried values (instead of each owning a copy) then answer for the
// wrong sibling.
func (g *seqGen) deepPrelude(p int) {
	parent, done := 0, 0
	depth := 1 + g.r.Intn(3)
	for step := 0; step < depth && done < p; step++ {
		k := p - done
		if step < depth-1 {
			k = 1 + g.r.Intn(p-done)
		}
		l := prometheus.Labels{}
		for _, n := range g.names[done : done+k] {
			l[n] = g.validVal()
		}
		before := len(g.views)
		g.doCurry(parent, l)
		if len(g.views) == before {
			return // refused (a constraint made a value invalid): an ordinary case from here on
		}
		parent, done = before, done+k
	}
	if done < p {
		return
	}
	j := p + g.r.Intn(len(g.names)-p) // a later label
	vals := []string{"a", "b", "ab", "", "c"}
	for i := len(vals) - 1; i > 0; i-- {
		k := g.r.Intn(i + 1)
		vals[i], vals[k] = vals[k], vals[i]
	}
	ns := 2 + g.r.Intn(2)
	for i := 0; i < ns; i++ {
		before := len(g.views)
		g.doCurry(parent, prometheus.Labels{g.names[j]: vals[i]})
		if len(g.views) > before {
			g.sibs = append(g.sibs, before)
		}
	}
}

func (g *seqGen) curriedViews() int {
	n := 0
	for _, v := range g.views {
		if v.nCurried() > 0 {
			n++
		}
	}
	return n
}

func (g *seqGen) push(op, res string) {
	g.ops = append(g.ops, op)
	g.res = append(g.res, res)
}

func (g *seqGen) opLookup() {
	vi := g.pickView()
	v := g.views[vi]
	must := g.r.Bool()
	if g.r.Bool() {
		lvs := g.genLVs(v)
		op := emit.C(0, emit.I(vi), emit.B(must), emit.SL(lvs))
		g.push(op, g.exec(func() string {
			if must {
				return g.child(v.a.withLV(lvs))
			}
			m, err := v.a.getLV(lvs)
			if err != nil {
				return g.errRes(classify(err.Error()), false)
			}
			return g.child(m)
		}))
		return
	}
	l := g.genLabels(v)
	if g.r.Chance(1, 6) {
		// the caller keeps ONE Labels map and uses it for two consecutive identical calls
		c := scratchLabels(l)
		if c == nil {
			c = prometheus.Labels{}
		}
		op := emit.C(1, emit.I(vi), emit.B(false), emitLabels(l))
		for k := 0; k < 2; k++ {
			g.push(op, g.exec(func() string {
				m, err := v.a.getLKeep(c)
				if err != nil {
					return g.errRes(classify(err.Error()), false)
				}
				return g.child(m)
			}))
		}
		scribbleLabels(c)
		return
	}
	op := emit.C(1, emit.I(vi), emit.B(must), emitLabels(l))
	g.push(op, g.exec(func() string {
		if must {
			return g.child(v.a.withL(l))
		}
		m, err := v.a.getL(l)
		if err != nil {
			return g.errRes(classify(err.Error()), false)
		}
		return g.child(m)
	}))
}

func (g *seqGen) opDelete() {
	vi := g.pickView()
	v := g.views[vi]
	switch g.r.Intn(3) {
	case 0:
		lvs := g.genLVs(v)
		g.push(emit.C(3, emit.I(vi), emit.SL(lvs)), g.exec(func() string {
			b := v.a.delLV(lvs)
			g.delHit = g.delHit || b
			return emit.C(2, emit.B(b))
		}))
	case 1:
		l := g.genLabels(v)
		g.push(emit.C(4, emit.I(vi), emitLabels(l)), g.exec(func() string {
			b := v.a.delL(l)
			g.delHit = g.delHit || b
			return emit.C(2, emit.B(b))
		}))
	default:
		free, cur := g.freeCurried(v)
		l := prometheus.Labels{}
		if g.r.Chance(1, 5) {
			for _, n := range free {
				l[n] = g.val()
			}
		} else {
			k := g.r.Intn(3)
			for i := 0; i < k && len(free) > 0; i++ {
				l[free[g.r.Intn(len(free))]] = g.val()
			}
		}
		if g.malformed() {
			switch k := g.r.Intn(3); {
			case k == 0 || len(cur) == 0 && k == 1:
				l[g.unknownName()] = g.val()
			case k == 1:
				l[cur[g.r.Intn(len(cur))]] = g.val()
			default:
				if len(free) > 0 {
					l[free[g.r.Intn(len(free))]] = g.badVal()
				} else {
					l[g.unknownName()] = g.badVal()
				}
			}
		}
		g.push(emit.C(5, emit.I(vi), emitLabels(l)), g.exec(func() string {
			n := v.a.delPartial(l)
			g.delHit = g.delHit || n > 0
			return emit.C(3, emit.I(n))
		}))
	}
}

func (g *seqGen) doCurry(vi int, l prometheus.Labels) {
	v := g.views[vi]
	must := g.r.Bool()
	op := emit.C(2, emit.I(vi), emit.B(must), emitLabels(l))
	g.push(op, g.exec(func() string {
		var na *adapter
		if must {
			na = v.a.mustCurry(l)
		} else {
			var err error
			na, err = v.a.curry(l)
			if err != nil {
				return g.errRes(classify(err.Error()), false)
			}
		}
		nc := append([]bool(nil), v.curried...)
		for i, n := range g.names {
			if _, ok := l[n]; ok {
				nc[i] = true
			}
		}
		g.views = append(g.views, &view{a: na, curried: nc})
		return emit.C(6)
	}))
}

// opCurry returns false when it decided not to emit an operation.
func (g *seqGen) opCurry() bool {
	if g.curriedViews() >= 3 {
		if !g.r.Chance(1, 5) {
			return false
		}
		// an attempt that fails: a label that is already curried in that view
		var cand []int
		for i, v := range g.views {
			if v.nCurried() > 0 {
				cand = append(cand, i)
			}
		}
		vi := cand[g.r.Intn(len(cand))]
		free, cur := g.freeCurried(g.views[vi])
		l := prometheus.Labels{cur[g.r.Intn(len(cur))]: g.val()}
		if len(free) > 0 && g.r.Bool() {
			l[free[g.r.Intn(len(free))]] = g.val()
		}
		g.doCurry(vi, l)
		return true
	}
	vi := g.pickView()
	free, cur := g.freeCurried(g.views[vi])
	l := prometheus.Labels{}
	if len(free) > 0 {
		k := 1
		if g.r.Chance(1, 4) {
			k = 1 + g.r.Intn(len(free))
		}
		for i := 0; i < k; i++ {
			l[free[g.r.Intn(len(free))]] = g.val()
		}
	} else if g.r.Chance(2, 3) {
		l[g.unknownName()] = g.val()
	}
	if g.malformed() {
		switch k := g.r.Intn(3); {
		case k == 0 || len(cur) == 0 && k == 1:
			l[g.unknownName()] = g.val()
		case k == 1:
			l[cur[g.r.Intn(len(cur))]] = g.val()
		default:
			if len(free) > 0 {
				l[free[g.r.Intn(len(free))]] = g.badVal()
			} else {
				l[g.unknownName()] = g.badVal()
			}
		}
	}
	g.doCurry(vi, l)
	return true
}

func lessVals(a, b []string) bool {
	for i := 0; i < len(a) && i < len(b); i++ {
		if a[i] != b[i] {
			return a[i] < b[i]
		}
	}
	return len(a) < len(b)
}

func (g *seqGen) opCollect(vi int) {
	v := g.views[vi]
	g.push(emit.C(7, emit.I(vi)), g.exec(func() string {
		type ent struct {
			vals []string
			id   int
		}
		var es []ent
		for _, m := range drain(v.a.collect) {
			vals, d := labelValuesOf(m, g.names)
			id, ok := g.ids[m]
			if !ok {
				id = 999999
			} else if !pairsWellFormed(d, g.names, g.consts) {
				id = 999998 // the child's label pairs are not exactly {const labels} + {variable labels}, sorted by name
			}
			es = append(es, ent{vals, id})
		}
		sort.SliceStable(es, func(i, j int) bool {
			if es[i].id != es[j].id {
				return es[i].id < es[j].id
			}
			return lessVals(es[i].vals, es[j].vals)
		})
		it := make([]string, len(es))
		for i, e := range es {
			it[i] = emit.Tup(emit.SL(e.vals), emit.I(e.id))
		}
		return emit.C(5, emit.L(it))
	}))
}

// genCollectRace: a deterministic surrogate for "a deletion is scheduled between two sends of one
// Collect". Children are created under a constant or low-entropy hash (several per bucket); Collect runs
// in a goroutine on an UNBUFFERED channel; after its first one or two sends it is parked on the next
// send; then deletions / resets / lookups are issued from another goroutine. With the read lock held
// for the whole Collect they wait; if it was released early they get through and compact the buckets
// Collect is still reading. No false alarm: whatever the timing, the collected children must be the
// children of one state the map passes through (checked by the runner), never a nil Metric.
//
//	(5 hmode names conscodes ops results n1 collected)
func genCollectRace(r *emit.Rng) (string, bool, []string) {
	g := &seqGen{r: r, pm: 0, ids: map[prometheus.Metric]int{}, errs: map[int]bool{}}
	typ := r.Intn(4)
	nn := 1
	if r.Chance(1, 3) {
		nn = 2
	}
	g.names = []string{"a", "b"}[:nn]
	codes := make([]int, nn)
	hmode := 1
	if r.Chance(1, 3) {
		hmode = 2
	}
	g.pool = []string{"", "a", "b", "ab"}
	g.views = []*view{{a: newVec(typ, hmode, g.names, codes, r.Bool(), nil), curried: make([]bool, nn)}}
	for i, n := 0, 5+r.Intn(5); i < n; i++ {
		g.opLookup()
	}
	n1 := len(g.ops)
	ch := make(chan prometheus.Metric)
	go func() {
		defer close(ch)
		defer func() { recover() }()
		g.views[0].a.collect(ch)
	}()
	var got []prometheus.Metric
	for i, k := 0, 1+r.Intn(2); i < k; i++ {
		m, ok := <-ch
		if !ok {
			break
		}
		got = append(got, m)
	}
	dd := make(chan struct{})
	nd := 1 + r.Intn(3)
	go func() {
		defer close(dd)
		for j := 0; j < nd; j++ {
			switch x := g.r.Intn(10); {
			case x < 7:
				g.opDelete()
			case x < 8:
				v := g.views[0]
				g.push(emit.C(6, emit.I(0)), g.exec(func() string { v.a.reset(); return emit.C(4) }))
			default:
				g.opLookup()
			}
		}
	}()
	select {
	case <-dd:
	case <-time.After(3 * time.Millisecond):
	}
	for m := range ch {
		got = append(got, m)
	}
	<-dd
	type ent struct {
		vals []string
		id   int
	}
	var es []ent
	for _, m := range got {
		if m == nil {
			es = append(es, ent{nil, 999997})
			continue
		}
		vals, _ := labelValuesOf(m, g.names)
		id, ok := g.ids[m]
		if !ok {
			id = 999999
		}
		es = append(es, ent{vals, id})
	}
	sort.SliceStable(es, func(i, j int) bool {
		if es[i].id != es[j].id {
			return es[i].id < es[j].id
		}
		return lessVals(es[i].vals, es[j].vals)
	})
	it := make([]string, len(es))
	for i, e := range es {
		it[i] = emit.Tup(emit.SL(e.vals), emit.I(e.id))
	}
	cs := make([]string, nn)
	for i, c := range codes {
		cs[i] = emit.I(c)
	}
	term := emit.C(5, emit.I(hmode), emit.SL(g.names), emit.L(cs), emit.L(g.ops), emit.L(g.res), emit.I(n1), emit.L(it))
	return term, len(g.ids) >= 2 && g.delHit, []string{"type:" + typeNames[typ], fmt.Sprintf("hmode:%d", hmode),
		fmt.Sprintf("children:%d", len(g.ids)), fmt.Sprintf("racing-ops:%d", nd)}
}

func genSeqCase(r *emit.Rng, pm int, invalidCommon bool) (string, bool, []string) {
	g := &seqGen{r: r, pm: pm, ids: map[prometheus.Metric]int{}, errs: map[int]bool{}}
	typ := r.Intn(4)
	// names
	perm := append([]string(nil), allNames...)
	for i := len(perm) - 1; i > 0; i-- {
		j := r.Intn(i + 1)
		perm[i], perm[j] = perm[j], perm[i]
	}
	nn := r.Intn(5)
	if r.Chance(1, 2) {
		nn = 2 + r.Intn(2) // two or three labels are the interesting sizes
	}
	deepP := 0
	if r.Chance(1, 8) {
		deepP = []int{3, 5, 6, 7}[r.Intn(4)]
		nn = deepP + 1 + r.Intn(2)
		if nn > len(perm) {
			nn = len(perm)
		}
	}
	g.names = perm[:nn]
	// constraints
	codes := make([]int, nn)
	constrained := false
	if !r.Chance(60, 100) && (deepP == 0 || r.Chance(1, 3)) {
		for i := range codes {
			codes[i] = r.Intn(6)
			constrained = constrained || codes[i] != 0
		}
	}
	// hash mode
	hmode := 0
	switch x := r.Intn(100); {
	case x < 40:
		hmode = 0
	case x < 65:
		hmode = 1
	case x < 85:
		hmode = 2
	default:
		hmode = 3
	}
	// value pool
	np := 3 + r.Intn(3)
	for len(g.pool) < np {
		var s string
		switch {
		case invalidCommon && r.Chance(1, 4), !invalidCommon && r.Chance(1, 60):
			s = invalidVals[r.Intn(len(invalidVals))]
		case hmode >= 2 && r.Chance(7, 10):
			s = validVals[r.Intn(5)] // "", a, b, ab, abc: collide under hash modes 2 and 3
		default:
			s = validVals[r.Intn(len(validVals))]
		}
		if !contains(g.pool, s) {
			g.pool = append(g.pool, s)
		}
	}
	if r.Chance(1, 2) {
		nc := []int{1, 3, 5}[r.Intn(3)]
		g.consts = prometheus.Labels{}
		for i := 0; i < nc; i++ {
			g.consts[fmt.Sprintf("k%d", i+1)] = fmt.Sprintf("c%d", i)
		}
	}
	plain := !constrained && r.Bool()
	g.views = []*view{{a: newVec(typ, hmode, g.names, codes, plain, g.consts), curried: make([]bool, nn)}}

	if deepP > 0 {
		g.deepPrelude(deepP)
	}
	nops := 40 + r.Intn(41)
	for len(g.ops) < nops {
		switch x := r.Intn(100); {
		case x < 55:
			g.opLookup()
		case x < 78:
			g.opDelete()
		case x < 88:
			if !g.opCurry() {
				g.opLookup()
			}
		case x < 90:
			vi := g.pickView()
			v := g.views[vi]
			g.push(emit.C(6, emit.I(vi)), g.exec(func() string { v.a.reset(); return emit.C(4) }))
		default:
			g.opCollect(g.pickView())
		}
	}
	g.opCollect(0)

	names := emit.SL(g.names)
	cs := make([]string, nn)
	for i, c := range codes {
		cs[i] = emit.I(c)
	}
	term := emit.C(0, emit.I(hmode), names, emit.L(cs), emit.L(g.ops), emit.L(g.res))
	tags := []string{"type:" + typeNames[typ], fmt.Sprintf("hmode:%d", hmode), fmt.Sprintf("names:%d", nn)}
	if constrained {
		tags = append(tags, "constrained")
	} else {
		tags = append(tags, "unconstrained")
	}
	if plain {
		tags = append(tags, "ctor:v1")
	} else {
		tags = append(tags, "ctor:v2")
	}
	ek := make([]int, 0, len(g.errs))
	for e := range g.errs {
		ek = append(ek, e)
	}
	sort.Ints(ek)
	for _, e := range ek {
		tags = append(tags, fmt.Sprintf("err:%d", e))
	}
	tags = append(tags, fmt.Sprintf("views:%d", len(g.views)-1))
	tags = append(tags, fmt.Sprintf("constlabels:%d", len(g.consts)))
	if deepP > 0 {
		tags = append(tags, fmt.Sprintf("deep:parent-curried-%d", deepP), fmt.Sprintf("deep:siblings-%d", len(g.sibs)))
	}
	nontrivial := len(g.ids) >= 2 && g.delHit && len(g.errs) > 0
	return term, nontrivial, tags
}

// ---------------------------------------------------------------------------------------------
// stress runs
// ---------------------------------------------------------------------------------------------

func bump(m prometheus.Metric) {
	switch x := m.(type) {
	case prometheus.Observer:
		x.Observe(1)
	case interface{ Inc() }:
		x.Inc()
	default:
		panic("child is neither an Observer nor has Inc")
	}
}

func childValue(d *dto.Metric) int64 {
	switch {
	case d.Counter != nil:
		return int64(d.Counter.GetValue())
	case d.Gauge != nil:
		return int64(d.Gauge.GetValue())
	case d.Histogram != nil:
		return int64(d.Histogram.GetSampleCount())
	case d.Summary != nil:
		return int64(d.Summary.GetSampleCount())
	}
	return -1
}

type ptrRec struct {
	incs  int64
	tuple int
}

type stressView struct {
	a   *adapter
	idx int    // the curried label
	val string // its value
}

func genStress(r *emit.Rng) (string, bool, []string, []string) {
	var failures []string
	var fmu sync.Mutex
	fail := func(s string) {
		fmu.Lock()
		if len(failures) < 8 {
			failures = append(failures, s)
		}
		fmu.Unlock()
	}
	typ := r.Intn(4)
	hmode := r.Intn(3)
	nn := 1 + r.Intn(2)
	names := []string{"a", "b"}[:nn]
	codes := make([]int, nn)
	constrained := r.Chance(3, 10)
	if constrained {
		for i := range codes {
			codes[i] = 5 * r.Intn(2) // identity constraint: exercises constrainLabels and its pool
		}
		codes[r.Intn(nn)] = 5
	}
	base := newVec(typ, hmode, names, codes, !constrained && r.Bool(), nil)
	// pool of distinct tuples
	vals := []string{"", "a", "b", "ab", "abc", "é"}
	nt := 2 + r.Intn(3)
	var tuples [][]string
	for len(tuples) < nt {
		t := make([]string, nn)
		for i := range t {
			t[i] = vals[r.Intn(len(vals))]
		}
		dup := false
		for _, u := range tuples {
			dup = dup || strings.Join(u, "\x00") == strings.Join(t, "\x00")
		}
		if !dup {
			tuples = append(tuples, t)
		}
	}
	// curried views (created before the goroutines start)
	var views []stressView
	for _, t := range tuples {
		if r.Bool() {
			k := r.Intn(nn)
			na, err := base.curry(prometheus.Labels{names[k]: t[k]})
			if err != nil {
				fail("curry: " + err.Error())
				continue
			}
			views = append(views, stressView{na, k, t[k]})
		}
	}
	labelsOf := func(t []string) prometheus.Labels {
		l := prometheus.Labels{}
		for i, n := range names {
			l[n] = t[i]
		}
		return l
	}
	ng := 4 + r.Intn(5)
	type local struct {
		ptrs map[prometheus.Metric]*ptrRec
		dels []int64
	}
	locals := make([]*local, ng)
	start := make(chan struct{})
	var wg sync.WaitGroup
	for gi := 0; gi < ng; gi++ {
		lr := r.Fork()
		nops := 200 + r.Intn(301)
		lc := &local{ptrs: map[prometheus.Metric]*ptrRec{}, dels: make([]int64, nt)}
		locals[gi] = lc
		wg.Add(1)
		go func(gi int) {
			defer wg.Done()
			defer func() {
				if x := recover(); x != nil {
					fail(fmt.Sprintf("goroutine %d panicked: %v", gi, x))
				}
			}()
			<-start
			for o := 0; o < nops; o++ {
				ti := lr.Intn(nt)
				t := tuples[ti]
				switch x := lr.Intn(10); {
				case x < 6:
					var m prometheus.Metric
					var err error
					switch lr.Intn(4) {
					case 0:
						m = base.withLV(t)
					case 1:
						m = base.withL(labelsOf(t))
					case 2:
						m, err = base.getL(labelsOf(t))
					default:
						var cand []stressView
						for _, v := range views {
							if t[v.idx] == v.val {
								cand = append(cand, v)
							}
						}
						if len(cand) == 0 {
							m, err = base.getLV(t)
							break
						}
						v := cand[lr.Intn(len(cand))]
						rest := append(append([]string(nil), t[:v.idx]...), t[v.idx+1:]...)
						if lr.Bool() {
							m = v.a.withLV(rest)
						} else {
							l := labelsOf(t)
							delete(l, names[v.idx])
							m, err = v.a.getL(l)
						}
					}
					if err != nil || m == nil {
						fail(fmt.Sprintf("goroutine %d: lookup failed: %v", gi, err))
						continue
					}
					bump(m)
					rec := lc.ptrs[m]
					if rec == nil {
						rec = &ptrRec{tuple: ti}
						lc.ptrs[m] = rec
					}
					if rec.tuple != ti {
						fail("one child returned for two different tuples")
					}
					rec.incs++
				case x < 9:
					switch lr.Intn(3) {
					case 0:
						if base.delLV(t) {
							lc.dels[ti]++
						}
					case 1:
						if base.delL(labelsOf(t)) {
							lc.dels[ti]++
						}
					default:
						lc.dels[ti] += int64(base.delPartial(labelsOf(t)))
					}
				default:
					drain(base.collect)
				}
			}
		}(gi)
	}
	close(start)
	done := make(chan struct{})
	go func() { wg.Wait(); close(done) }()
	select {
	case <-done:
	case <-time.After(60 * time.Second):
		fail("stress run did not finish within 60 s (deadlock?)")
		return emit.C(1, emit.L(nil), emit.L(nil)), false, []string{"hang"}, failures
	}
	// aggregate
	all := map[prometheus.Metric]*ptrRec{}
	deleted := make([]int64, nt)
	for _, lc := range locals {
		for m, rec := range lc.ptrs {
			a := all[m]
			if a == nil {
				a = &ptrRec{tuple: rec.tuple}
				all[m] = a
			}
			if a.tuple != rec.tuple {
				fail("one child returned for two different tuples (across goroutines)")
			}
			a.incs += rec.incs
		}
		for i, d := range lc.dels {
			deleted[i] += d
		}
	}
	created := make([]int64, nt)
	type ch struct {
		tuple       int
		incs, value int64
	}
	var chs []ch
	for m, rec := range all {
		created[rec.tuple]++
		_, d := labelValuesOf(m, names)
		chs = append(chs, ch{rec.tuple, rec.incs, childValue(d)})
	}
	sort.Slice(chs, func(i, j int) bool {
		if chs[i].tuple != chs[j].tuple {
			return chs[i].tuple < chs[j].tuple
		}
		if chs[i].incs != chs[j].incs {
			return chs[i].incs < chs[j].incs
		}
		return chs[i].value < chs[j].value
	})
	live := make([]int64, nt)
	for _, m := range drain(base.collect) {
		vs, _ := labelValuesOf(m, names)
		found := false
		for i, t := range tuples {
			if strings.Join(t, "\x00") == strings.Join(vs, "\x00") {
				live[i]++
				found = true
			}
		}
		if !found {
			fail(fmt.Sprintf("final Collect has a child outside the tuple pool: %q", vs))
		}
		if _, ok := all[m]; !ok {
			fail("final Collect has a child no lookup ever returned")
		}
	}
	nontrivial := false
	ts := make([]string, nt)
	for i := range tuples {
		ts[i] = emit.Tup(emit.Z(created[i]), emit.Z(deleted[i]), emit.Z(live[i]))
		nontrivial = nontrivial || created[i] >= 2
	}
	cs := make([]string, len(chs))
	for i, c := range chs {
		cs[i] = emit.Tup(emit.Z(c.incs), emit.Z(c.value))
	}
	tags := []string{"type:" + typeNames[typ], fmt.Sprintf("hmode:%d", hmode), fmt.Sprintf("goroutines:%d", ng),
		fmt.Sprintf("names:%d", nn), fmt.Sprintf("views:%d", len(views))}
	if constrained {
		tags = append(tags, "constrained")
	} else {
		tags = append(tags, "unconstrained")
	}
	return emit.C(1, emit.L(ts), emit.L(cs)), nontrivial, tags, failures
}

// ---------------------------------------------------------------------------------------------
// utf8.ValidString
// ---------------------------------------------------------------------------------------------

var utf8Special = []byte{0x00, 0x41, 0x7f, 0x80, 0x8f, 0x90, 0x9f, 0xa0, 0xbf, 0xc0, 0xc1, 0xc2, 0xdf, 0xe0, 0xec, 0xed, 0xee,
	0xef, 0xf0, 0xf1, 0xf3, 0xf4, 0xf5, 0xff}

func utf8Byte(r *emit.Rng) byte {
	if r.Chance(7, 10) {
		return utf8Special[r.Intn(len(utf8Special))]
	}
	return byte(r.Intn(256))
}

func genUTF8(r *emit.Rng) []byte {
	if r.Chance(6, 10) {
		b := make([]byte, r.Intn(7))
		for i := range b {
			b[i] = utf8Byte(r)
		}
		return b
	}
	var b []byte
	for len(b) < 3 && (len(b) == 0 || r.Bool()) {
		var c rune
		switch r.Intn(8) {
		case 0:
			c = rune(r.Intn(0x80))
		case 1:
			c = rune(0x80 + r.Intn(0x780))
		case 2:
			c = rune(0x800 + r.Intn(0xd000))
		case 3:
			c = []rune{0x7f, 0x80, 0x7ff, 0x800, 0xfff, 0x1000, 0xcfff, 0xd000, 0xd7ff, 0xe000, 0xfffd, 0xffff, 0x10000, 0x3ffff,
				0x40000, 0xfffff, 0x100000, 0x10ffff}[r.Intn(18)]
		case 4:
			c = rune(0xe000 + r.Intn(0x2000))
		default:
			c = rune(0x10000 + r.Intn(0x100000))
		}
		b = utf8.AppendRune(b, c)
	}
	switch r.Intn(4) {
	case 0, 1:
		b[r.Intn(len(b))] = utf8Byte(r)
	case 2:
		b = b[:r.Intn(len(b)+1)]
	}
	if len(b) > 6 {
		b = b[:6]
	}
	return b
}

// ---------------------------------------------------------------------------------------------

// noteDirect turns the argument modifications observed during case i into direct failures of the stream.
func noteDirect(w *emit.Writer, i int) {
	vs := takeArgViolations()
	if len(vs) == 0 {
		return
	}
	df, _ := w.Extra["direct_failures"].([]map[string]interface{})
	if len(df) < 10 {
		df = append(df, map[string]interface{}{"index": i, "what": "the library modified its caller's argument: " + vs[0]})
	}
	w.Extra["direct_failures"] = df
}

func runC07(c *cli.Ctx) error {
	root := emit.NewRng(c.Seed)
	rSeq, rMal, rStress, rUTF := root.Fork(), root.Fork(), root.Fork(), root.Fork()
	rSched := root.Fork()
	rLin := root.Fork()
	rColl := root.Fork()

	w := emit.NewWriter(c.Out, "C07", "seq")
	for i := 0; i < 600*c.Scale; i++ {
		term, nt, tags := genSeqCase(rSeq.Fork(), 10, false)
		w.Add(term, nt, tags...)
		noteDirect(w, i)
	}
	if err := w.Flush(); err != nil {
		return err
	}

	w = emit.NewWriter(c.Out, "C07", "malformed")
	for i := 0; i < 300*c.Scale; i++ {
		term, nt, tags := genSeqCase(rMal.Fork(), 50, true)
		w.Add(term, nt, tags...)
		noteDirect(w, i)
	}
	if err := w.Flush(); err != nil {
		return err
	}

	w = emit.NewWriter(c.Out, "C07", "stress")
	var direct []map[string]interface{}
	for i := 0; i < 40*c.Scale; i++ {
		term, nt, tags, failures := genStress(rStress.Fork())
		for _, f := range failures {
			direct = append(direct, map[string]interface{}{"index": i, "what": f})
		}
		if vs := takeArgViolations(); len(vs) > 0 && len(direct) < 10 {
			direct = append(direct, map[string]interface{}{"index": i, "what": "the library modified its caller's argument: " + vs[0]})
		}
		w.Add(term, nt, tags...)
	}
	if len(direct) > 0 {
		w.Extra["direct_failures"] = direct
	}
	if err := w.Flush(); err != nil {
		return err
	}

	w = emit.NewWriter(c.Out, "C07", "utf8")
	for i := 0; i < 2000*c.Scale; i++ {
		b := genUTF8(rUTF)
		s := string(b)
		v := utf8.ValidString(s)
		hi := false
		for _, x := range b {
			hi = hi || x >= 0x80
		}
		vt := "invalid"
		if v {
			vt = "valid"
		}
		w.Add(emit.C(2, emit.S(s), emit.B(v)), hi, vt, fmt.Sprintf("len:%d", len(b)))
	}
	if err := w.Flush(); err != nil {
		return err
	}
	if err := runSched(c, rSched); err != nil {
		return err
	}
	if err := runStressLin(c, rLin); err != nil {
		return err
	}
	w = emit.NewWriter(c.Out, "C07", "collectrace")
	for i := 0; i < 80*c.Scale; i++ {
		term, nt, tags := genCollectRace(rColl.Fork())
		w.Add(term, nt, tags...)
		noteDirect(w, i)
	}
	return w.Flush()
}
