package main

import (
	"fmt"
	"sort"
	"sync"
	"sync/atomic"

	"github.com/prometheus/client_golang/prometheus"
	"github.com/prometheus/client_golang/prometheus/vsched"
	dto "github.com/prometheus/client_model/go"

	"verifharness/internal/cli"
	"verifharness/internal/emit"
	"verifharness/internal/schedx"
)

// Stream "sched": small concurrent programs on one MetricVec, run under the deterministic scheduler
// (vec.go instrumented: every RWMutex operation is a schedule point). The interleavings of the critical
// sections are enumerated (DFS prefix) and sampled (random); each run is emitted as
//   (3 hmode names progs sched results flags)
//   progs   := per thread ((0 tuple) lookup | (1 tuple) delete | (2 labels) partial delete | (3) reset ...)
//   sched   := thread ids in the order in which RLock/Lock were GRANTED (one entry per critical section)
//   results := per thread, in program order: (0 id) | (2 bool) | (3 n) | (4)
// Children are created by a newMetric function that stamps the creation index (it runs under the
// write lock), so ids are exactly the model's.

type idMetric struct {
	desc *prometheus.Desc
	id   int
	vals []string
}

func (m *idMetric) Desc() *prometheus.Desc  { return m.desc }
func (m *idMetric) Write(*dto.Metric) error { return nil }

type schedReq struct {
	kind int // 0 lookup, 1 delete, 2 partial, 3 reset, 4 collect
	form int // which of the two API forms
	t    []string
	ls   prometheus.Labels
}

func (q schedReq) sx() string {
	switch q.kind {
	case 0, 1:
		it := make([]string, len(q.t))
		for i, s := range q.t {
			it[i] = emit.S(s)
		}
		return emit.C(q.kind, emit.L(it))
	case 2:
		return emit.C(2, emitLabels(q.ls))
	case 4:
		return emit.C(4)
	}
	return emit.C(3)
}

func labelsOf(names, t []string) prometheus.Labels {
	l := prometheus.Labels{}
	for i, n := range names {
		l[n] = t[i]
	}
	return l
}

// newStampedVec: a MetricVec whose children carry their creation index (newMetric runs under the write lock).
func newStampedVec(names []string, hm int) *prometheus.MetricVec {
	next := 0
	desc := prometheus.NewDesc("m", "h", names, nil)
	vec := prometheus.NewMetricVec(desc, func(lvs ...string) prometheus.Metric {
		m := &idMetric{desc, next, append([]string(nil), lvs...)}
		next++
		return m
	})
	plantHash(vec, hm)
	return vec
}

func genSchedProgs(r *emit.Rng, names, vals []string, pool [][]string, nthreads, maxCalls int) [][]schedReq {
	progs := make([][]schedReq, nthreads)
	for ti := range progs {
		n := 1 + r.Intn(maxCalls)
		for k := 0; k < n; k++ {
			q := schedReq{form: r.Intn(2), t: pool[r.Intn(len(pool))]}
			switch x := r.Intn(100); {
			case x < 50:
				q.kind = 0
			case x < 78:
				q.kind = 1
			case x < 86:
				q.kind = 4
			case x < 95:
				q.kind = 2
				q.ls = prometheus.Labels{}
				if r.Chance(2, 3) {
					j := r.Intn(len(names))
					q.ls[names[j]] = vals[r.Intn(len(vals))]
				}
			default:
				q.kind = 3
			}
			progs[ti] = append(progs[ti], q)
		}
	}
	return progs
}

// doReq performs one request on the vector and renders its result.
func doReq(vec *prometheus.MetricVec, names []string, q schedReq) string {
	var out string
	switch q.kind {
	case 0:
		var m prometheus.Metric
		var err error
		if q.form == 0 {
			b := scratchLVs(q.t)
			m, err = vec.GetMetricWithLabelValues(b...)
			checkLVs(q.t, b[:len(q.t)], "GetMetricWithLabelValues")
			scribbleLVs(b)
		} else {
			l := labelsOf(names, q.t)
			m, err = vec.GetMetricWith(l)
			checkLabels(labelsOf(names, q.t), l, "GetMetricWith")
			scribbleLabels(l)
		}
		if err != nil {
			out = emit.C(1, emit.I(classify(err.Error())), emit.B(false))
		} else {
			out = emit.C(0, emit.I(m.(*idMetric).id))
		}
	case 1:
		if q.form == 0 {
			b := scratchLVs(q.t)
			out = emit.C(2, emit.B(vec.DeleteLabelValues(b...)))
			checkLVs(q.t, b[:len(q.t)], "DeleteLabelValues")
			scribbleLVs(b)
		} else {
			l := labelsOf(names, q.t)
			out = emit.C(2, emit.B(vec.Delete(l)))
			checkLabels(labelsOf(names, q.t), l, "Delete")
			scribbleLabels(l)
		}
	case 2:
		out = emit.C(3, emit.I(vec.DeletePartialMatch(q.ls)))
	case 4:
		// Collect into a channel that never blocks (the scheduler cannot see channel operations)
		ch := make(chan prometheus.Metric, 256)
		vec.Collect(ch)
		close(ch)
		var ms []*idMetric
		nils := 0
		for m := range ch {
			if im, ok := m.(*idMetric); ok && im != nil {
				ms = append(ms, im)
			} else {
				nils++
			}
		}
		sort.SliceStable(ms, func(i, j int) bool { return ms[i].id < ms[j].id })
		it := make([]string, 0, len(ms)+nils)
		for _, im := range ms {
			it = append(it, emit.Tup(emit.SL(im.vals), emit.I(im.id)))
		}
		for k := 0; k < nils; k++ {
			it = append(it, emit.Tup(emit.SL(nil), emit.I(999997)))
		}
		out = emit.C(5, emit.L(it))
	default:
		vec.Reset()
		out = emit.C(4)
	}
	return out
}

func runSched(c *cli.Ctx, r *emit.Rng) error {
	w := emit.NewWriter(c.Out, "C07", "sched")
	var direct []map[string]interface{}
	budget := 900 * c.Scale
	schedules, programs, exhaustive := 0, 0, 0
	for schedules < budget {
		hm := []int{1, 1, 0, 2}[r.Intn(4)]
		names := []string{"a", "b"}[:1+r.Intn(2)]
		vals := []string{"x", "y", ""}
		npool := 1 + r.Intn(2)
		pool := make([][]string, npool)
		for i := range pool {
			t := make([]string, len(names))
			for j := range t {
				t[j] = vals[r.Intn(len(vals))]
			}
			pool[i] = t
		}
		nthreads := 2 + r.Intn(2)
		progs := genSchedProgs(r, names, vals, pool, nthreads, 3)
		programs++
		var res, times [][]string
		mk := func() []func() {
			vec := newStampedVec(names, hm)
			res = make([][]string, nthreads)
			times = make([][]string, nthreads)
			bodies := make([]func(), nthreads)
			for ti := range progs {
				ti := ti
				bodies[ti] = func() {
					for _, q := range progs[ti] {
						inv := vsched.Now()
						out := doReq(vec, names, q)
						times[ti] = append(times[ti], emit.Tup(emit.Z(inv), emit.Z(vsched.Now())))
						res[ti] = append(res[ti], out)
					}
				}
			}
			return bodies
		}
		visit := func(vr vsched.Result) {
			var sched []string
			for _, st := range vr.Trace {
				if st.Label == "RWMutex.RLock" || st.Label == "RWMutex.Lock" {
					sched = append(sched, emit.I(st.Tid))
				}
			}
			ps := make([]string, nthreads)
			rs := make([]string, nthreads)
			tms := make([]string, nthreads)
			ncalls := 0
			for ti := range progs {
				it := make([]string, len(progs[ti]))
				for k, q := range progs[ti] {
					it[k] = q.sx()
				}
				ps[ti] = emit.L(it)
				rs[ti] = emit.L(res[ti])
				tms[ti] = emit.L(times[ti])
				ncalls += len(progs[ti])
			}
			ns := make([]string, len(names))
			for i, n := range names {
				ns[i] = emit.S(n)
			}
			fl := schedx.Flags(vr)
			if vs := takeArgViolations(); len(vs) > 0 && len(direct) < 10 {
				direct = append(direct, map[string]interface{}{"index": w.Len(), "what": "the library modified its caller's argument: " + vs[0]})
			}
			if fl != 0 {
				direct = append(direct, map[string]interface{}{"index": w.Len(),
					"what": fmt.Sprintf("scheduler flags %d (1 deadlock, 2 step limit, 4 panic) panics=%v", fl, vr.Panics)})
			}
			w.Add(emit.C(3, emit.I(hm), emit.L(ns), emit.L(ps), emit.L(sched), emit.L(rs), emit.I(fl), emit.L(tms)),
				ncalls >= 3 && len(sched) > ncalls,
				fmt.Sprintf("threads:%d", nthreads), fmt.Sprintf("hmode:%d", hm), fmt.Sprintf("sections:%d", len(sched)))
		}
		n, complete := schedx.Explore(mk, 30, 2000, visit)
		schedules += n
		if complete {
			exhaustive++
		}
		for k := 0; k < 10; k++ {
			visit(schedx.Random(mk, r, 2000))
			schedules++
		}
	}
	w.Extra["programs"] = programs
	w.Extra["programs_explored_exhaustively"] = exhaustive
	if len(direct) > 0 {
		w.Extra["direct_failures"] = direct
	}
	return w.Flush()
}

// Stream "stresslin": free-running races of real goroutines on small programs (at most 9 calls, so that
// the linearization search stays cheap). An atomic logical clock is ticked before every invocation and
// after every response; the runner checks REAL-TIME linearizability of the resulting history:
//
//	(4 names progs results times)
func runStressLin(c *cli.Ctx, r *emit.Rng) error {
	w := emit.NewWriter(c.Out, "C07", "stresslin")
	var direct []map[string]interface{}
	for it := 0; it < 400*c.Scale; it++ {
		hm := r.Intn(3)
		names := []string{"a", "b"}[:1+r.Intn(2)]
		vals := []string{"x", "y", ""}
		npool := 1 + r.Intn(2)
		pool := make([][]string, npool)
		for i := range pool {
			t := make([]string, len(names))
			for j := range t {
				t[j] = vals[r.Intn(len(vals))]
			}
			pool[i] = t
		}
		nthreads := 3
		maxCalls := 3
		if r.Chance(1, 3) {
			nthreads, maxCalls = 4, 2
		}
		progs := genSchedProgs(r, names, vals, pool, nthreads, maxCalls)
		vec := newStampedVec(names, hm)
		var clock int64
		res := make([][]string, nthreads)
		times := make([][]string, nthreads)
		panics := make([]interface{}, nthreads)
		var wg sync.WaitGroup
		start := make(chan struct{})
		for ti := range progs {
			ti := ti
			wg.Add(1)
			go func() {
				defer wg.Done()
				defer func() { panics[ti] = recover() }()
				<-start
				for _, q := range progs[ti] {
					inv := atomic.AddInt64(&clock, 1)
					out := doReq(vec, names, q)
					e := atomic.AddInt64(&clock, 1)
					res[ti] = append(res[ti], out)
					times[ti] = append(times[ti], emit.Tup(emit.Z(inv), emit.Z(e)))
				}
			}()
		}
		close(start)
		wg.Wait()
		if vs := takeArgViolations(); len(vs) > 0 && len(direct) < 10 {
			direct = append(direct, map[string]interface{}{"index": it, "what": "the library modified its caller's argument: " + vs[0]})
		}
		for ti, p := range panics {
			if p != nil {
				direct = append(direct, map[string]interface{}{"index": it, "what": fmt.Sprintf("goroutine %d panicked: %v", ti, p)})
			}
		}
		ps := make([]string, nthreads)
		rs := make([]string, nthreads)
		tms := make([]string, nthreads)
		ncalls := 0
		for ti := range progs {
			it := make([]string, len(progs[ti]))
			for k, q := range progs[ti] {
				it[k] = q.sx()
			}
			ps[ti], rs[ti], tms[ti] = emit.L(it), emit.L(res[ti]), emit.L(times[ti])
			ncalls += len(progs[ti])
		}
		ns := make([]string, len(names))
		for i, n := range names {
			ns[i] = emit.S(n)
		}
		w.Add(emit.C(4, emit.L(ns), emit.L(ps), emit.L(rs), emit.L(tms)), ncalls >= 4,
			fmt.Sprintf("threads:%d", nthreads), fmt.Sprintf("hmode:%d", hm), fmt.Sprintf("calls:%d", ncalls))
	}
	if len(direct) > 0 {
		w.Extra["direct_failures"] = direct
	}
	return w.Flush()
}
