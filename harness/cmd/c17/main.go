package main

// C17: test helpers report equality iff the metrics are equal (prometheus/testutil).
//
// Streams (wire format: coq/theories/Run/C17_run.v):
//   compare   generated registries; the gatherer's own text exposition and every single-token
//             perturbation of it (sampled in the quick tier) through GatherAndCompare,
//             CollectAndCompare, TransactionalGatherAndCompare and ScrapeAndCompare under seven
//             name filters.  "changed" is decided here by parsing both texts with expfmt and
//             comparing a projection of the families, independently of the helpers.
//   malformed gatherers/collectors/servers that fail, expected texts that are garbage or truncated
//   count     GatherAndCount / CollectAndCount against the known construction
//   tofloat   ToFloat64 against the known construction (value or panic)
//   format    CollectAndFormat against per-family expfmt encodings
//   normalize convertReaderToMetricFamily against the model of NormalizeMetricFamilies

import (
	"bytes"
	"errors"
	"fmt"
	"hash/fnv"
	"math"
	"net/http"
	"net/http/httptest"
	"os"
	"sort"
	"strconv"
	"strings"
	"time"

	"github.com/prometheus/client_golang/prometheus"
	"github.com/prometheus/client_golang/prometheus/promhttp"
	"github.com/prometheus/client_golang/prometheus/testutil"
	dto "github.com/prometheus/client_model/go"
	"github.com/prometheus/common/expfmt"
	"github.com/prometheus/common/model"
	"google.golang.org/protobuf/proto"

	"verifharness/internal/cli"
	"verifharness/internal/emit"
)

func main() { cli.Main("C17", runC17) }

// ---------------------------------------------------------------- registry construction

const (
	tCounter = iota
	tGauge
	tUntyped
	tHistogram
	tSummary
)

var typeWords = []string{"counter", "gauge", "untyped", "histogram", "summary"}

type childSpec struct {
	lvs   []string
	val   float64
	hasTs bool
	tsMs  int64
	count uint64
	sum   float64
	bk    map[float64]uint64
	qs    map[float64]float64
}

type famSpec struct {
	name       string
	help       string
	typ        int
	labelNames []string
	constL     prometheus.Labels
	children   []childSpec
	real       bool // built from a real *Vec instead of const metrics
}

type regSpec struct {
	fams    []famSpec
	hasReal bool
	utf8    bool
}

type specCollector struct {
	descs   []*prometheus.Desc
	metrics []prometheus.Metric
	subs    []prometheus.Collector
}

func (c *specCollector) Describe(ch chan<- *prometheus.Desc) {
	for _, d := range c.descs {
		ch <- d
	}
	for _, s := range c.subs {
		s.Describe(ch)
	}
}
func (c *specCollector) Collect(ch chan<- prometheus.Metric) {
	for _, m := range c.metrics {
		ch <- m
	}
	for _, s := range c.subs {
		s.Collect(ch)
	}
}

var nameRoots = []string{"m", "http_requests_total", "go:info", "A9_z", "x", "process_cpu_seconds", "_lead", "Zed", "a:b:c", "queue_depth"}
var utf8Roots = []string{"dotted.name", "uni_cödé", "with-dash", "http.requests", "svc-latency.ms", "température", "a.b-c d"}
var helpPool = []string{"", "", "plain help", "with \\ backslash", "quote \" inside", "new\nline", "tab\there", "unicode ü€", "#hash", "a  b", "ends with backslash \\", "\\n literal", "trailing space ", "x", "HELP TYPE # {} = ,"}
var labelNamePool = []string{"l", "code", "method", "a_b", "L9", "_x", "zone", "k"}
var utf8LabelNames = []string{"l.dot", "sp ace", "üml", "status.code", "dash-ed", "k8s.pod/name"}
var labelValuePool = []string{"", "v", "with\\back", "q\"uote", "new\nline", "ünï", "{}", "a,b", "a=b", " spaces ", "#", "\\n", "\"", "\\", "200", "GET", "le", "+Inf", "x y z", "tab\t"}

func pickFloat(r *emit.Rng) float64 {
	switch r.Intn(8) {
	case 0:
		return []float64{math.NaN(), math.Inf(1), math.Inf(-1), 0, math.Copysign(0, -1), 1, -1, math.MaxFloat64, math.SmallestNonzeroFloat64, 1e21, 1e-7, 123456789, 0.1, 1 << 53}[r.Intn(14)]
	case 1, 2:
		return float64(r.Intn(2001) - 1000)
	case 3:
		return float64(r.Intn(100000)) / 1000
	default:
		return r.AnyFloat()
	}
}

func genRegistry(r *emit.Rng, idx int) regSpec {
	var rs regSpec
	nf := 1 + r.Intn(5)
	if r.Chance(1, 8) {
		nf = 6 + r.Intn(3)
	}
	for i := 0; i < nf; i++ {
		var f famSpec
		root := nameRoots[r.Intn(len(nameRoots))]
		forceUTF8 := idx%4 == 3 // every fourth registry is dominated by UTF-8 (quoted) names
		if r.Chance(1, 30) || (forceUTF8 && (i == 0 || r.Bool())) {
			root = utf8Roots[r.Intn(len(utf8Roots))]
			rs.utf8 = true
		}
		f.name = fmt.Sprintf("%s_%d%d", root, idx%10, i) // distinct, never ends in _sum/_count/_bucket
		f.help = helpPool[r.Intn(len(helpPool))]
		f.typ = r.Intn(5)
		nl := r.Intn(4)
		used := map[string]bool{}
		for j := 0; j < nl; j++ {
			ln := labelNamePool[r.Intn(len(labelNamePool))]
			if r.Chance(1, 60) || (forceUTF8 && r.Bool()) {
				ln = utf8LabelNames[r.Intn(len(utf8LabelNames))]
				rs.utf8 = true
			}
			if used[ln] {
				continue
			}
			used[ln] = true
			f.labelNames = append(f.labelNames, ln)
		}
		if r.Chance(1, 5) {
			cn := "const_" + labelNamePool[r.Intn(len(labelNamePool))]
			f.constL = prometheus.Labels{cn: labelValuePool[r.Intn(len(labelValuePool))]}
		}
		nc := 1
		if len(f.labelNames) > 0 {
			nc = 1 + r.Intn(4)
			if r.Chance(1, 15) {
				nc = 13 + r.Intn(6) // beyond sort.Sort's insertion-sort threshold
			}
		}
		f.real = r.Chance(1, 5)
		seen := map[string]bool{}
		for c := 0; c < nc; c++ {
			var ch childSpec
			for range f.labelNames {
				v := labelValuePool[r.Intn(len(labelValuePool))]
				if nc > 6 {
					v = fmt.Sprintf("%s%d", v, r.Intn(1000))
				}
				ch.lvs = append(ch.lvs, v)
			}
			key := strings.Join(ch.lvs, "\x00")
			if seen[key] {
				continue
			}
			seen[key] = true
			ch.val = pickFloat(r)
			if !f.real && r.Chance(1, 6) {
				ch.hasTs = true
				ch.tsMs = []int64{0, 1, -1, 1700000000123, 1000, 253402300799999}[r.Intn(6)]
			}
			switch f.typ {
			case tHistogram:
				nb := r.Intn(6)
				ch.bk = map[float64]uint64{}
				var bounds []float64
				for b := 0; b < nb; b++ {
					x := pickFloat(r)
					if x != x || math.IsInf(x, -1) {
						continue
					}
					if math.IsInf(x, 1) && !r.Chance(1, 4) {
						continue
					}
					bounds = append(bounds, x)
				}
				sort.Float64s(bounds)
				cum := uint64(0)
				for _, b := range bounds {
					cum += uint64(r.Intn(5))
					ch.bk[b] = cum
				}
				ch.count = cum + uint64(r.Intn(3))
				if r.Chance(1, 10) && cum > 0 {
					ch.count = cum - 1 // inconsistent on purpose: still expressible
				}
				ch.sum = pickFloat(r)
			case tSummary:
				nq := r.Intn(4)
				ch.qs = map[float64]float64{}
				for q := 0; q < nq; q++ {
					ch.qs[[]float64{0, 0.5, 0.9, 0.99, 1, 0.25, 0.999}[r.Intn(7)]] = pickFloat(r)
				}
				ch.count = uint64(r.Intn(1000))
				ch.sum = pickFloat(r)
			}
			f.children = append(f.children, ch)
		}
		if f.real {
			rs.hasReal = true
		}
		rs.fams = append(rs.fams, f)
	}
	return rs
}

func buildCollector(rs regSpec) *specCollector {
	c := &specCollector{}
	for _, f := range rs.fams {
		if f.real {
			c.subs = append(c.subs, buildReal(f))
			continue
		}
		d := prometheus.NewDesc(f.name, f.help, f.labelNames, f.constL)
		c.descs = append(c.descs, d)
		for _, ch := range f.children {
			var m prometheus.Metric
			switch f.typ {
			case tCounter:
				m = prometheus.MustNewConstMetric(d, prometheus.CounterValue, ch.val, ch.lvs...)
			case tGauge:
				m = prometheus.MustNewConstMetric(d, prometheus.GaugeValue, ch.val, ch.lvs...)
			case tUntyped:
				m = prometheus.MustNewConstMetric(d, prometheus.UntypedValue, ch.val, ch.lvs...)
			case tHistogram:
				m = prometheus.MustNewConstHistogram(d, ch.count, ch.sum, ch.bk, ch.lvs...)
			case tSummary:
				m = prometheus.MustNewConstSummary(d, ch.count, ch.sum, ch.qs, ch.lvs...)
			}
			if ch.hasTs {
				m = prometheus.NewMetricWithTimestamp(time.UnixMilli(ch.tsMs), m)
			}
			c.metrics = append(c.metrics, m)
		}
	}
	return c
}

func buildReal(f famSpec) prometheus.Collector {
	switch f.typ {
	case tCounter:
		v := prometheus.NewCounterVec(prometheus.CounterOpts{Name: f.name, Help: f.help, ConstLabels: f.constL}, f.labelNames)
		for _, ch := range f.children {
			x := math.Abs(ch.val)
			if x != x {
				x = 3
			}
			v.WithLabelValues(ch.lvs...).Add(x)
		}
		return v
	case tGauge, tUntyped:
		v := prometheus.NewGaugeVec(prometheus.GaugeOpts{Name: f.name, Help: f.help, ConstLabels: f.constL}, f.labelNames)
		for _, ch := range f.children {
			v.WithLabelValues(ch.lvs...).Set(ch.val)
		}
		return v
	case tHistogram:
		v := prometheus.NewHistogramVec(prometheus.HistogramOpts{Name: f.name, Help: f.help, ConstLabels: f.constL, Buckets: []float64{-1, 0, 0.5, 10}}, f.labelNames)
		for _, ch := range f.children {
			o := v.WithLabelValues(ch.lvs...)
			for k := uint64(0); k < ch.count%7; k++ {
				o.Observe(float64(k) - 1.5)
			}
			if ch.val == ch.val && !math.IsInf(ch.val, 0) {
				o.Observe(ch.val)
			}
		}
		return v
	default:
		v := prometheus.NewSummaryVec(prometheus.SummaryOpts{Name: f.name, Help: f.help, ConstLabels: f.constL, Objectives: map[float64]float64{0.5: 0.05, 0.9: 0.01},
			MaxAge: 100000 * time.Hour /* the window must not expire during a long (thorough) run: text0 is compared much later */}, f.labelNames)
		for _, ch := range f.children {
			o := v.WithLabelValues(ch.lvs...)
			for k := uint64(0); k < ch.count%5; k++ {
				o.Observe(float64(k) * 2.5)
			}
		}
		return v
	}
}

// realType: a real GaugeVec stands in for "untyped" families
func (f famSpec) gatheredType() int {
	if f.real && f.typ == tUntyped {
		return tGauge
	}
	return f.typ
}

// ---------------------------------------------------------------- expfmt oracles

func textFormat() expfmt.Format {
	return expfmt.NewFormat(expfmt.TypeTextPlain).WithEscapingScheme(model.NoEscaping)
}

func encodeOne(mf *dto.MetricFamily, f expfmt.Format) ([]byte, error) {
	var buf bytes.Buffer
	enc := expfmt.NewEncoder(&buf, f)
	if err := enc.Encode(mf); err != nil {
		return nil, err
	}
	return buf.Bytes(), nil
}

func encodeAll(mfs []*dto.MetricFamily) (string, error) {
	var sb strings.Builder
	for _, mf := range mfs {
		b, err := encodeOne(mf, textFormat())
		if err != nil {
			return "", err
		}
		sb.Write(b)
	}
	return sb.String(), nil
}

func hashOf(b []byte) string {
	h := fnv.New64a()
	h.Write(b)
	return "(" + emit.U(h.Sum64()>>1) + ")"
}

// famTok renders the oracle token (name ok payload) of one family.
func famTok(mf *dto.MetricFamily) string {
	b, err := encodeOne(mf, textFormat())
	if err != nil {
		return emit.Tup(emit.S(mf.GetName()), "0", "()")
	}
	return emit.Tup(emit.S(mf.GetName()), "1", hashOf(b))
}

// metricLess re-implements internal.MetricSorter.Less (independent of the code under test).
func metricLess(a, b *dto.Metric) bool {
	if len(a.Label) != len(b.Label) {
		return len(a.Label) < len(b.Label)
	}
	for n, lp := range a.Label {
		if ni, nj := lp.GetName(), b.Label[n].GetName(); ni != nj {
			return ni < nj
		}
		vi, vj := lp.GetValue(), b.Label[n].GetValue()
		if vi != vj {
			return vi < vj
		}
	}
	if a.TimestampMs == nil {
		return false
	}
	if b.TimestampMs == nil {
		return true
	}
	return a.GetTimestampMs() < b.GetTimestampMs()
}

// parseNorm parses with expfmt, fills nil help, prunes empty families, sorts metrics and families.
// raw is the parser's map flattened in name order (before normalisation, deep-copied metric order).
func parseNorm(text string) (norm []*dto.MetricFamily, ok bool) {
	var p expfmt.TextParser
	m, err := p.TextToMetricFamilies(strings.NewReader(text))
	if err != nil {
		return nil, false
	}
	names := make([]string, 0, len(m))
	for n := range m {
		names = append(names, n)
	}
	sort.Strings(names)
	for _, n := range names {
		mf := m[n]
		if mf.Help == nil {
			e := ""
			mf.Help = &e
		}
		if len(mf.Metric) == 0 {
			continue
		}
		sort.SliceStable(mf.Metric, func(i, j int) bool { return metricLess(mf.Metric[i], mf.Metric[j]) })
		norm = append(norm, mf)
	}
	return norm, true
}

func fbits(f float64) string {
	if f != f {
		return "NaN"
	}
	if f == 0 {
		return "0" // the text format writes -0 as "0": not expressible
	}
	return strconv.FormatUint(math.Float64bits(f), 16)
}

// projMetric is everything of a metric that the text format can express.
func projMetric(m *dto.Metric) string {
	var sb strings.Builder
	for _, l := range m.Label {
		fmt.Fprintf(&sb, "%q=%q,", l.GetName(), l.GetValue())
	}
	if m.TimestampMs != nil {
		fmt.Fprintf(&sb, "@%d", m.GetTimestampMs())
	}
	if m.Gauge != nil {
		sb.WriteString("|g:" + fbits(m.Gauge.GetValue()))
	}
	if m.Counter != nil {
		sb.WriteString("|c:" + fbits(m.Counter.GetValue()))
	}
	if m.Untyped != nil {
		sb.WriteString("|u:" + fbits(m.Untyped.GetValue()))
	}
	if s := m.Summary; s != nil {
		fmt.Fprintf(&sb, "|s:%d:%s", s.GetSampleCount(), fbits(s.GetSampleSum()))
		for _, q := range s.Quantile {
			fmt.Fprintf(&sb, ";%s=%s", fbits(q.GetQuantile()), fbits(q.GetValue()))
		}
	}
	if h := m.Histogram; h != nil {
		fmt.Fprintf(&sb, "|h:%d:%s", h.GetSampleCount(), fbits(h.GetSampleSum()))
		inf := false
		for _, b := range h.Bucket {
			fmt.Fprintf(&sb, ";%s=%d", fbits(b.GetUpperBound()), b.GetCumulativeCount())
			if math.IsInf(b.GetUpperBound(), 1) {
				inf = true
			}
		}
		if !inf { // the encoder always writes the +Inf bucket, from the sample count
			fmt.Fprintf(&sb, ";%s=%d", fbits(math.Inf(1)), h.GetSampleCount())
		}
	}
	return sb.String()
}

func projFamily(mf *dto.MetricFamily) string {
	ms := make([]string, len(mf.Metric))
	for i, m := range mf.Metric {
		ms[i] = projMetric(m)
	}
	sort.Strings(ms)
	return fmt.Sprintf("%q %q %s\n%s", mf.GetName(), mf.GetHelp(), mf.GetType(), strings.Join(ms, "\n"))
}

func inNames(n string, names []string) bool {
	for _, x := range names {
		if x == n {
			return true
		}
	}
	return false
}

// projAll: projection of the families restricted to names (nil = all), keyed by name.
func projAll(norm []*dto.MetricFamily, names []string) string {
	var sb strings.Builder
	for _, mf := range norm {
		if names != nil && !inNames(mf.GetName(), names) {
			continue
		}
		sb.WriteString(projFamily(mf))
		sb.WriteString("\n\x00\n")
	}
	return sb.String()
}

func tableOf(norm []*dto.MetricFamily, r *emit.Rng, shuffle bool) string {
	it := make([]string, len(norm))
	for i, mf := range norm {
		it[i] = famTok(mf)
	}
	if shuffle {
		for i := len(it) - 1; i > 0; i-- {
			j := r.Intn(i + 1)
			it[i], it[j] = it[j], it[i]
		}
	}
	return emit.L(it)
}

// ---------------------------------------------------------------- classification of the helpers' answers

func classify(err error) int {
	if err == nil {
		return 0
	}
	s := err.Error()
	switch {
	case strings.HasPrefix(s, "converting reader to metric families failed"):
		return 2
	case strings.HasPrefix(s, "gathering metrics failed"):
		return 3
	case strings.HasPrefix(s, "encoding gathered metrics failed"):
		return 4
	case strings.HasPrefix(s, "encoding expected metrics failed"):
		return 5
	case strings.HasPrefix(s, "registering collector failed"):
		return 6
	case strings.HasPrefix(s, "scraping metrics failed"):
		return 7
	case strings.HasPrefix(s, "the scraping target returned a status code other than 200"):
		return 8
	}
	return 1
}

func looksLikeDiff(err error) bool {
	for _, l := range strings.Split(err.Error(), "\n") {
		if strings.HasPrefix(l, "+") || strings.HasPrefix(l, "-") {
			return true
		}
	}
	return false
}

// ---------------------------------------------------------------- perturbations of the text form

const (
	pIdentity = iota
	pSampleName
	pHelpName
	pTypeName
	pType
	pHelp
	pLabelName
	pLabelValue
	pValue
	pValueNeutral
	pTimestamp
	pBucketBound
	pBucketCount
	pQuantile
	pQuantileValue
	pSumCount
	pDropLine
	pDupLine
	pSwapLines
	pWhitespace
	pGarbage
	pBoundNeutral
	pNameEscape
	pExtraFamily
	nKinds
)

var kindNames = []string{"identity", "sample-name", "help-name", "type-name", "type", "help", "label-name", "label-value", "value",
	"value-neutral", "timestamp", "bucket-bound", "bucket-count", "quantile", "quantile-value", "sum-count", "drop-line", "dup-line",
	"swap-lines", "whitespace-neutral", "garbage-line", "bound-neutral", "name-escape", "extra-family"}

type perturb struct {
	kind int
	fam  string // family the touched line belongs to
	text string
}

type span struct{ s, e, kind int }

const (
	kName = iota
	kLName
	kLValue
	kValue
	kTs
)

// tokenizeSample finds the tokens of a sample line as written by expfmt's text encoder.
func tokenizeSample(line string) (toks []span, lnames []string, ok bool) {
	i := 0
	n := len(line)
	readQuoted := func() (int, int, bool) { // i at opening quote; returns inner span
		s := i + 1
		j := s
		for j < n {
			if line[j] == '\\' {
				j += 2
				continue
			}
			if line[j] == '"' {
				i = j + 1
				return s, j, true
			}
			j++
		}
		return 0, 0, false
	}
	if n == 0 {
		return nil, nil, false
	}
	if line[0] != '{' {
		for i < n && line[i] != '{' && line[i] != ' ' {
			i++
		}
		toks = append(toks, span{0, i, kName})
	}
	if i < n && line[i] == '{' {
		i++
		for i < n && line[i] != '}' {
			var ls, le int
			if line[i] == '"' {
				s, e, ok := readQuoted()
				if !ok {
					return nil, nil, false
				}
				if i < n && line[i] != '=' { // quoted metric name
					toks = append(toks, span{s, e, kName})
					if i < n && line[i] == ',' {
						i++
					}
					continue
				}
				ls, le = s, e
			} else {
				ls = i
				for i < n && line[i] != '=' {
					i++
				}
				le = i
			}
			if i >= n || line[i] != '=' || i+1 >= n || line[i+1] != '"' {
				return nil, nil, false
			}
			i++
			vs, ve, ok := readQuoted()
			if !ok {
				return nil, nil, false
			}
			toks = append(toks, span{ls, le, kLName}, span{vs, ve, kLValue})
			lnames = append(lnames, line[ls:le])
			if i < n && line[i] == ',' {
				i++
			}
		}
		if i >= n {
			return nil, nil, false
		}
		i++ // }
	}
	if i >= n || line[i] != ' ' {
		return nil, nil, false
	}
	i++
	s := i
	for i < n && line[i] != ' ' {
		i++
	}
	toks = append(toks, span{s, i, kValue})
	if i < n {
		i++
		toks = append(toks, span{i, n, kTs})
	}
	return toks, lnames, true
}

func splice(line string, sp span, repl string) string { return line[:sp.s] + repl + line[sp.e:] }

func fmtFloat(f float64) string {
	switch {
	case f != f:
		return "NaN"
	case math.IsInf(f, 1):
		return "+Inf"
	case math.IsInf(f, -1):
		return "-Inf"
	}
	return strconv.FormatFloat(f, 'g', -1, 64)
}

func valueVariants(tok string) (changing []string, neutral []string) {
	f, err := strconv.ParseFloat(tok, 64)
	if err != nil {
		return []string{"1"}, nil
	}
	add := func(x float64) {
		s := fmtFloat(x)
		if s != tok {
			changing = append(changing, s)
		}
	}
	if f == f && !math.IsInf(f, 0) {
		add(math.Nextafter(f, math.Inf(1))) // one ulp
		add(f + 1)
		if f != 0 {
			add(-f)
		}
	}
	if f == f {
		changing = append(changing, "NaN")
	} else {
		changing = append(changing, "0")
	}
	if !math.IsInf(f, 1) {
		changing = append(changing, "+Inf")
	}
	if f == f && !math.IsInf(f, 0) {
		if f == math.Trunc(f) && math.Abs(f) < 1e15 {
			neutral = append(neutral, strconv.FormatFloat(f, 'f', 1, 64), strconv.FormatFloat(f, 'e', -1, 64))
		} else {
			neutral = append(neutral, strconv.FormatFloat(f, 'e', -1, 64))
		}
		if f >= 0 && !strings.HasPrefix(tok, "+") {
			neutral = append(neutral, "+"+tok)
		}
	} else if f != f {
		neutral = append(neutral, "nan")
	} else if math.IsInf(f, 1) {
		neutral = append(neutral, "Inf", "+inf")
	} else {
		neutral = append(neutral, "-inf")
	}
	return
}

// allPerturbations enumerates every single-token perturbation of text.
func allPerturbations(text string, famNames []string) []perturb {
	lines := strings.Split(strings.TrimSuffix(text, "\n"), "\n")
	var out []perturb
	build := func(i int, repl ...string) string {
		var sb strings.Builder
		for k, l := range lines {
			if k == i {
				for _, x := range repl {
					sb.WriteString(x)
					sb.WriteString("\n")
				}
				continue
			}
			sb.WriteString(l)
			sb.WriteString("\n")
		}
		return sb.String()
	}
	emitP := func(kind int, fam string, i int, repl ...string) {
		out = append(out, perturb{kind, fam, build(i, repl...)})
	}
	otherName := func(cur string) string {
		for _, n := range famNames {
			if n != cur {
				return n
			}
		}
		return ""
	}
	cur := ""
	for i, line := range lines {
		switch {
		case strings.HasPrefix(line, "# HELP ") || strings.HasPrefix(line, "# TYPE "):
			isHelp := strings.HasPrefix(line, "# HELP ")
			rest := line[7:]
			var ns, ne int // name span within line (inner if quoted)
			if strings.HasPrefix(rest, "\"") {
				ns = 8
				ne = ns + strings.Index(line[ns:], "\"")
			} else {
				ns = 7
				sp := strings.Index(rest, " ")
				if sp < 0 {
					sp = len(rest)
				}
				ne = ns + sp
			}
			name := line[ns:ne]
			cur = strings.ReplaceAll(name, "\\\\", "\\")
			after := ne
			if line[ns-1] == '"' {
				after++
			}
			kindN := pTypeName
			if isHelp {
				kindN = pHelpName
			}
			emitP(kindN, cur, i, line[:ne]+"x"+line[ne:])
			if o := otherName(cur); o != "" && line[ns-1] != '"' && model.IsValidLegacyMetricName(o) {
				emitP(kindN, cur, i, line[:ns]+o+line[ne:])
			}
			if isHelp {
				h := ""
				if after+1 <= len(line) {
					h = line[after+1:]
				}
				pre := line[:after] + " "
				emitP(pHelp, cur, i, pre+h+"x")
				if h != "" {
					emitP(pHelp, cur, i, pre+h[:len(h)-1])
					emitP(pHelp, cur, i, pre)
					emitP(pHelp, cur, i, pre+"Z"+h[1:])
					emitP(pHelp, cur, i, pre+strings.ToUpper(h)+"!")
				} else {
					emitP(pHelp, cur, i, pre+"\\n")
				}
			} else {
				ty := line[after+1:]
				for _, w := range append(append([]string{}, typeWords...), "bogus", "") {
					if w != ty {
						emitP(pType, cur, i, line[:after+1]+w)
					}
				}
			}
		default:
			toks, lnames, ok := tokenizeSample(line)
			if !ok {
				continue
			}
			for _, sp := range toks {
				t := line[sp.s:sp.e]
				switch sp.kind {
				case kName:
					emitP(pSampleName, cur, i, splice(line, sp, t+"x"))
					emitP(pSampleName, cur, i, splice(line, sp, "q"+t))
					if o := otherName(cur); o != "" && sp.s == 0 && model.IsValidLegacyMetricName(o) {
						emitP(pSampleName, cur, i, splice(line, sp, o))
					}
				case kLName:
					if t == "le" || t == "quantile" {
						emitP(pLabelName, cur, i, splice(line, sp, t+"x"))
						continue
					}
					emitP(pLabelName, cur, i, splice(line, sp, t+"x"))
					if len(t) > 1 {
						emitP(pLabelName, cur, i, splice(line, sp, t[:len(t)-1]))
					}
					for _, o := range lnames {
						if o != t {
							emitP(pLabelName, cur, i, splice(line, sp, o)) // duplicate label name
							break
						}
					}
				case kLValue:
					// which label is it?
					ln := ""
					for k, s2 := range toks {
						if s2 == sp && k > 0 {
							ln = line[toks[k-1].s:toks[k-1].e]
						}
					}
					if ln == "le" || ln == "quantile" {
						kind, nk := pBucketBound, pBoundNeutral
						if ln == "quantile" {
							kind = pQuantile
						}
						ch, ne := valueVariants(t)
						for _, v := range ch {
							emitP(kind, cur, i, splice(line, sp, v))
						}
						for _, v := range ne {
							emitP(nk, cur, i, splice(line, sp, v))
						}
						continue
					}
					emitP(pLabelValue, cur, i, splice(line, sp, t+"x"))
					emitP(pLabelValue, cur, i, splice(line, sp, t+" "))
					if t != "" {
						emitP(pLabelValue, cur, i, splice(line, sp, ""))
						emitP(pLabelValue, cur, i, splice(line, sp, t[1:]))
						emitP(pLabelValue, cur, i, splice(line, sp, t[:len(t)-1]))
					} else {
						emitP(pLabelValue, cur, i, splice(line, sp, "\\\\"))
					}
				case kValue:
					kind := pValue
					name := line[toks[0].s:toks[0].e]
					isBucket := false
					for _, l := range lnames {
						if l == "le" {
							isBucket = true
						}
						if l == "quantile" {
							kind = pQuantileValue
						}
					}
					if isBucket {
						kind = pBucketCount
					} else if (strings.HasSuffix(name, "_sum") || strings.HasSuffix(name, "_count")) && kind == pValue {
						kind = pSumCount
					}
					ch, ne := valueVariants(t)
					for _, v := range ch {
						emitP(kind, cur, i, splice(line, sp, v))
					}
					for _, v := range ne {
						emitP(pValueNeutral, cur, i, splice(line, sp, v))
					}
				case kTs:
					emitP(pTimestamp, cur, i, line[:sp.s-1])
					if v, err := strconv.ParseInt(t, 10, 64); err == nil && v < math.MaxInt64 {
						emitP(pTimestamp, cur, i, splice(line, sp, strconv.FormatInt(v+1, 10)))
					}
				}
			}
			if len(toks) > 0 && toks[len(toks)-1].kind == kValue {
				emitP(pTimestamp, cur, i, line+" 1000")
			}
			// neutral whitespace inside a sample line
			if v := toks[len(toks)-1]; v.kind == kValue {
				emitP(pWhitespace, cur, i, line[:v.s]+" "+line[v.s:])
				emitP(pWhitespace, cur, i, line+" ")
				emitP(pWhitespace, cur, i, line[:v.s-1]+"\t"+line[v.s:])
			}
		}
		emitP(pDropLine, cur, i)
		emitP(pDupLine, cur, i, line, line)
		if i+1 < len(lines) {
			emitP(pSwapLines, cur, i, lines[i+1], line)
			// the swap consumed line i+1 as well: rebuild without the original i+1
			out[len(out)-1].text = func() string {
				var sb strings.Builder
				for k, l := range lines {
					switch k {
					case i:
						sb.WriteString(lines[i+1])
					case i + 1:
						sb.WriteString(lines[i])
					default:
						sb.WriteString(l)
					}
					sb.WriteString("\n")
				}
				return sb.String()
			}()
		}
		emitP(pWhitespace, cur, i, "# a comment", line)
		emitP(pWhitespace, cur, i, "", line)
		emitP(pGarbage, cur, i, line, "garbage{")
		emitP(pGarbage, cur, i, line, "no_value_here")
	}
	// no trailing newline
	out = append(out, perturb{pGarbage, cur, strings.TrimSuffix(text, "\n")})
	return out
}

// escapeVariants: names that differ from name only where an escaping scheme would write '_':
// every non-legacy character replaced by '_' (all of them, only the first), and the reverse
// direction (the first / last '_' replaced by '.', '-' or a non-ASCII letter).
func escapeVariants(name string) []string {
	var out []string
	add := func(s string) {
		if s != name && s != "" {
			for _, o := range out {
				if o == s {
					return
				}
			}
			out = append(out, s)
		}
	}
	legacy := func(i int, c rune) bool {
		return c == '_' || c == ':' || (c >= 'a' && c <= 'z') || (c >= 'A' && c <= 'Z') || (i > 0 && c >= '0' && c <= '9')
	}
	all := []rune(name)
	first := []rune(name)
	done := false
	for i, c := range []rune(name) {
		if !legacy(i, c) {
			all[i] = '_'
			if !done {
				first[i] = '_'
				done = true
			}
		}
	}
	add(string(all))
	add(string(first))
	if i := strings.IndexByte(name, '_'); i >= 0 {
		add(name[:i] + "." + name[i+1:])
		add(name[:i] + "-" + name[i+1:])
	}
	if i := strings.LastIndexByte(name, '_'); i >= 0 {
		add(name[:i] + "é" + name[i+1:])
	}
	return out
}

// escapePerturbations renames one metric family (in all of its lines) or one label name (in one
// child, and in all children) and writes the result with the NoEscaping text encoder, which quotes
// names as needed.
func escapePerturbations(c *regCtx) []perturb {
	var out []perturb
	render := func(fam string, edit func(mf *dto.MetricFamily)) {
		var mfs []*dto.MetricFamily
		for _, mf := range c.norm0 {
			if mf.GetName() == fam {
				mf = proto.Clone(mf).(*dto.MetricFamily)
				edit(mf)
			}
			mfs = append(mfs, mf)
		}
		if t, err := encodeAll(mfs); err == nil && t != c.text0 {
			out = append(out, perturb{pNameEscape, fam, t})
		}
	}
	for _, mf := range c.norm0 {
		fam := mf.GetName()
		for _, v := range escapeVariants(fam) {
			v := v
			render(fam, func(m *dto.MetricFamily) { m.Name = proto.String(v) })
		}
		seen := map[string]bool{}
		for _, m := range mf.Metric {
			for _, l := range m.Label {
				ln := l.GetName()
				if seen[ln] {
					continue
				}
				seen[ln] = true
				for _, v := range escapeVariants(ln) {
					v := v
					render(fam, func(m *dto.MetricFamily) { // every child
						for _, x := range m.Metric {
							for _, y := range x.Label {
								if y.GetName() == ln {
									y.Name = proto.String(v)
								}
							}
						}
					})
					render(fam, func(m *dto.MetricFamily) { // the first child only
						for _, y := range m.Metric[0].Label {
							if y.GetName() == ln {
								y.Name = proto.String(v)
							}
						}
					})
				}
			}
		}
	}
	return out
}

// sample keeps at most limit perturbations, round-robin over the kinds so that every kind present survives.
func sample(r *emit.Rng, ps []perturb, limit int) []perturb {
	if len(ps) <= limit {
		return ps
	}
	by := make([][]perturb, nKinds)
	for _, p := range ps {
		by[p.kind] = append(by[p.kind], p)
	}
	for k := range by {
		b := by[k]
		for i := len(b) - 1; i > 0; i-- {
			j := r.Intn(i + 1)
			b[i], b[j] = b[j], b[i]
		}
	}
	var out []perturb
	for len(out) < limit {
		progressed := false
		for k := range by {
			if len(by[k]) > 0 && len(out) < limit {
				out = append(out, by[k][0])
				by[k] = by[k][1:]
				progressed = true
			}
		}
		if !progressed {
			break
		}
	}
	return out
}

// ---------------------------------------------------------------- name filters

const nNameModes = 8

var nameModeTags = []string{"names:nil", "names:all", "names:only-target", "names:all-but-target", "names:empty-non-nil", "names:only-unknown", "names:subset+unknown", "names:sample-suffixes"}

func namesFor(mode int, all []string, target string, r *emit.Rng) []string {
	switch mode {
	case 0:
		return nil
	case 1:
		return append([]string{}, all...)
	case 2:
		if target == "" {
			return []string{all[0]}
		}
		return []string{target}
	case 3:
		out := []string{}
		for _, n := range all {
			if n != target {
				out = append(out, n)
			}
		}
		return out
	case 4:
		return []string{}
	case 5:
		return []string{"no_such_metric"}
	case 7:
		// sample names, not family names: <family>_bucket/_sum/_count/_total/_created select nothing
		sfx := []string{"_bucket", "_sum", "_count", "_total", "_created"}
		out := []string{}
		for _, n := range all {
			out = append(out, n+sfx[r.Intn(len(sfx))])
			if n == target || r.Chance(1, 3) {
				out = append(out, n+"_count", n+"_sum", n+"_bucket")
			}
		}
		return out
	default:
		out := []string{"no_such_metric"}
		for _, n := range all {
			if r.Bool() {
				out = append(out, n)
			}
		}
		if r.Bool() && len(all) > 0 {
			out = append(out, all[0]) // a duplicate entry in the names
		}
		return out
	}
}

func namesTerm(names []string) string {
	if names == nil {
		return emit.None()
	}
	return emit.Some(emit.SL(names))
}

// ---------------------------------------------------------------- gatherers

type fixedGatherer struct {
	mfs []*dto.MetricFamily
	err error
}

func (g fixedGatherer) Gather() ([]*dto.MetricFamily, error) { return g.mfs, g.err }

// txGatherer is a strict TransactionalGatherer: the families it hands out are private deep copies
// that are only valid until done() is called.  done() overwrites them in place (names, help, type,
// every label and value, metrics dropped) and replaces the slice elements, like a cache that is
// refreshed in place once the transaction is over; any use of the families after done() therefore
// changes the helper's verdict.  dones counts the calls (must be exactly one).
type txGatherer struct {
	mfs    []*dto.MetricFamily
	err    error
	dones  *int
	shared bool // serve mfs itself (a snapshot shared by all calls) instead of strict private copies
}

func (g txGatherer) Gather() ([]*dto.MetricFamily, func(), error) {
	if g.shared {
		return g.mfs, func() { *g.dones++ }, g.err
	}
	var out []*dto.MetricFamily
	if g.mfs != nil {
		out = make([]*dto.MetricFamily, len(g.mfs))
		for i, mf := range g.mfs {
			out[i] = proto.Clone(mf).(*dto.MetricFamily)
		}
	}
	handed := append([]*dto.MetricFamily(nil), out...)
	return out, func() {
		*g.dones++
		for i, mf := range handed {
			mf.Name = proto.String(fmt.Sprintf("released_after_done_%d", i))
			mf.Help = proto.String("this family was used after done()")
			mf.Type = dto.MetricType_UNTYPED.Enum()
			mf.Metric = []*dto.Metric{{Label: []*dto.LabelPair{{Name: proto.String("released"), Value: proto.String("yes")}},
				Untyped: &dto.Untyped{Value: proto.Float64(-12345.678)}}}
			if i < len(out) {
				out[i] = &dto.MetricFamily{Name: proto.String(fmt.Sprintf("released_slot_%d", i)), Help: proto.String(""),
					Type: dto.MetricType_GAUGE.Enum(), Metric: []*dto.Metric{{Gauge: &dto.Gauge{Value: proto.Float64(float64(i))}}}}
			}
		}
	}, g.err
}

type scrapeServer struct {
	n      int
	srv    *httptest.Server
	body   string
	status int
	h      http.Handler
}

func newScrapeServer() *scrapeServer {
	s := &scrapeServer{status: 200}
	s.srv = httptest.NewServer(http.HandlerFunc(func(w http.ResponseWriter, req *http.Request) {
		if s.h != nil {
			s.h.ServeHTTP(w, req)
			return
		}
		w.Header().Set("Content-Type", "text/plain; version=0.0.4; charset=utf-8")
		w.WriteHeader(s.status)
		// the body is sent in several flushed writes, every third time with a pause in between,
		// so that it is not complete when the client's Do returns
		s.n++
		b := []byte(s.body)
		fl, _ := w.(http.Flusher)
		cut := len(b) / 3
		if s.status == 200 && fl != nil && cut > 0 {
			w.Write(b[:cut])
			fl.Flush()
			if s.n%8 == 0 {
				time.Sleep(time.Millisecond)
			}
			w.Write(b[cut : 2*cut])
			fl.Flush()
			b = b[2*cut:]
		}
		w.Write(b)
	}))
	return s
}

// ---------------------------------------------------------------- the compare stream

type world struct {
	metaChecks int
	calls      int
	skipped    []string
	r          *emit.Rng
	srv        *scrapeServer
	direct     []map[string]interface{}
}

type regCtx struct {
	rs      regSpec
	coll    *specCollector
	reg     *prometheus.Registry
	got     []*dto.MetricFamily
	text0   string
	names   []string
	gotTab  string
	norm0   []*dto.MetricFamily
	bodyTab string
}

func newRegCtx(rs regSpec, r *emit.Rng) (*regCtx, error) {
	c := &regCtx{rs: rs, coll: buildCollector(rs)}
	c.reg = prometheus.NewPedanticRegistry()
	if err := c.reg.Register(c.coll); err != nil {
		return nil, err
	}
	got, err := c.reg.Gather()
	if err != nil {
		return nil, err
	}
	c.got = got
	c.text0, err = encodeAll(got)
	if err != nil {
		return nil, err
	}
	for _, mf := range got {
		c.names = append(c.names, mf.GetName())
	}
	it := make([]string, len(got))
	for i, mf := range got {
		it[i] = famTok(mf)
	}
	c.gotTab = emit.L(it)
	var ok bool
	c.norm0, ok = parseNorm(c.text0)
	if !ok {
		return nil, errors.New("own exposition does not parse")
	}
	c.bodyTab = emit.Some(tableOf(c.norm0, r, true))
	return c, nil
}

// runHelper calls one of the four helpers on the real code.
func (w *world) runHelper(helper int, c *regCtx, expected string, names []string) error {
	switch helper {
	case 0:
		w.calls++
		if w.calls%3 == 0 { // a Gatherer that serves the same prebuilt snapshot (same backing slice) on every call
			return testutil.GatherAndCompare(fixedGatherer{mfs: c.got}, strings.NewReader(expected), names...)
		}
		return testutil.GatherAndCompare(c.reg, strings.NewReader(expected), names...)
	case 1:
		return testutil.CollectAndCompare(c.coll, strings.NewReader(expected), names...)
	case 2:
		dones := 0
		w.calls++
		// alternately: strict transaction (private copies, wiped by done()) and a caching gatherer that
		// serves the same snapshot slice on every call (must not be modified by the helper)
		err := testutil.TransactionalGatherAndCompare(txGatherer{mfs: c.got, dones: &dones, shared: w.calls%2 == 0}, strings.NewReader(expected), names...)
		if dones != 1 {
			w.direct = append(w.direct, map[string]interface{}{"index": -1, "what": fmt.Sprintf("TransactionalGatherAndCompare called done() %d times", dones)})
		}
		return err
	default:
		w.srv.body, w.srv.status, w.srv.h = c.text0, 200, nil
		return testutil.ScrapeAndCompare(w.srv.srv.URL, strings.NewReader(expected), names...)
	}
}

func (w *world) compareCase(out *emit.Writer, c *regCtx, helper int, p perturb, mode int, proj0 map[int]string) {
	names := namesFor(mode, c.names, p.fam, w.r)
	normP, pok := parseNorm(p.text)
	changed := true
	ep := emit.None()
	if pok {
		var base string
		if mode == 6 || mode == 7 { // random: not cached
			base = projAll(c.norm0, names)
		} else if mode == 2 || mode == 3 {
			base = projAll(c.norm0, names)
		} else {
			base = proj0[mode]
		}
		changed = base != projAll(normP, names)
		ep = emit.Some(tableOf(normP, w.r, true))
	}
	err := w.runHelper(helper, c, p.text, names)
	cls := classify(err)
	if dbg := os.Getenv("VERIF_C17_DEBUG"); dbg != "" && p.kind == pIdentity && cls != 0 {
		if f, e := os.OpenFile(dbg, os.O_APPEND|os.O_CREATE|os.O_WRONLY, 0o644); e == nil {
			fmt.Fprintf(f, "=== index %d helper %d mode %d\n--- error\n%v\n--- text\n%s\n", out.Len(), helper, mode, err, p.text)
			f.Close()
		}
	}
	if cls == 1 && names != nil {
		// metamorphic: the diff must be the diff of the RESTRICTED sides, i.e. the same error text as for a
		// gatherer that contains only the families named in the filter (same names, same expected text)
		if what := w.restrictedDiffCheck(c, err, p.text, names); what != "" {
			w.direct = append(w.direct, map[string]interface{}{"index": out.Len(), "what": what})
		}
	}
	if cls == 1 && !looksLikeDiff(err) {
		w.direct = append(w.direct, map[string]interface{}{"index": out.Len(), "what": "non-nil error without a +/- diff line: " + firstLine(err.Error())})
	}
	bp := emit.None()
	if helper == 3 {
		bp = c.bodyTab
	}
	term := emit.Tup("0", emit.I(helper), emit.I(p.kind), namesTerm(names), emit.Tup("0", "0", "0", "200"), bp, ep, c.gotTab, emit.B(changed), emit.I(cls))
	tags := []string{"kind:" + kindNames[p.kind], nameModeTags[mode], "helper:" + []string{"GatherAndCompare", "CollectAndCompare", "TransactionalGatherAndCompare", "ScrapeAndCompare"}[helper]}
	switch {
	case !pok:
		tags = append(tags, "expect:parse-error")
	case changed:
		tags = append(tags, "expect:diff")
	default:
		tags = append(tags, "expect:nil")
	}
	if c.rs.utf8 {
		tags = append(tags, "registry:utf8-names")
	}
	out.Add(term, p.kind != pIdentity || mode != 0, tags...)
}

// restrictedDiffCheck compares the error text of a failing filtered comparison with the one obtained
// from a pre-filtered gatherer.  Returns a description of the disagreement, or "".
func (w *world) restrictedDiffCheck(c *regCtx, err error, expected string, names []string) string {
	var pre []*dto.MetricFamily
	for _, mf := range c.got {
		if inNames(mf.GetName(), names) {
			pre = append(pre, mf)
		}
	}
	ref := testutil.GatherAndCompare(fixedGatherer{mfs: pre}, strings.NewReader(expected), names...)
	w.metaChecks++
	switch {
	case ref == nil:
		return "filtered comparison fails but the same comparison on a pre-filtered gatherer succeeds"
	case ref.Error() != err.Error():
		return fmt.Sprintf("diff of a filtered comparison is not the diff of the restricted sides (names %q): got %q..., pre-filtered gatherer gives %q...",
			names, firstLine(err.Error()), firstLine(ref.Error()))
	}
	return ""
}

func firstLine(s string) string {
	if i := strings.IndexByte(s, '\n'); i >= 0 {
		s = s[:i]
	}
	if len(s) > 160 {
		s = s[:160]
	}
	return s
}

func (w *world) compareStream(dir string, scale int, regs []*regCtx) error {
	out := emit.NewWriter(dir, "C17", "compare")
	limit := 220
	if scale > 1 {
		limit = 1 << 30
	}
	k := 0
	for _, c := range regs {
		proj0 := map[int]string{}
		for _, mode := range []int{0, 1, 4, 5} {
			proj0[mode] = projAll(c.norm0, namesFor(mode, c.names, "", w.r))
		}
		// reflexivity: the gatherer's own exposition, every helper, every name filter
		target := c.names[w.r.Intn(len(c.names))]
		for helper := 0; helper < 4; helper++ {
			for mode := 0; mode < nNameModes; mode++ {
				w.compareCase(out, c, helper, perturb{pIdentity, target, c.text0}, mode, proj0)
			}
		}
		ps := sample(w.r, allPerturbations(c.text0, c.names), limit)
		for _, p := range ps {
			helper := k % 4
			mode := (k / 4) % nNameModes
			if w.r.Chance(1, 3) {
				mode = []int{0, 1, 2}[w.r.Intn(3)] // the modes in which the perturbation is visible
			}
			k++
			w.compareCase(out, c, helper, p, mode, proj0)
		}
		// the expected text contains a family that the gatherer does not have and that the filter names,
		// while the gatherer has other families: the filter matches no (or not only) gathered families
		for _, extra := range []string{"# HELP no_such_metric h\n# TYPE no_such_metric gauge\nno_such_metric 1\n",
			"# TYPE no_such_metric counter\nno_such_metric{a=\"b\"} 2 1000\n"} {
			for _, mode := range []int{5, 6, 0, 1} {
				w.compareCase(out, c, k%4, perturb{pExtraFamily, c.names[0], c.text0 + extra}, mode, proj0)
				k++
			}
		}
		// names that differ only in characters which name escaping maps to '_' (never sampled away)
		for _, p := range escapePerturbations(c) {
			helper := k % 4
			mode := 0 // a renamed family is only visible without a name filter
			if w.r.Chance(1, 4) {
				mode = 1 + w.r.Intn(nNameModes-1)
			}
			k++
			w.compareCase(out, c, helper, p, mode, proj0)
		}
	}
	out.Tag("metamorphic:restricted-diff-checks", w.metaChecks)
	for _, f := range typeWords {
		out.Tag("registry-has-type:"+f, 0)
	}
	for _, c := range regs {
		seen := map[int]bool{}
		for _, f := range c.rs.fams {
			if !seen[f.typ] {
				seen[f.typ] = true
				out.Tag("registry-has-type:"+typeWords[f.typ], 1)
			}
		}
		if c.rs.hasReal {
			out.Tag("registry-has-real-vec", 1)
		}
	}
	if len(w.direct) > 0 {
		out.Extra["direct_failures"] = w.direct
	}
	if len(w.skipped) > 0 {
		out.Extra["skipped_registries"] = w.skipped
	}
	return out.Flush()
}

// ---------------------------------------------------------------- the malformed stream

type badCollector struct{ mode int }

var badDesc = prometheus.NewDesc("bad_collector_metric", "h", nil, nil)

func (b badCollector) Describe(ch chan<- *prometheus.Desc) {
	switch b.mode {
	case 0: // invalid desc: registration fails
		ch <- prometheus.NewDesc("bad_collector_metric", "h", []string{"__reserved"}, nil)
	default:
		ch <- badDesc
	}
}
func (b badCollector) Collect(ch chan<- prometheus.Metric) {
	switch b.mode {
	case 1: // a metric that was not described: the pedantic registry's Gather fails
		ch <- prometheus.MustNewConstMetric(prometheus.NewDesc("undescribed_metric", "h", nil, nil), prometheus.GaugeValue, 1)
	case 2: // Write fails
		ch <- prometheus.NewInvalidMetric(badDesc, errors.New("write fails"))
	default:
		ch <- prometheus.MustNewConstMetric(badDesc, prometheus.GaugeValue, 1)
	}
}

func (w *world) malformedStream(dir string, scale int, regs []*regCtx) error {
	out := emit.NewWriter(dir, "C17", "malformed")
	r := w.r
	garbage := func(c *regCtx) (string, string) {
		t := c.text0
		switch r.Intn(9) {
		case 0:
			return "", "expected:empty"
		case 1:
			b := make([]byte, 1+r.Intn(40))
			for i := range b {
				b[i] = byte(r.Intn(256))
			}
			return string(b), "expected:random-bytes"
		case 2:
			if len(t) > 1 {
				return t[:1+r.Intn(len(t)-1)], "expected:truncated"
			}
			return t, "expected:truncated"
		case 3:
			return "# just a comment\n\n", "expected:only-comments"
		case 4:
			return t + t, "expected:doubled"
		case 5:
			return strings.ReplaceAll(t, "\"", ""), "expected:quotes-removed"
		case 6:
			return strings.ReplaceAll(t, "\n", "\r\n"), "expected:crlf"
		case 7:
			return "# TYPE a counter\n# TYPE a gauge\na 1\n", "expected:second-type-line"
		default:
			return "a{b=\"c\"} 1\na{b=\"c\"} 1\nmetric_without_value\n", "expected:missing-value"
		}
	}
	n := 40 * scale
	for i := 0; i < n; i++ {
		c := regs[r.Intn(len(regs))]
		mode := r.Intn(nNameModes)
		names := namesFor(mode, c.names, c.names[r.Intn(len(c.names))], r)
		// (a) malformed expected text through all four helpers
		for helper := 0; helper < 4; helper++ {
			exp, tag := garbage(c)
			normP, pok := parseNorm(exp)
			changed := true
			ep := emit.None()
			if pok {
				changed = projAll(c.norm0, names) != projAll(normP, names)
				ep = emit.Some(tableOf(normP, r, true))
			}
			cls := classify(w.runHelper(helper, c, exp, names))
			bp := emit.None()
			if helper == 3 {
				bp = c.bodyTab
			}
			out.Add(emit.Tup("0", emit.I(helper), emit.I(pGarbage), namesTerm(names), emit.Tup("0", "0", "0", "200"), bp, ep, c.gotTab, emit.B(changed), emit.I(cls)),
				true, tag, fmt.Sprintf("class:%d", cls), nameModeTags[mode])
		}
		// (b) failures before the comparison; the expected text is the own exposition
		ep := c.bodyTab
		gerr := errors.New("gatherer fails")
		add := func(helper int, flags string, bp string, cls int, tag string) {
			out.Add(emit.Tup("0", emit.I(helper), emit.I(pIdentity), namesTerm(names), flags, bp, ep, c.gotTab, emit.B(false), emit.I(cls)),
				true, tag, fmt.Sprintf("class:%d", cls), nameModeTags[mode])
		}
		switch i % 8 {
		case 0:
			add(0, emit.Tup("0", "1", "0", "200"), emit.None(), classify(testutil.GatherAndCompare(fixedGatherer{c.got, gerr}, strings.NewReader(c.text0), names...)), "pre:gatherer-error-with-families")
		case 1:
			add(0, emit.Tup("0", "1", "0", "200"), emit.None(), classify(testutil.GatherAndCompare(fixedGatherer{nil, gerr}, strings.NewReader(c.text0), names...)), "pre:gatherer-error")
		case 2:
			dones := 0
			cls := classify(testutil.TransactionalGatherAndCompare(txGatherer{mfs: c.got, err: gerr, dones: &dones, shared: i%16 == 2}, strings.NewReader(c.text0), names...))
			if dones != 1 {
				w.direct = append(w.direct, map[string]interface{}{"index": out.Len(), "what": fmt.Sprintf("done() called %d times on a failed gather", dones)})
			}
			add(2, emit.Tup("0", "1", "0", "200"), emit.None(), cls, "pre:tx-gatherer-error")
		case 3:
			add(1, emit.Tup("1", "0", "0", "200"), emit.None(), classify(testutil.CollectAndCompare(badCollector{0}, strings.NewReader(c.text0), names...)), "pre:register-fails")
		case 4:
			add(1, emit.Tup("0", "1", "0", "200"), emit.None(), classify(testutil.CollectAndCompare(badCollector{1 + r.Intn(2)}, strings.NewReader(c.text0), names...)), "pre:pedantic-gather-fails")
		case 5:
			st := []int{500, 404, 204, 201, 503, 202}[r.Intn(6)]
			w.srv.body, w.srv.status, w.srv.h = c.text0, st, nil
			add(3, emit.Tup("0", "0", "0", emit.I(st)), c.bodyTab, classify(testutil.ScrapeAndCompare(w.srv.srv.URL, strings.NewReader(c.text0), names...)), "pre:scrape-status")
		case 6:
			add(3, emit.Tup("0", "0", "1", "200"), c.bodyTab, classify(testutil.ScrapeAndCompare("http://127.0.0.1:1/metrics", strings.NewReader(c.text0), names...)), "pre:scrape-unreachable")
		default:
			body, _ := garbage(c)
			nb, bok := parseNorm(body)
			bp := emit.None()
			changed := true
			if bok {
				bp = emit.Some(tableOf(nb, r, true))
				changed = projAll(nb, names) != projAll(c.norm0, names)
			}
			w.srv.body, w.srv.status, w.srv.h = body, 200, nil
			cls := classify(testutil.ScrapeAndCompare(w.srv.srv.URL, strings.NewReader(c.text0), names...))
			// for a scrape the "gathered" side is the parsed body: the model normalises it itself
			out.Add(emit.Tup("0", "3", emit.I(pGarbage), namesTerm(names), emit.Tup("0", "0", "0", "200"), bp, ep, "()", emit.B(changed), emit.I(cls)),
				true, "pre:scrape-body-garbage", fmt.Sprintf("class:%d", cls), nameModeTags[mode])
		}
	}
	// a large exposition (hundreds of series, > 64 KiB): own text and one changed value, all helpers;
	// the scrape goes through the chunked raw target and through real promhttp targets
	{
		rs := regSpec{}
		for f := 0; f < 2; f++ {
			fs := famSpec{name: fmt.Sprintf("big_family_%d", f), help: "a large family", typ: []int{tGauge, tCounter}[f], labelNames: []string{"series", "pad"}}
			for i := 0; i < 450; i++ {
				fs.children = append(fs.children, childSpec{lvs: []string{fmt.Sprintf("s%04d", i), strings.Repeat("x", 60+r.Intn(30))}, val: float64(i)})
			}
			rs.fams = append(rs.fams, fs)
		}
		c, err := newRegCtx(rs, r)
		if err != nil {
			return err
		}
		changedText := strings.Replace(c.text0, "} 449\n", "} 449.5\n", 1)
		for _, p := range []perturb{{pIdentity, c.names[0], c.text0}, {pValue, c.names[0], changedText}} {
			for helper := 0; helper < 4; helper++ {
				for _, mode := range []int{0} {
					w.compareCase(out, c, helper, p, mode, map[int]string{0: projAll(c.norm0, nil)})
				}
			}
			for _, opts := range []promhttp.HandlerOpts{{}, {DisableCompression: true}, {EnableOpenMetrics: true}} {
				w.srv.h = promhttp.HandlerFor(c.reg, opts)
				normP, _ := parseNorm(p.text)
				cls := classify(testutil.ScrapeAndCompare(w.srv.srv.URL, strings.NewReader(p.text)))
				out.Add(emit.Tup("0", "3", emit.I(p.kind), emit.None(), emit.Tup("0", "0", "0", "200"), c.bodyTab, emit.Some(tableOf(normP, r, true)), "()",
					emit.B(projAll(c.norm0, nil) != projAll(normP, nil)), emit.I(cls)), true, "scrape:promhttp-large-exposition", fmt.Sprintf("class:%d", cls))
				w.srv.h = nil
			}
		}
		out.Tag(fmt.Sprintf("large-exposition-bytes>=%dKiB", len(c.text0)/1024), 1)
	}
	// scraping real promhttp targets (legacy names only: the handler escapes other names): OpenMetrics
	// negotiation enabled or not, compression offered or not.  The target exposes the registry, so the
	// verdict must be the one for the registry's content whatever the handler is able to negotiate; the
	// driver's own plain GET is only used to make sure the target serves that content at all.
	type target struct {
		opts promhttp.HandlerOpts
		tag  string
	}
	targets := []target{
		{promhttp.HandlerOpts{}, "default"},
		{promhttp.HandlerOpts{EnableOpenMetrics: true}, "openmetrics"},
		{promhttp.HandlerOpts{DisableCompression: true}, "no-compression"},
		{promhttp.HandlerOpts{EnableOpenMetrics: true, DisableCompression: true}, "openmetrics+no-compression"},
		{promhttp.HandlerOpts{EnableOpenMetrics: true, EnableOpenMetricsTextCreatedSamples: true}, "openmetrics+created"},
	}
	for ci, c := range regs {
		if c.rs.utf8 {
			continue
		}
		hasCounter := "no-counter"
		for _, f := range c.rs.fams {
			if f.typ == tCounter {
				hasCounter = "has-counter"
			}
		}
		ps := sample(r, allPerturbations(c.text0, c.names), 2*nKinds)
		for ti, tg := range targets {
			w.srv.h = promhttp.HandlerFor(c.reg, tg.opts)
			resp, err := http.Get(w.srv.srv.URL)
			if err != nil {
				return err
			}
			var bb bytes.Buffer
			bb.ReadFrom(resp.Body)
			resp.Body.Close()
			nb, bok := parseNorm(bb.String())
			if !bok || projAll(nb, nil) != projAll(c.norm0, nil) {
				w.direct = append(w.direct, map[string]interface{}{"index": out.Len(), "what": "promhttp target does not serve the registry's content: " + tg.tag})
				continue
			}
			run := func(p perturb, mode int) {
				names := namesFor(mode, c.names, p.fam, r)
				normP, pok := parseNorm(p.text)
				changed := true
				ep := emit.None()
				if pok {
					changed = projAll(c.norm0, names) != projAll(normP, names)
					ep = emit.Some(tableOf(normP, r, true))
				}
				serr := testutil.ScrapeAndCompare(w.srv.srv.URL, strings.NewReader(p.text), names...)
				cls := classify(serr)
				if cls == 1 && names != nil {
					if what := w.restrictedDiffCheck(c, serr, p.text, names); what != "" {
						w.direct = append(w.direct, map[string]interface{}{"index": out.Len(), "what": what})
					}
				}
				out.Add(emit.Tup("0", "3", emit.I(p.kind), namesTerm(names), emit.Tup("0", "0", "0", "200"), c.bodyTab, ep, "()", emit.B(changed), emit.I(cls)),
					true, "scrape:promhttp-"+tg.tag, "scrape:"+hasCounter, "kind:"+kindNames[p.kind], fmt.Sprintf("class:%d", cls), nameModeTags[mode])
			}
			for mode := 0; mode < 2; mode++ {
				run(perturb{pIdentity, c.names[0], c.text0}, mode)
			}
			// a rotating slice of the perturbations of the own exposition: equal iff equal
			for k := 0; k < 8 && len(ps) > 0; k++ {
				run(ps[(ci+ti*8+k)%len(ps)], []int{0, 1, 2}[k%3])
			}
		}
		w.srv.h = nil
	}
	if len(w.direct) > 0 {
		out.Extra["direct_failures"] = w.direct
	}
	return out.Flush()
}

// ---------------------------------------------------------------- counts

func catchInt(f func() int) (v int, panicked bool) {
	defer func() {
		if e := recover(); e != nil {
			panicked = true
		}
	}()
	return f(), false
}

func (w *world) countStream(dir string, regs []*regCtx) error {
	out := emit.NewWriter(dir, "C17", "count")
	r := w.r
	for _, c := range regs {
		// known construction: children per family, in name order
		fs := append([]famSpec{}, c.rs.fams...)
		sort.Slice(fs, func(i, j int) bool { return fs[i].name < fs[j].name })
		it := make([]string, len(fs))
		total := 0
		for i, f := range fs {
			it[i] = emit.Tup(emit.S(f.name), emit.I(len(f.children)))
			total += len(f.children)
		}
		fams := emit.L(it)
		for mode := 0; mode < nNameModes; mode++ {
			names := namesFor(mode, c.names, c.names[r.Intn(len(c.names))], r)
			n, err := testutil.GatherAndCount(c.reg, names...)
			impl := emit.C(0, emit.I(n))
			if err != nil {
				impl = emit.C(1)
			}
			out.Add(emit.Tup("1", "0", namesTerm(names), emit.Tup("0", "0"), fams, impl), total > 1, "helper:GatherAndCount", nameModeTags[mode])
			n, p := catchInt(func() int { return testutil.CollectAndCount(c.coll, names...) })
			impl = emit.C(0, emit.I(n))
			if p {
				impl = emit.C(2)
			}
			out.Add(emit.Tup("1", "1", namesTerm(names), emit.Tup("0", "0"), fams, impl), total > 1, "helper:CollectAndCount", nameModeTags[mode])
		}
		names := namesFor(r.Intn(nNameModes), c.names, c.names[0], r)
		n, err := testutil.GatherAndCount(fixedGatherer{c.got, errors.New("fails")}, names...)
		impl := emit.C(0, emit.I(n))
		if err != nil {
			impl = emit.C(1)
		}
		out.Add(emit.Tup("1", "0", namesTerm(names), emit.Tup("0", "1"), fams, impl), true, "helper:GatherAndCount", "pre:gatherer-error")
		bm := r.Intn(3)
		n, p := catchInt(func() int { return testutil.CollectAndCount(badCollector{bm}, names...) })
		impl = emit.C(0, emit.I(n))
		if p {
			impl = emit.C(2)
		}
		flags := emit.Tup("0", "1")
		if bm == 0 {
			flags = emit.Tup("1", "0")
		}
		out.Add(emit.Tup("1", "1", namesTerm(names), flags, fams, impl), true, "helper:CollectAndCount", fmt.Sprintf("pre:bad-collector-%d", bm))
	}
	return out.Flush()
}

// ---------------------------------------------------------------- ToFloat64

func optF(ok bool, v float64) string {
	if !ok {
		return emit.None()
	}
	return emit.Some(emit.F(v))
}

func writeProj(c prometheus.Collector) string {
	ch := make(chan prometheus.Metric, 1024)
	c.Collect(ch)
	close(ch)
	var it []string
	for m := range ch {
		pb := &dto.Metric{}
		if err := m.Write(pb); err != nil {
			it = append(it, emit.None())
			continue
		}
		it = append(it, emit.Some(emit.Tup(optF(pb.Gauge != nil, pb.Gauge.GetValue()), optF(pb.Counter != nil, pb.Counter.GetValue()),
			optF(pb.Untyped != nil, pb.Untyped.GetValue()), emit.B(pb.Summary != nil), emit.B(pb.Histogram != nil))))
	}
	return emit.L(it)
}

func (w *world) toFloatStream(dir string, scale int) error {
	out := emit.NewWriter(dir, "C17", "tofloat")
	r := w.r
	d := prometheus.NewDesc("tf", "h", nil, nil)
	dl := prometheus.NewDesc("tfl", "h", []string{"l"}, nil)
	n := 400 * scale
	for i := 0; i < n; i++ {
		v := pickFloat(r)
		var c prometheus.Collector
		want := emit.C(1) // panic
		val := func(x float64) { want = emit.C(0, emit.F(x)) }
		tag := ""
		switch r.Intn(16) {
		case 0:
			g := prometheus.NewGauge(prometheus.GaugeOpts{Name: "g", Help: "h"})
			g.Set(v)
			c, tag = g, "real-gauge"
			val(v)
		case 1:
			cn := prometheus.NewCounter(prometheus.CounterOpts{Name: "c", Help: "h"})
			x := math.Abs(v)
			if x != x {
				x = 7
			}
			cn.Add(x)
			c, tag = cn, "real-counter"
			val(x)
		case 2:
			c, tag = prometheus.NewGaugeFunc(prometheus.GaugeOpts{Name: "gf", Help: "h"}, func() float64 { return v }), "gauge-func"
			val(v)
		case 3:
			c, tag = prometheus.NewCounterFunc(prometheus.CounterOpts{Name: "cf", Help: "h"}, func() float64 { return v }), "counter-func"
			val(v)
		case 4:
			c, tag = prometheus.NewUntypedFunc(prometheus.UntypedOpts{Name: "uf", Help: "h"}, func() float64 { return v }), "untyped-func"
			val(v)
		case 5:
			vt := []prometheus.ValueType{prometheus.CounterValue, prometheus.GaugeValue, prometheus.UntypedValue}[r.Intn(3)]
			m := prometheus.MustNewConstMetric(d, vt, v)
			if r.Bool() {
				m = prometheus.NewMetricWithTimestamp(time.UnixMilli(1234), m)
			}
			c, tag = &specCollector{descs: []*prometheus.Desc{d}, metrics: []prometheus.Metric{m}}, "const-single"
			val(v)
		case 6:
			gv := prometheus.NewGaugeVec(prometheus.GaugeOpts{Name: "gv", Help: "h"}, []string{"l"})
			k := r.Intn(4)
			for j := 0; j < k; j++ {
				gv.WithLabelValues(strconv.Itoa(j)).Set(v + float64(j))
			}
			c, tag = gv, fmt.Sprintf("gauge-vec-%d-children", k)
			if k == 1 {
				val(v + float64(0)) // what was Set: -0 + 0 = +0
			}
		case 7:
			cv := prometheus.NewCounterVec(prometheus.CounterOpts{Name: "cv", Help: "h"}, []string{"l"})
			k := r.Intn(3)
			for j := 0; j < k; j++ {
				cv.WithLabelValues(strconv.Itoa(j)).Add(float64(j + 2))
			}
			c, tag = cv, fmt.Sprintf("counter-vec-%d-children", k)
			if k == 1 {
				val(2)
			}
		case 8:
			h := prometheus.NewHistogram(prometheus.HistogramOpts{Name: "h", Help: "h"})
			h.Observe(1)
			c, tag = h, "real-histogram"
		case 9:
			s := prometheus.NewSummary(prometheus.SummaryOpts{Name: "s", Help: "h"})
			s.Observe(1)
			c, tag = s, "real-summary"
		case 10:
			c, tag = &specCollector{descs: []*prometheus.Desc{d}, metrics: []prometheus.Metric{prometheus.MustNewConstHistogram(d, 3, v, map[float64]uint64{1: 2})}}, "const-histogram"
		case 11:
			c, tag = &specCollector{descs: []*prometheus.Desc{d}, metrics: []prometheus.Metric{prometheus.MustNewConstSummary(d, 3, v, map[float64]float64{0.5: 2})}}, "const-summary"
		case 12:
			c, tag = &specCollector{descs: []*prometheus.Desc{d}, metrics: []prometheus.Metric{prometheus.NewInvalidMetric(d, errors.New("bad"))}}, "write-error"
		case 13:
			c, tag = &specCollector{descs: []*prometheus.Desc{d}}, "no-metric"
		default:
			k := 2 + r.Intn(3)
			sc := &specCollector{descs: []*prometheus.Desc{dl}}
			for j := 0; j < k; j++ {
				sc.metrics = append(sc.metrics, prometheus.MustNewConstMetric(dl, prometheus.GaugeValue, v, strconv.Itoa(j)))
			}
			if r.Bool() {
				sc.metrics[len(sc.metrics)-1] = prometheus.NewInvalidMetric(dl, errors.New("bad"))
			}
			c, tag = sc, "several-metrics"
		}
		impl := func() (s string) {
			defer func() {
				if e := recover(); e != nil {
					s = emit.C(1)
				}
			}()
			return emit.C(0, emit.F(testutil.ToFloat64(c)))
		}()
		res := "result:value"
		if impl == emit.C(1) {
			res = "result:panic"
		}
		out.Add(emit.Tup("2", writeProj(c), want, impl), true, "collector:"+tag, res)
	}
	return out.Flush()
}

// ---------------------------------------------------------------- CollectAndFormat

func (w *world) formatStream(dir string, regs []*regCtx) error {
	out := emit.NewWriter(dir, "C17", "format")
	r := w.r
	formats := []expfmt.FormatType{expfmt.TypeTextPlain, expfmt.TypeOpenMetrics, expfmt.TypeProtoDelim, expfmt.TypeProtoText, expfmt.TypeProtoCompact}
	for _, c := range regs {
		for mode := 0; mode < nNameModes; mode++ {
			ft := formats[r.Intn(len(formats))]
			if c.rs.hasReal && ft != expfmt.TypeTextPlain {
				ft = expfmt.TypeTextPlain // real vectors carry wall-clock created timestamps in the other formats
			}
			names := namesFor(mode, c.names, c.names[r.Intn(len(c.names))], r)
			it := make([]string, len(c.got))
			for i, mf := range c.got {
				b, err := encodeOne(mf, expfmt.NewFormat(ft))
				if err != nil {
					it[i] = emit.Tup(emit.S(mf.GetName()), "0", "()")
				} else {
					it[i] = emit.Tup(emit.S(mf.GetName()), "1", emit.S(string(b)))
				}
			}
			b, err := testutil.CollectAndFormat(c.coll, ft, names...)
			impl := emit.C(0, emit.S(string(b)))
			if err != nil {
				impl = emit.C(1)
			}
			out.Add(emit.Tup("3", emit.I(int(ft)), namesTerm(names), emit.Tup("0", "0"), emit.L(it), impl), len(b) > 0,
				fmt.Sprintf("format:%d", int(ft)), nameModeTags[mode], fmt.Sprintf("empty-output:%v", len(b) == 0))
		}
		bm := r.Intn(2)
		_, err := testutil.CollectAndFormat(badCollector{bm}, expfmt.TypeTextPlain, c.names...)
		impl := emit.C(0, "()")
		if err != nil {
			impl = emit.C(1)
		}
		flags := emit.Tup("0", "1")
		if bm == 0 {
			flags = emit.Tup("1", "0")
		}
		out.Add(emit.Tup("3", "4", namesTerm(c.names), flags, "()", impl), true, fmt.Sprintf("pre:bad-collector-%d", bm))
	}
	return out.Flush()
}

// ---------------------------------------------------------------- normalisation

func pfamTerm(mf *dto.MetricFamily) string {
	ms := make([]string, len(mf.Metric))
	for i, m := range mf.Metric {
		ls := make([]string, len(m.Label))
		for j, l := range m.Label {
			ls[j] = emit.Pair(emit.S(l.GetName()), emit.S(l.GetValue()))
		}
		ts := emit.None()
		if m.TimestampMs != nil {
			ts = emit.Some(emit.Z(m.GetTimestampMs()))
		}
		ms[i] = emit.Tup(emit.L(ls), ts)
	}
	h := emit.None()
	if mf.Help != nil {
		h = emit.Some(emit.S(mf.GetHelp()))
	}
	return emit.Tup(emit.S(mf.GetName()), h, emit.L(ms))
}

// hasUnstableTies: a family with more than 12 metrics of which two compare equal (sort.Sort is not stable there)
func hasUnstableTies(m map[string]*dto.MetricFamily) bool {
	for _, mf := range m {
		if len(mf.Metric) <= 12 {
			continue
		}
		for i := range mf.Metric {
			for j := range mf.Metric {
				if i != j && !metricLess(mf.Metric[i], mf.Metric[j]) && !metricLess(mf.Metric[j], mf.Metric[i]) {
					return true
				}
			}
		}
	}
	return false
}

func (w *world) normalizeCase(out *emit.Writer, text string, tag string) {
	var p expfmt.TextParser
	m, err := p.TextToMetricFamilies(strings.NewReader(text))
	if err != nil || hasUnstableTies(m) {
		return
	}
	names := make([]string, 0, len(m))
	for n := range m {
		names = append(names, n)
	}
	sort.Strings(names)
	for i := len(names) - 1; i > 0; i-- {
		j := w.r.Intn(i + 1)
		names[i], names[j] = names[j], names[i]
	}
	in := make([]string, len(names))
	nm := 0
	for i, n := range names {
		in[i] = pfamTerm(m[n])
		nm += len(m[n].Metric)
	}
	got, err := testutil.VerifConvert(strings.NewReader(text))
	if err != nil {
		w.direct = append(w.direct, map[string]interface{}{"index": out.Len(), "what": "convertReaderToMetricFamily fails on text that expfmt parses"})
		return
	}
	o := make([]string, len(got))
	for i, mf := range got {
		o[i] = pfamTerm(mf)
	}
	out.Add(emit.Tup("4", emit.L(in), emit.L(o)), nm > 1, tag, fmt.Sprintf("families:%d", len(names)))
}

func (w *world) normalizeStream(dir string, scale int, regs []*regCtx) error {
	out := emit.NewWriter(dir, "C17", "normalize")
	r := w.r
	w.direct = nil
	for _, c := range regs {
		w.normalizeCase(out, c.text0, "text:own-exposition")
		ps := allPerturbations(c.text0, c.names)
		for k := 0; k < 12 && len(ps) > 0; k++ {
			p := ps[r.Intn(len(ps))]
			w.normalizeCase(out, p.text, "text:perturbed-"+kindNames[p.kind])
		}
	}
	// hand-made inconsistent families: different label counts, equal label values, timestamps present/absent
	vals := []string{"1", "2", "10", "", "a"}
	for i := 0; i < 150*scale; i++ {
		var sb strings.Builder
		nfam := 1 + r.Intn(3)
		for f := 0; f < nfam; f++ {
			name := []string{"zz", "a", "m", "Z", "a_b", "a0"}[r.Intn(6)] + strconv.Itoa(f)
			if r.Chance(2, 3) {
				fmt.Fprintf(&sb, "# HELP %s %s\n", name, []string{"", "some help"}[r.Intn(2)])
			}
			if r.Chance(2, 3) {
				fmt.Fprintf(&sb, "# TYPE %s %s\n", name, []string{"counter", "gauge", "untyped"}[r.Intn(3)])
			}
			nl := r.Intn(10)
			for l := 0; l < nl; l++ {
				sb.WriteString(name)
				var ls []string
				for _, ln := range []string{"a", "b", "c"} {
					if r.Chance(2, 3) {
						ls = append(ls, fmt.Sprintf("%s=%q", ln, vals[r.Intn(len(vals))]))
					}
				}
				if len(ls) > 0 {
					sb.WriteString("{" + strings.Join(ls, ",") + "}")
				}
				fmt.Fprintf(&sb, " %d", r.Intn(5))
				if r.Chance(1, 2) {
					fmt.Fprintf(&sb, " %d", r.Intn(4)-1)
				}
				sb.WriteString("\n")
			}
		}
		w.normalizeCase(out, sb.String(), "text:hand-made-inconsistent")
	}
	if len(w.direct) > 0 {
		out.Extra["direct_failures"] = w.direct
	}
	return out.Flush()
}

// ---------------------------------------------------------------- main

func runC17(c *cli.Ctx) error {
	r := emit.NewRng(c.Seed)
	w := &world{r: r, srv: newScrapeServer()}
	defer w.srv.srv.Close()
	nreg := 36 * c.Scale
	var regs []*regCtx
	var skipped []string
	for i := 0; len(regs) < nreg && i < 4*nreg; i++ {
		rc, err := newRegCtx(genRegistry(r, i), r)
		if err != nil {
			skipped = append(skipped, fmt.Sprintf("registry %d: %v", i, firstLine(err.Error())))
			continue
		}
		regs = append(regs, rc)
	}
	if len(regs) == 0 {
		return fmt.Errorf("no registry could be built: %v", skipped)
	}
	w.skipped = skipped
	if err := w.compareStream(c.Out, c.Scale, regs); err != nil {
		return err
	}
	w.direct = nil
	if err := w.malformedStream(c.Out, c.Scale, regs); err != nil {
		return err
	}
	w.direct = nil
	if err := w.countStream(c.Out, regs); err != nil {
		return err
	}
	if err := w.toFloatStream(c.Out, c.Scale); err != nil {
		return err
	}
	if err := w.formatStream(c.Out, regs); err != nil {
		return err
	}
	if err := w.normalizeStream(c.Out, c.Scale, regs); err != nil {
		return err
	}
	return w.knownHelpLeadingBlank(c.Out)
}

// knownHelpLeadingBlank: a help string that starts with a blank or tab is not reproduced by the text
// parser (it skips leading blanks), so comparing a gatherer with its own exposition reports a diff.
// The ordinary streams never generate such a help; bin/check matches this stream against known_findings.txt
// (key=help-leading-blank).
func (w *world) knownHelpLeadingBlank(dir string) error {
	out := emit.NewWriter(dir, "C17", "known-help-leading-blank")
	for i, help := range []string{" leading blank", "\tleading tab", "  two blanks", " "} {
		rs := regSpec{fams: []famSpec{{name: fmt.Sprintf("known_help_%d", i), help: help, typ: tGauge, children: []childSpec{{val: float64(i)}}}}}
		c, err := newRegCtx(rs, w.r)
		if err != nil {
			return err
		}
		for helper := 0; helper < 3; helper++ {
			w.compareCase(out, c, helper, perturb{pIdentity, c.names[0], c.text0}, 0, map[int]string{0: projAll(c.norm0, nil)})
		}
	}
	return out.Flush()
}
