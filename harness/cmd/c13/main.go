package main

import (
	"errors"
	"fmt"
	"runtime"
	"sort"
	"strings"
	"time"

	"github.com/prometheus/client_golang/prometheus"
	dto "github.com/prometheus/client_model/go"
	"google.golang.org/protobuf/proto"

	"verifharness/internal/cli"
	"verifharness/internal/emit"
)

// C13: prefix/label wrapping is a pure renaming of what a collector exposes.
// Streams: desc, desc-malformed (wrapDesc on one descriptor, nested), write (wrappingMetric.Write over
// label slices with spare capacity / shared backing arrays, interleaved wrapped and unwrapped writes),
// reg (Register/Unregister through wrappers compared with natively declared equivalents on a second
// registry), gather (Gather unwrapped, wrapped, unwrapped again; Unregister through the same wrapper),
// gather-broken (collectors emitting broken metrics in the middle, compared with a native equivalent).

func main() { cli.Main("C13", runC13) }

type userErr struct{ id int }

func (e userErr) Error() string { return fmt.Sprintf("user error %d", e.id) }

func errKind(err error) (int, int) {
	if err == nil {
		return 0, 0
	}
	var ue userErr
	if errors.As(err, &ue) {
		return 1, ue.id
	}
	s := err.Error()
	switch {
	case strings.HasPrefix(s, "attempted wrapping with already existing label name"):
		return 2, 0
	case strings.HasSuffix(s, "is not a valid metric name"):
		return 3, 0
	case strings.Contains(s, "is not a valid label name for metric"):
		return 4, 0
	case strings.HasSuffix(s, "is not valid UTF-8"):
		return 5, 0
	case strings.HasPrefix(s, "duplicate label names in constant and variable labels"):
		return 6, 0
	}
	return 7, 0
}

// regKind classifies the result of Register.
func regKind(err error) int {
	if err == nil {
		return 0
	}
	var are prometheus.AlreadyRegisteredError
	if errors.As(err, &are) {
		return 4
	}
	s := err.Error()
	switch {
	case strings.HasPrefix(s, "a previously registered descriptor with the same fully-qualified name"):
		return 2
	case strings.HasPrefix(s, "descriptors reported by collector have inconsistent label names"):
		return 3
	case strings.HasPrefix(s, "descriptor ") && strings.HasSuffix(s, "already exists with the same fully-qualified name and const label values"):
		return 5
	case strings.HasPrefix(s, "descriptor ") && strings.Contains(s, " is invalid: "):
		return 1
	}
	return 7
}

// ---- layers ----
type layer struct {
	isPrefix bool // WrapXWithPrefix, else WrapXWith(labels)
	prefix   string
	labels   prometheus.Labels
}

func emLabels(m map[string]string) string {
	ks := make([]string, 0, len(m))
	for k := range m {
		ks = append(ks, k)
	}
	sort.Strings(ks)
	it := make([]string, len(ks))
	for i, k := range ks {
		it[i] = emit.Tup(emit.S(k), emit.S(m[k]))
	}
	return emit.L(it)
}
func emLayer(prefix string, labels map[string]string) string {
	return emit.Tup(emit.S(prefix), emLabels(labels))
}
func emLayers(ls []layer) string {
	it := make([]string, len(ls))
	for i, l := range ls {
		it[i] = emLayer(l.prefix, l.labels)
	}
	return emit.L(it)
}
func wrapCollector(c prometheus.Collector, ls []layer) prometheus.Collector {
	for _, l := range ls {
		if l.isPrefix {
			c = prometheus.WrapCollectorWithPrefix(l.prefix, c)
		} else {
			c = prometheus.WrapCollectorWith(l.labels, c)
		}
	}
	return c
}

// the layers are innermost first: the outermost Registerer applies the first layer
func wrapRegisterer(reg prometheus.Registerer, ls []layer) prometheus.Registerer {
	for i := len(ls) - 1; i >= 0; i-- {
		if ls[i].isPrefix {
			reg = prometheus.WrapRegistererWithPrefix(ls[i].prefix, reg)
		} else {
			reg = prometheus.WrapRegistererWith(ls[i].labels, reg)
		}
	}
	return reg
}

func emPdesc(p prometheus.VerifC13Desc) string {
	cs := make([]string, len(p.Const))
	for i, c := range p.Const {
		cs[i] = emit.Tup(emit.S(c[0]), emit.S(c[1]))
	}
	v := emit.None()
	if !p.VarNil {
		v = emit.Some(emit.SL(p.Var))
	}
	k, id := errKind(p.Err)
	return emit.Tup(emit.S(p.FqName), emit.S(p.Help), emit.L(cs), v, emit.Tup(emit.I(k), emit.I(id)))
}

func pick(r *emit.Rng, good, bad []string, badNum, badDen int) string {
	if r.Chance(badNum, badDen) {
		return bad[r.Intn(len(bad))]
	}
	return good[r.Intn(len(good))]
}

// ---- stream desc ----
var (
	goodNames  = []string{"x", "y", "x_total", "req", "p_x", "a_x", "métrica", "ns_sub_x", "_inflight", "_x", "__y"}
	badNames   = []string{"", "\xff", "a\xc3", "\xa9x"}
	goodPrefix = []string{"", "p_", "a_", "ns_sub_", "é", "p_a_", "", "app_", "_b_", "_"}
	badPrefix  = []string{"\xff", "\xc3", "\xa9", "\xf0\x9f"}
	goodLn     = []string{"a", "b", "c", "aa", "zone", "le", "ü", "_x"}
	badLn      = []string{"", "__r", "l\xff", "__name__"}
	goodLv     = []string{"1", "2", "", "v w", "ü"}
	badLv      = []string{"\xff", "a\xc3"}
	helps      = []string{"h", "help x", "", "g"}
)

func genLabels(r *emit.Rng, n int, bn, bd int) map[string]string {
	m := map[string]string{}
	for i := 0; i < n; i++ {
		m[pick(r, goodLn, badLn, bn, bd)] = pick(r, goodLv, badLv, bn, bd*2)
	}
	return m
}

func descStream(c *cli.Ctx, name string, r *emit.Rng, n int, bn, bd int) error {
	w := emit.NewWriter(c.Out, "C13", name)
	for i := 0; i < n; i++ {
		var d *prometheus.Desc
		var ctor string
		if r.Chance(1, 10) {
			id := 1 + r.Intn(3)
			d = prometheus.NewInvalidDesc(userErr{id})
			ctor = emit.C(1, emit.I(id))
		} else {
			fq := pick(r, goodNames, badNames, bn, bd)
			help := helps[r.Intn(len(helps))]
			nv := r.Intn(3)
			vars := make([]string, nv)
			for j := range vars {
				vars[j] = pick(r, goodLn, badLn, bn, bd)
			}
			cl := genLabels(r, r.Intn(4), bn, bd)
			d = prometheus.NewDesc(fq, help, vars, cl)
			ctor = emit.C(0, emit.S(fq), emit.S(help), emit.SL(vars), emLabels(cl))
		}
		orig := prometheus.VerifC13Project(d)
		nl := r.Intn(4)
		type dl struct {
			prefix string
			labels map[string]string
		}
		ls := make([]dl, nl)
		allPrefix := ""
		added := map[string]string{}
		dupAdded := false
		for j := range ls {
			switch r.Intn(3) {
			case 0:
				ls[j].prefix = pick(r, goodPrefix, badPrefix, bn, bd)
			case 1:
				ls[j].labels = genLabels(r, r.Intn(3), bn, bd)
			default:
				ls[j].prefix = pick(r, goodPrefix, badPrefix, bn, bd)
				ls[j].labels = genLabels(r, 1+r.Intn(2), bn, bd)
			}
			allPrefix = ls[j].prefix + allPrefix
			for k, v := range ls[j].labels {
				if _, ok := added[k]; ok {
					dupAdded = true
				}
				added[k] = v
			}
		}
		panicked := 0
		cur := d
		func() {
			defer func() {
				if recover() != nil {
					panicked = 1
				}
			}()
			for _, l := range ls {
				cur = prometheus.VerifC13WrapDesc(cur, l.prefix, prometheus.Labels(l.labels))
			}
		}()
		wp := prometheus.VerifC13Project(cur)
		nativeSame := 2
		if panicked == 0 && wp.Err == nil && orig.Err == nil && !dupAdded {
			union := prometheus.Labels{}
			for _, cp := range orig.Const {
				union[cp[0]] = cp[1]
			}
			for k, v := range added {
				union[k] = v
			}
			nat := prometheus.VerifC13Project(prometheus.NewDesc(allPrefix+orig.FqName, orig.Help, orig.Var, union))
			if nat.Err == nil && nat.ID == wp.ID && nat.DimHash == wp.DimHash {
				nativeSame = 1
			} else {
				nativeSame = 0
			}
		}
		lit := make([]string, nl)
		for j, l := range ls {
			lit[j] = emLayer(l.prefix, l.labels)
		}
		k, _ := errKind(wp.Err)
		ok0, _ := errKind(orig.Err)
		w.Add(emit.Tup("0", ctor, emit.L(lit), emit.Tup(emPdesc(orig), emPdesc(wp), emit.I(nativeSame), emit.I(panicked))),
			nl > 0 && ok0 == 0 && (allPrefix != "" || len(added) > 0),
			fmt.Sprintf("desc:layers=%d", nl), fmt.Sprintf("desc:orig-err=%d", ok0), fmt.Sprintf("desc:wrapped-err=%d", k))
	}
	return w.Flush()
}

// ---- stream write ----
type sliceMetric struct {
	desc   *prometheus.Desc
	labels []*dto.LabelPair
	werr   bool
	val    float64
}

func (m *sliceMetric) Desc() *prometheus.Desc { return m.desc }
func (m *sliceMetric) Write(out *dto.Metric) error {
	if m.werr {
		return errors.New("write failed")
	}
	out.Label = m.labels
	out.Gauge = &dto.Gauge{Value: proto.Float64(m.val)}
	return nil
}

type listCollector struct {
	descs   []*prometheus.Desc
	metrics []prometheus.Metric
}

func (c *listCollector) Describe(ch chan<- *prometheus.Desc) {
	for _, d := range c.descs {
		ch <- d
	}
}
func (c *listCollector) Collect(ch chan<- prometheus.Metric) {
	for _, m := range c.metrics {
		ch <- m
	}
}

func collectAll(c prometheus.Collector) []prometheus.Metric {
	ch := make(chan prometheus.Metric)
	go func() { c.Collect(ch); close(ch) }()
	var ms []prometheus.Metric
	for m := range ch {
		ms = append(ms, m)
	}
	return ms
}
func describeAll(c prometheus.Collector) []*prometheus.Desc {
	ch := make(chan *prometheus.Desc)
	go func() { c.Describe(ch); close(ch) }()
	var ds []*prometheus.Desc
	for d := range ch {
		ds = append(ds, d)
	}
	return ds
}

func emCells(cells []*dto.LabelPair) string {
	it := make([]string, len(cells))
	for i, c := range cells {
		if c == nil {
			it[i] = emit.Tup(emit.S(""), emit.S(""))
		} else {
			it[i] = emit.Tup(emit.S(c.GetName()), emit.S(c.GetValue()))
		}
	}
	return emit.L(it)
}

// label values of the write/reg/gather streams: the empty string is a value like any other
var lvPool = []string{"1", "2", "", "1"}

// confusable returns one of two label pairs whose name+sep+value coincide ({"q":"r=s"} / {"q=r":"s"});
// both variants are used by different wrappers within one run of the driver, in both orders
// ("q=r" is a legal label name under UTF-8 validation).
func confusable(r *emit.Rng) (string, string) {
	sep := []string{"=", "=", ",", ":", "|", " ", "\x00", "/", "\"", "=\""}[r.Intn(10)]
	if r.Bool() {
		return "q", "r" + sep + "s"
	}
	return "q" + sep + "r", "s"
}

var cellNames = []string{"b", "d", "f", "h", "j", "l"}
var addNames = []string{"a", "c", "e", "g", "zz", "aa", "k"}

func genSingleLayers(r *emit.Rng, max int, names []string, conflict []string) []layer {
	n := r.Intn(max + 1)
	ls := make([]layer, n)
	for i := range ls {
		if r.Chance(1, 3) {
			ls[i] = layer{isPrefix: true, prefix: goodPrefix[r.Intn(len(goodPrefix))]}
		} else {
			m := prometheus.Labels{}
			for k := r.Intn(3); k > 0; k-- {
				nm := names[r.Intn(len(names))]
				if len(conflict) > 0 && r.Chance(1, 12) {
					nm = conflict[r.Intn(len(conflict))]
				}
				m[nm] = lvPool[r.Intn(len(lvPool))]
			}
			if r.Chance(1, 6) {
				cn, cv := confusable(r)
				m[cn] = cv
			}
			ls[i] = layer{labels: m}
		}
	}
	return ls
}

func writeStream(c *cli.Ctx, r *emit.Rng, n int) error {
	w := emit.NewWriter(c.Out, "C13", "write")
	d := prometheus.NewDesc("w", "h", nil, nil)
	for i := 0; i < n; i++ {
		na := 1 + r.Intn(3)
		arrays := make([][]*dto.LabelPair, na)
		for a := range arrays {
			cp := r.Intn(6)
			arr := make([]*dto.LabelPair, cp)
			nilSpare := r.Chance(1, 3)
			fill := cp
			if nilSpare && cp > 0 {
				fill = r.Intn(cp + 1)
			}
			for j := 0; j < fill; j++ {
				arr[j] = &dto.LabelPair{Name: proto.String(cellNames[j]), Value: proto.String(fmt.Sprintf("v%d%d", a, j))}
			}
			if r.Chance(1, 8) && fill > 1 { // a metric violating the sorted-labels contract
				arr[0], arr[fill-1] = arr[fill-1], arr[0]
			}
			arrays[a] = arr
		}
		initial := make([]string, na)
		for a := range arrays {
			initial[a] = emCells(arrays[a])
		}
		nm := 1 + r.Intn(4)
		metrics := make([]*sliceMetric, nm)
		mit := make([]string, nm)
		spare := false
		for j := range metrics {
			a := r.Intn(na)
			fill := 0
			for fill < len(arrays[a]) && arrays[a][fill] != nil {
				fill++
			}
			ln := r.Intn(fill + 1)
			if r.Chance(1, 3) {
				ln = fill
			}
			if ln < len(arrays[a]) {
				spare = true
			}
			werr := r.Chance(1, 15)
			metrics[j] = &sliceMetric{desc: d, labels: arrays[a][:ln], werr: werr, val: float64(100*i + j)}
			mit[j] = emit.Tup(emit.I(a), emit.I(ln), emit.B(werr), emit.I(100*i+j))
		}
		nops := 2 + r.Intn(5)
		ops := make([]string, nops)
		outs := make([]string, nops)
		wrappedOps := 0
		for o := 0; o < nops; o++ {
			mi := r.Intn(nm)
			var ls []layer
			if !r.Chance(1, 3) {
				ls = genSingleLayers(r, 3, addNames, cellNames[:2])
			}
			if len(ls) > 0 {
				wrappedOps++
			}
			ops[o] = emit.Tup(emit.I(mi), emLayers(ls))
			ms := collectAll(wrapCollector(&listCollector{metrics: []prometheus.Metric{metrics[mi]}}, ls))
			out := &dto.Metric{}
			if len(ms) != 1 {
				outs[o] = emit.None()
				continue
			}
			if err := ms[0].Write(out); err != nil {
				outs[o] = emit.None()
				continue
			}
			outs[o] = emit.Some(emit.Tup(emCells(out.Label), emit.I(int(out.GetGauge().GetValue()))))
		}
		finals := make([]string, na)
		for a := range arrays {
			finals[a] = emCells(arrays[a][:cap(arrays[a])])
		}
		tags := []string{fmt.Sprintf("write:ops=%d", nops)}
		if spare {
			tags = append(tags, "write:spare-capacity")
		}
		if nm > na {
			tags = append(tags, "write:shared-array")
		}
		w.Add(emit.Tup("1", emit.L(initial), emit.L(mit), emit.L(ops), emit.Tup(emit.L(outs), emit.L(finals))),
			wrappedOps > 0 && spare, tags...)
	}
	return w.Flush()
}

// ---- stream reg ----
var (
	regNames  = []string{"x", "y", "p_x", "p_y", "a_p_x", "_x", "p__x"}
	regPrefix = []string{"p_", "a_", "a_p_", "", "p_", "_p_"}
	regLn     = []string{"a", "b", "c", "z"}
)

type collSpec struct {
	c         prometheus.Collector
	unordered bool
	descs     []*prometheus.Desc
	projs     []prometheus.VerifC13Desc
	kind      string
}

func smallLabels(r *emit.Rng, names []string, max int) prometheus.Labels {
	m := prometheus.Labels{}
	for k := r.Intn(max + 1); k > 0; k-- {
		m[names[r.Intn(len(names))]] = lvPool[r.Intn(len(lvPool))]
	}
	return m
}

func genRegCollector(r *emit.Rng) *collSpec {
	name := regNames[r.Intn(len(regNames))]
	help := helps[3*r.Intn(2)]
	cl := smallLabels(r, regLn[:2], 2)
	s := &collSpec{}
	switch r.Intn(6) {
	case 0:
		s.c = prometheus.NewCounter(prometheus.CounterOpts{Name: name, Help: help, ConstLabels: cl})
		s.kind = "counter"
	case 1:
		vars := []string{regLn[1+r.Intn(2)]}
		s.c = prometheus.NewGaugeVec(prometheus.GaugeOpts{Name: name, Help: help, ConstLabels: cl}, vars)
		s.kind = "vec"
	case 2:
		s.c = prometheus.NewHistogram(prometheus.HistogramOpts{Name: name, Help: help, ConstLabels: cl, Buckets: []float64{1, 2}})
		s.kind = "histogram"
	case 3:
		sub := prometheus.NewRegistry()
		for k := 1 + r.Intn(5); k > 0; k-- {
			sub.Register(prometheus.NewCounter(prometheus.CounterOpts{Name: regNames[r.Intn(len(regNames))], Help: help, ConstLabels: smallLabels(r, regLn[:2], 1)}))
		}
		s.c = sub
		s.unordered = true
		s.kind = "registry"
	default:
		lc := &listCollector{}
		for k := r.Intn(6); k > 0; k-- {
			switch {
			case r.Chance(1, 10):
				lc.descs = append(lc.descs, prometheus.NewInvalidDesc(userErr{1 + r.Intn(3)}))
			case r.Chance(1, 6) && len(lc.descs) > 0:
				lc.descs = append(lc.descs, lc.descs[r.Intn(len(lc.descs))])
			default:
				var vars []string
				if r.Chance(1, 3) {
					vars = []string{regLn[1+r.Intn(2)]}
				}
				lc.descs = append(lc.descs, prometheus.NewDesc(regNames[r.Intn(len(regNames))], helps[3*r.Intn(2)], vars, smallLabels(r, regLn[:2], 2)))
			}
		}
		s.c = lc
		s.kind = "custom"
	}
	return finishSpec(s)
}

func finishSpec(s *collSpec) *collSpec {
	s.descs = describeAll(s.c)
	for _, d := range s.descs {
		s.projs = append(s.projs, prometheus.VerifC13Project(d))
	}
	if s.unordered {
		idx := make([]int, len(s.descs))
		for i := range idx {
			idx[i] = i
		}
		key := func(p prometheus.VerifC13Desc) string { return fmt.Sprintf("%q%q", p.FqName, p.Const) }
		sort.Slice(idx, func(a, b int) bool { return key(s.projs[idx[a]]) < key(s.projs[idx[b]]) })
		ds := make([]*prometheus.Desc, len(idx))
		ps := make([]prometheus.VerifC13Desc, len(idx))
		for i, j := range idx {
			ds[i], ps[i] = s.descs[j], s.projs[j]
		}
		s.descs, s.projs = ds, ps
	}
	return s
}

// nativeEquivalent declares natively what wrapping s with ls is meant to expose; ok=false when an
// added label is already a constant label of a descriptor (or added twice): no such declaration exists.
func nativeEquivalent(s *collSpec, ls []layer) (prometheus.Collector, bool) {
	allPrefix := ""
	dupAdded := false
	added := prometheus.Labels{}
	for _, l := range ls {
		allPrefix = l.prefix + allPrefix
		for k, v := range l.labels {
			if _, dup := added[k]; dup {
				dupAdded = true
			}
			added[k] = v
		}
	}
	nc := &listCollector{}
	for i, p := range s.projs {
		if p.Err != nil {
			nc.descs = append(nc.descs, s.descs[i])
			continue
		}
		if dupAdded {
			return nil, false
		}
		union := prometheus.Labels{}
		for _, cp := range p.Const {
			union[cp[0]] = cp[1]
		}
		for k, v := range added {
			if _, dup := union[k]; dup {
				return nil, false
			}
			union[k] = v
		}
		nc.descs = append(nc.descs, prometheus.NewDesc(allPrefix+p.FqName, p.Help, p.Var, union))
	}
	return nc, true
}

// wrapPanics replays the wrapping of every descriptor in this goroutine: Registry.Register runs
// Describe in a goroutine of its own, where a panic cannot be recovered.
func wrapPanics(ds []*prometheus.Desc, ls []layer) (p bool) {
	defer func() {
		if recover() != nil {
			p = true
		}
	}()
	for _, d := range ds {
		for _, l := range ls {
			d = prometheus.VerifC13WrapDesc(d, l.prefix, l.labels)
		}
	}
	return false
}

func safeRegister(reg prometheus.Registerer, c prometheus.Collector) (kind int, existing prometheus.Collector) {
	defer func() {
		if recover() != nil {
			kind, existing = 6, nil
		}
	}()
	err := reg.Register(c)
	var are prometheus.AlreadyRegisteredError
	if errors.As(err, &are) {
		existing = are.ExistingCollector
	}
	return regKind(err), existing
}
func safeUnregister(reg prometheus.Registerer, c prometheus.Collector) (res int) {
	defer func() {
		if recover() != nil {
			res = 6
		}
	}()
	if reg.Unregister(c) {
		return 1
	}
	return 0
}

// settled waits until no goroutine beyond base is left (Register/Unregister start a Describe
// goroutine that must have ended once the call is over and its channel drained).
func settled(base int) bool { return settledFor(base, 400) }

func settledFor(base, ms int) bool {
	for i := 0; i < ms; i++ {
		if runtime.NumGoroutine() <= base {
			return true
		}
		time.Sleep(time.Millisecond)
	}
	return false
}

var probeSeq int

// usable checks that a Registry that was used as a collector still accepts a registration within
// a watchdog time (a Describe left behind would keep its read lock). The probe is removed again.
func usable(sub *prometheus.Registry) bool {
	probeSeq++
	p := prometheus.NewCounter(prometheus.CounterOpts{Name: fmt.Sprintf("verif_probe_%d", probeSeq), Help: "probe"})
	done := make(chan bool, 1)
	go func() {
		sub.Register(p)
		sub.Unregister(p)
		done <- true
	}()
	select {
	case <-done:
		return true
	case <-time.After(500 * time.Millisecond):
		return false
	}
}

func genRegLayers(r *emit.Rng, max int) []layer {
	n := r.Intn(max + 1)
	ls := make([]layer, n)
	for i := range ls {
		if r.Bool() {
			p := regPrefix[r.Intn(len(regPrefix))]
			if r.Chance(1, 30) {
				p = "\xff"
			}
			ls[i] = layer{isPrefix: true, prefix: p}
		} else {
			m := smallLabels(r, regLn, 2)
			if r.Chance(1, 25) {
				m["__r"] = "1"
			}
			if r.Chance(1, 25) {
				m["z"] = "\xff"
			}
			ls[i] = layer{labels: m}
		}
	}
	return ls
}

// genDeepLayers: 3-5 nested wrappers that do not clash with each other (distinct added labels)
func genDeepLayers(r *emit.Rng) []layer {
	n := 3 + r.Intn(3)
	ls := make([]layer, n)
	free := []string{"z", "c", "y", "w"}
	for i := range ls {
		switch {
		case r.Chance(2, 5) || len(free) == 0:
			ls[i] = layer{isPrefix: true, prefix: regPrefix[r.Intn(len(regPrefix))]}
		case r.Chance(1, 5):
			ls[i] = layer{labels: prometheus.Labels{}}
		default:
			k := r.Intn(len(free))
			ls[i] = layer{labels: prometheus.Labels{free[k]: lvPool[r.Intn(len(lvPool))]}}
			free = append(free[:k:k], free[k+1:]...)
		}
	}
	return ls
}

func regStream(c *cli.Ctx, r *emit.Rng, n int) error {
	w := emit.NewWriter(c.Out, "C13", "reg")
	time.Sleep(5 * time.Millisecond)
	baseGoroutines := runtime.NumGoroutine()
	var directFailures []map[string]interface{}
	for i := 0; i < n; i++ {
		nc := 2 + r.Intn(3)
		colls := make([]*collSpec, nc)
		cit := make([]string, nc)
		tags := []string{}
		for j := range colls {
			colls[j] = genRegCollector(r)
			pit := make([]string, len(colls[j].projs))
			for k, p := range colls[j].projs {
				pit[k] = emPdesc(p)
			}
			cit[j] = emit.Tup(emit.B(colls[j].unordered), emit.L(pit))
			tags = append(tags, "reg:coll="+colls[j].kind)
		}
		reg := prometheus.NewRegistry()
		nat := prometheus.NewRegistry()
		settled(baseGoroutines)
		var direct string
		var ops, res []string
		type done struct {
			ci int
			ls []layer
		}
		var registered []done
		rejected, accepted := 0, 0
		var pending []done // registrations replayed one by one after a MustRegister batch
		for o := 3 + r.Intn(6); o > 0 || len(pending) > 0; o-- {
			ci := r.Intn(nc)
			ls := genRegLayers(r, 2)
			if r.Chance(1, 5) {
				ls = genDeepLayers(r)
			}
			isUnreg := r.Chance(1, 4)
			if isUnreg && len(registered) > 0 && r.Chance(3, 4) { // unregister through the same wrapper
				d := registered[r.Intn(len(registered))]
				ci, ls = d.ci, d.ls
			} else if !isUnreg && len(registered) > 0 && r.Chance(1, 4) { // register an equal collector again
				d := registered[r.Intn(len(registered))]
				ci, ls = d.ci, d.ls
			}
			forced := false
			if len(pending) > 0 {
				ci, ls, isUnreg, forced = pending[0].ci, pending[0].ls, false, true
				pending = pending[1:]
			}
			if !forced && !isUnreg && r.Chance(1, 6) {
				// MustRegister(c1..cn) through a wrapping Registerer: sequential, panics with the first error
				if len(ls) == 0 {
					ls = []layer{{isPrefix: true, prefix: "p_"}}
				}
				cis := make([]int, 2+r.Intn(3))
				var wcs, ncs []prometheus.Collector
				okBatch := true
				for k := range cis {
					cis[k] = r.Intn(nc)
					ne, has := nativeEquivalent(colls[cis[k]], ls)
					if !has || wrapPanics(colls[cis[k]].descs, ls) {
						okBatch = false
					}
					wcs = append(wcs, colls[cis[k]].c)
					ncs = append(ncs, ne)
				}
				if okBatch {
					must := func(rg prometheus.Registerer, cs []prometheus.Collector) (kind int, ex prometheus.Collector) {
						defer func() {
							if v := recover(); v != nil {
								err, isErr := v.(error)
								if !isErr {
									kind = 7
									return
								}
								kind = regKind(err)
								var are prometheus.AlreadyRegisteredError
								if errors.As(err, &are) {
									ex = are.ExistingCollector
								}
							}
						}()
						rg.MustRegister(cs...)
						return 0, nil
					}
					wk, ex := must(wrapRegisterer(reg, ls), wcs)
					nk, _ := must(nat, ncs)
					exi := -1
					if wk == 4 {
						exi = -2
						for j := range colls {
							if ex == colls[j].c {
								exi = j
							}
						}
					}
					cit2 := make([]string, len(cis))
					for k, x := range cis {
						cit2[k] = emit.I(x)
						pending = append(pending, done{x, ls}) // then every member once more, one by one
					}
					ops = append(ops, emit.C(2, emit.L(cit2), emLayers(ls)))
					res = append(res, emit.Tup(emit.I(wk), emit.I(exi), emit.I(nk)))
					tags = append(tags, fmt.Sprintf("reg:mustregister=%d", wk), fmt.Sprintf("reg:layers=%d", len(ls)))
					if wk != 0 {
						rejected++
					}
					if !settled(baseGoroutines) {
						direct = fmt.Sprintf("after MustRegister (result kind %d) through %d wrapper(s): goroutines left behind", wk, len(ls))
						break
					}
					continue
				}
			}
			viaRegisterer := r.Bool()
			ne, hasNative := nativeEquivalent(colls[ci], ls)
			if isUnreg {
				if !hasNative {
					continue
				}
				var wres int
				if wrapPanics(colls[ci].descs, ls) {
					wres = 6
				} else if viaRegisterer {
					wres = safeUnregister(wrapRegisterer(reg, ls), colls[ci].c)
				} else {
					wres = safeUnregister(reg, wrapCollector(colls[ci].c, ls))
				}
				nres := safeUnregister(nat, ne)
				ops = append(ops, emit.C(1, emit.I(ci), emLayers(ls)))
				res = append(res, emit.Tup(emit.I(wres), "-1", emit.I(nres)))
				tags = append(tags, fmt.Sprintf("reg:unregister=%d", wres))
				continue
			}
			var wk int
			var ex prometheus.Collector
			if wrapPanics(colls[ci].descs, ls) {
				wk = 6
			} else if viaRegisterer {
				wk, ex = safeRegister(wrapRegisterer(reg, ls), colls[ci].c)
			} else {
				wk, ex = safeRegister(reg, wrapCollector(colls[ci].c, ls))
			}
			exi := -1
			if wk == 4 {
				exi = -2
				for j := range colls {
					if ex == colls[j].c {
						exi = j
					}
				}
			}
			nk := 9
			if hasNative {
				nk, _ = safeRegister(nat, ne)
			}
			if wk == 0 {
				registered = append(registered, done{ci, ls})
				accepted++
			} else {
				rejected++
			}
			ops = append(ops, emit.C(0, emit.I(ci), emLayers(ls)))
			res = append(res, emit.Tup(emit.I(wk), emit.I(exi), emit.I(nk)))
			tags = append(tags, fmt.Sprintf("reg:register=%d", wk), fmt.Sprintf("reg:layers=%d", len(ls)))
			if wk == 1 && len(colls[ci].descs) > 1 { // where the first refused descriptor sits
				pos := -1
				for di, d := range colls[ci].descs {
					wd := d
					for _, l := range ls {
						wd = prometheus.VerifC13WrapDesc(wd, l.prefix, l.labels)
					}
					if prometheus.VerifC13Project(wd).Err != nil {
						pos = di
						break
					}
				}
				switch {
				case pos == 0:
					tags = append(tags, "reg:first-invalid-desc=first")
				case pos == len(colls[ci].descs)-1:
					tags = append(tags, "reg:first-invalid-desc=last")
				case pos > 0:
					tags = append(tags, "reg:first-invalid-desc=middle")
				}
			}
			// a registration, accepted or rejected, leaves nothing behind and the collector usable
			if !settled(baseGoroutines) {
				direct = fmt.Sprintf("after Register (result kind %d) of collector %d (%s, %d descriptors) through %d wrapper(s): %d goroutine(s) left behind",
					wk, ci, colls[ci].kind, len(colls[ci].descs), len(ls), runtime.NumGoroutine()-baseGoroutines)
			}
			if sub, ok := colls[ci].c.(*prometheus.Registry); ok && wk != 0 {
				tags = append(tags, "reg:rejected-registry-probed")
				if !usable(sub) {
					direct += fmt.Sprintf(" after rejected Register (kind %d) of a Registry used as collector (%d descriptors): Register on that Registry does not return (lock held)", wk, len(colls[ci].descs))
				}
			}
			if direct != "" {
				break // the state of this case is no longer trustworthy (locks may be held)
			}
		}
		if direct != "" {
			directFailures = append(directFailures, map[string]interface{}{"index": w.Len(), "what": strings.TrimSpace(direct)})
			baseGoroutines = runtime.NumGoroutine() // leaked goroutines stay; do not blame the next case
		}
		w.Add(emit.Tup("2", emit.L(cit), emit.L(ops), emit.L(res)), accepted > 0 && rejected > 0, tags...)
		if i%4 == 0 {
			// wrappers over a nil Registerer (plain and nested, labels and prefix) are documented
			// no-ops: Register returns nil, MustRegister does not panic, Unregister returns false
			ls := genRegLayers(r, 2)
			if len(ls) == 0 || r.Chance(1, 3) {
				ls = append(ls, genRegLayers(r, 0)...)
				if r.Bool() {
					ls = append(ls, layer{isPrefix: true, prefix: regPrefix[r.Intn(len(regPrefix))]})
				} else {
					ls = append(ls, layer{labels: smallLabels(r, regLn, 2)})
				}
			}
			col := colls[r.Intn(nc)].c
			wr := wrapRegisterer(nil, ls)
			rk, _ := safeRegister(wr, col)
			mp := 0
			func() {
				defer func() {
					if recover() != nil {
						mp = 1
					}
				}()
				wr.MustRegister(col, colls[r.Intn(nc)].c)
			}()
			un := safeUnregister(wr, col)
			w.Add(emit.Tup("5", emLayers(ls), emit.Tup(emit.I(rk), emit.I(mp), emit.I(un))), len(ls) > 1,
				fmt.Sprintf("reg:nil-registerer-depth=%d", len(ls)))
		}
	}
	if len(directFailures) > 0 {
		w.Extra["direct_failures"] = directFailures
	}
	return w.Flush()
}

// ---- stream gather ----
func emFams(fams []*dto.MetricFamily) string {
	it := make([]string, len(fams))
	for i, f := range fams {
		ms := make([]string, len(f.Metric))
		for j, m := range f.Metric {
			cl := proto.Clone(m).(*dto.Metric)
			cl.Label = nil
			b, _ := proto.MarshalOptions{Deterministic: true}.Marshal(cl)
			ms[j] = emit.Tup(emCells(m.Label), emit.S(string(b)))
		}
		it[i] = emit.Tup(emit.S(f.GetName()), emit.S(f.GetHelp()), emit.I(int(f.GetType())), emit.L(ms))
	}
	return emit.L(it)
}

var gatherAdd = []string{"wa", "zone", "aa", "0first", "zz", "bb", "env", "dc", "kk", "w2"}

func genGatherCollector(r *emit.Rng, i int) (prometheus.Collector, string) {
	name := []string{"x", "req_total", "lat", "métrica", "_inflight", "_x"}[r.Intn(6)]
	cl := smallLabels(r, []string{"a", "b", "c"}, 2)
	switch r.Intn(8) {
	case 7:
		// several members of one family that differ only in the value of a constant label
		lc := &listCollector{}
		for j, sh := range []string{"a", "b", "c", ""}[:2+r.Intn(3)] {
			l := prometheus.Labels{"shard": sh}
			for k, v := range cl {
				l[k] = v
			}
			d := prometheus.NewDesc(name, "h", nil, l)
			lc.descs = append(lc.descs, d)
			lc.metrics = append(lc.metrics, prometheus.MustNewConstMetric(d, prometheus.GaugeValue, float64(j)))
		}
		return lc, "same-family-const-values"
	case 0:
		ctr := prometheus.NewCounter(prometheus.CounterOpts{Name: name, Help: "h", ConstLabels: cl})
		ctr.Add(float64(r.Intn(50)))
		if r.Bool() {
			ctr.(prometheus.ExemplarAdder).AddWithExemplar(1, prometheus.Labels{"trace": "t1"})
		}
		return ctr, "counter"
	case 1:
		vars := []string{"k", "v"}[:1+r.Intn(2)]
		gv := prometheus.NewGaugeVec(prometheus.GaugeOpts{Name: name, Help: "h", ConstLabels: cl}, vars)
		for k := 2 + r.Intn(3); k > 0; k-- { // 2-4 distinct children
			lvs := []string{fmt.Sprint(k), fmt.Sprint(r.Intn(3))}[:len(vars)]
			gv.WithLabelValues(lvs...).Set(float64(r.Intn(100)) / 4)
		}
		return gv, "vec"
	case 2:
		h := prometheus.NewHistogram(prometheus.HistogramOpts{Name: name, Help: "h", ConstLabels: cl, Buckets: []float64{1, 2, 5}})
		for k := r.Intn(6); k > 0; k-- {
			h.Observe(float64(r.Intn(8)))
		}
		return h, "histogram"
	case 3:
		s := prometheus.NewSummary(prometheus.SummaryOpts{Name: name, Help: "h", ConstLabels: cl})
		for k := r.Intn(4); k > 0; k-- {
			s.Observe(float64(r.Intn(8)))
		}
		return s, "summary"
	case 4:
		sub := prometheus.NewRegistry()
		ctr := prometheus.NewCounter(prometheus.CounterOpts{Name: name, Help: "h", ConstLabels: cl})
		ctr.Add(3)
		sub.MustRegister(ctr)
		gv := prometheus.NewGaugeVec(prometheus.GaugeOpts{Name: name + "_g", Help: "g"}, []string{"k"})
		gv.WithLabelValues("1").Set(1)
		gv.WithLabelValues("2").Set(2)
		sub.MustRegister(gv)
		return sub, "registry"
	case 5:
		d := prometheus.NewDesc(name, "h", []string{"k"}, cl)
		m1 := prometheus.MustNewConstMetric(d, prometheus.GaugeValue, 1.5, "1")
		m2 := prometheus.NewMetricWithTimestamp(time.Unix(1234, 5000000), prometheus.MustNewConstMetric(d, prometheus.GaugeValue, 2.5, "2"))
		return &listCollector{descs: []*prometheus.Desc{d}, metrics: []prometheus.Metric{m1, m2}}, "const"
	default:
		// custom metrics whose label slices live in one backing array: each has spare capacity that
		// overlaps the next metric's labels
		d := prometheus.NewDesc(name, "h", []string{"b", "d"}, nil)
		k := 2 + r.Intn(2)
		arr := make([]*dto.LabelPair, 2*k+r.Intn(3))
		lc := &listCollector{descs: []*prometheus.Desc{d}}
		for j := 0; j < k; j++ {
			arr[2*j] = &dto.LabelPair{Name: proto.String("b"), Value: proto.String(fmt.Sprint(j))}
			arr[2*j+1] = &dto.LabelPair{Name: proto.String("d"), Value: proto.String("x")}
			lc.metrics = append(lc.metrics, &sliceMetric{desc: d, labels: arr[2*j : 2*j+2], val: float64(j)})
		}
		return lc, "custom-shared-slices"
	}
}

func gatherStream(c *cli.Ctx, r *emit.Rng, n int) error {
	w := emit.NewWriter(c.Out, "C13", "gather")
	for i := 0; i < n; i++ {
		col, kind := genGatherCollector(r, i)
		nl := 1 + r.Intn(3)
		ls := make([]layer, nl)
		used := map[string]bool{}
		for j := range ls {
			if r.Chance(2, 5) {
				ls[j] = layer{isPrefix: true, prefix: []string{"p_", "ns_sub_", "", "é_", "app_", "_b_"}[r.Intn(6)]}
			} else {
				m := prometheus.Labels{}
				want := r.Intn(3)
				if r.Chance(1, 2) { // up to 7 labels in one wrapper (3 and 5-7 leave spare capacity in a slice grown by append)
					want = []int{3, 5, 6, 7, 4, 3}[r.Intn(6)]
				}
				for k := want; k > 0; k-- {
					nm := gatherAdd[r.Intn(len(gatherAdd))]
					if !used[nm] {
						used[nm] = true
						m[nm] = lvPool[r.Intn(len(lvPool))]
					}
				}
				ls[j] = layer{labels: m}
			}
		}
		confused := false
		if r.Chance(1, 3) {
			cn, cv := confusable(r)
			ls = append(ls, layer{labels: prometheus.Labels{cn: cv}})
			nl++
			confused = true
		}
		ok := true
		r0 := prometheus.NewRegistry()
		if err := r0.Register(col); err != nil {
			continue
		}
		f0, err := r0.Gather()
		ok = ok && err == nil
		r1 := prometheus.NewRegistry()
		pedantic := r.Bool()
		if pedantic { // also checks every collected metric's Desc() against the registered descriptors
			r1 = prometheus.NewPedanticRegistry()
		}
		viaRegisterer := r.Bool()
		var wk int
		if wrapPanics(describeAll(col), ls) {
			wk = 6
		} else if viaRegisterer {
			wk, _ = safeRegister(wrapRegisterer(r1, ls), col)
		} else {
			wk, _ = safeRegister(r1, wrapCollector(col, ls))
		}
		if wk != 0 {
			w.Tag("gather:skipped-rejected", 1)
			continue
		}
		f1, err := r1.Gather()
		ok = ok && err == nil
		if r.Bool() { // a second wrapped gather interleaved
			_, err = r1.Gather()
			ok = ok && err == nil
		}
		f2, err := r0.Gather()
		ok = ok && err == nil
		// Desc() of every collected wrapped metric describes that very metric: wrapped name, the
		// wrapper's labels, and constant labels with the values the metric writes
		for _, wm := range collectAll(wrapCollector(col, ls)) {
			out := &dto.Metric{}
			if wm.Write(out) != nil {
				continue
			}
			written := map[string]string{}
			for _, lp := range out.Label {
				written[lp.GetName()] = lp.GetValue()
			}
			dp := prometheus.VerifC13Project(wm.Desc())
			if dp.Err != nil || len(dp.Const)+len(dp.Var) != len(out.Label) {
				ok = false
			}
			for _, cp := range dp.Const {
				if v, has := written[cp[0]]; !has || v != cp[1] {
					ok = false
				}
			}
			for k, v := range ls {
				_ = k
				for ln, lv := range v.labels {
					found := false
					for _, cp := range dp.Const {
						if cp[0] == ln && cp[1] == lv {
							found = true
						}
					}
					ok = ok && found
				}
			}
			famOK := false
			for _, f := range f1 {
				if f.GetName() == dp.FqName && f.GetHelp() == dp.Help {
					famOK = true
				}
			}
			ok = ok && famOK
		}
		var un int
		if viaRegisterer {
			un = safeUnregister(wrapRegisterer(r1, ls), col)
		} else {
			un = safeUnregister(r1, wrapCollector(col, ls))
		}
		f3, err := r1.Gather()
		ok = ok && err == nil && un == 1
		style := "gather:via-collector"
		if viaRegisterer {
			style = "gather:via-registerer"
		}
		if pedantic {
			style += "+pedantic"
		}
		if confused {
			w.Tag("gather:confusable-pair", 1)
		}
		w.Add(emit.Tup("3", emLayers(ls), emFams(f0), emFams(f1), emFams(f2), emit.B(ok), emit.I(len(f3))),
			len(f0) > 0, "gather:coll="+kind, style, fmt.Sprintf("gather:layers=%d", nl), fmt.Sprintf("gather:added-labels=%d", len(used)))
	}
	return w.Flush()
}

// ---- stream gather-broken ----
// A collector emits valid const metrics (one family each) with broken ones in the middle: metrics
// that are invalid by themselves (NewInvalidMetric over NewInvalidDesc) and metrics that already
// carry a label the wrapper adds. Gathered unwrapped, wrapped, unwrapped again, and through a
// natively declared equivalent (prefixed names, label unions; the metrics that cannot be declared
// natively are reported as invalid metrics at the same position).
type bmetric struct {
	name    string
	labels  prometheus.Labels
	val     float64
	invalid bool
}

func gatherBrokenStream(c *cli.Ctx, r *emit.Rng, n int) error {
	w := emit.NewWriter(c.Out, "C13", "gather-broken")
	addPool := []string{"zone", "wa", "aa"}
	for i := 0; i < n; i++ {
		nl := 1 + r.Intn(2)
		ls := make([]layer, nl)
		allPrefix := ""
		added := prometheus.Labels{}
		dupAdded := false
		for j := range ls {
			if r.Chance(1, 3) {
				ls[j] = layer{isPrefix: true, prefix: []string{"p_", "ns_", ""}[r.Intn(3)]}
			} else {
				m := prometheus.Labels{}
				for k := 1 + r.Intn(2); k > 0; k-- {
					m[addPool[r.Intn(len(addPool))]] = lvPool[r.Intn(len(lvPool))]
				}
				ls[j] = layer{labels: m}
			}
			allPrefix = ls[j].prefix + allPrefix
			for k, v := range ls[j].labels {
				if _, dup := added[k]; dup {
					dupAdded = true
				}
				added[k] = v
			}
		}
		nm := 2 + r.Intn(5)
		ms := make([]bmetric, nm)
		ninv, nconf, validAfterBroken := 0, 0, false
		seenBroken := false
		for j := range ms {
			bm := bmetric{name: fmt.Sprintf("m%d", j), labels: smallLabels(r, []string{"a", "b"}, 2), val: float64(10*i + j)}
			switch {
			case r.Chance(1, 5):
				bm.invalid = true
				ninv++
				seenBroken = true
			case r.Chance(1, 4):
				bm.labels[addPool[r.Intn(len(addPool))]] = "9"
			}
			if !bm.invalid {
				conf := dupAdded
				for k := range added {
					if _, ok := bm.labels[k]; ok {
						conf = true
					}
				}
				if conf {
					nconf++
					seenBroken = true
				} else if seenBroken {
					validAfterBroken = true
				}
			}
			ms[j] = bm
		}
		checked := r.Chance(1, 3)
		orig, nat := &listCollector{}, &listCollector{}
		for _, bm := range ms {
			if bm.invalid {
				e := userErr{7}
				orig.metrics = append(orig.metrics, prometheus.NewInvalidMetric(prometheus.NewInvalidDesc(e), e))
				nat.metrics = append(nat.metrics, prometheus.NewInvalidMetric(prometheus.NewInvalidDesc(e), e))
				continue
			}
			d := prometheus.NewDesc(bm.name, "h", nil, bm.labels)
			orig.metrics = append(orig.metrics, prometheus.MustNewConstMetric(d, prometheus.GaugeValue, bm.val))
			if checked {
				orig.descs = append(orig.descs, d)
			}
			union := prometheus.Labels{}
			conf := dupAdded
			for k, v := range bm.labels {
				union[k] = v
			}
			for k, v := range added {
				if _, ok := union[k]; ok {
					conf = true
				}
				union[k] = v
			}
			if conf { // cannot be declared natively: the native collector reports it as invalid
				e := userErr{8}
				nat.metrics = append(nat.metrics, prometheus.NewInvalidMetric(prometheus.NewInvalidDesc(e), e))
				continue
			}
			nd := prometheus.NewDesc(allPrefix+bm.name, "h", nil, union)
			nat.metrics = append(nat.metrics, prometheus.MustNewConstMetric(nd, prometheus.GaugeValue, bm.val))
			if checked {
				nat.descs = append(nat.descs, nd)
			}
		}
		r0 := prometheus.NewRegistry()
		if err := r0.Register(orig); err != nil {
			w.Tag("gather-broken:skipped-orig-rejected", 1)
			continue
		}
		f0, e0 := r0.Gather()
		r1 := prometheus.NewRegistry()
		viaRegisterer := r.Bool()
		var wk int
		if wrapPanics(orig.descs, ls) {
			wk = 6
		} else if viaRegisterer {
			wk, _ = safeRegister(wrapRegisterer(r1, ls), orig)
		} else {
			wk, _ = safeRegister(r1, wrapCollector(orig, ls))
		}
		if wk != 0 {
			w.Tag("gather-broken:skipped-rejected", 1)
			continue
		}
		f1, e1 := r1.Gather()
		f2, e2 := r0.Gather()
		r3 := prometheus.NewRegistry()
		if err := r3.Register(nat); err != nil {
			w.Tag("gather-broken:skipped-native-rejected", 1)
			continue
		}
		fn, en := r3.Gather()
		tags := []string{fmt.Sprintf("gather-broken:invalid=%d", ninv), fmt.Sprintf("gather-broken:label-clash=%d", nconf)}
		if checked {
			tags = append(tags, "gather-broken:checked")
		} else {
			tags = append(tags, "gather-broken:unchecked")
		}
		if validAfterBroken {
			tags = append(tags, "gather-broken:valid-after-broken")
		}
		w.Add(emit.Tup("4", emLayers(ls), emit.I(ninv), emFams(f0), emFams(f1), emFams(f2), emFams(fn),
			emit.Tup(emit.B(e0 != nil), emit.B(e1 != nil), emit.B(e2 != nil), emit.B(en != nil))),
			validAfterBroken, tags...)
	}
	return w.Flush()
}

// ---- stream reg-many ----
// Refused wrapped registrations of collectors with many descriptors (12, 25, 100), custom collectors
// and Registries used as collectors: a rejected operation has no effect. Afterwards no goroutine is
// left behind (polled up to 2 s) and the wrapped object is still usable: a second Describe, and for
// a Registry a Register and a Gather, complete under a 3 s watchdog.
func within(ms int, f func()) bool {
	done := make(chan bool, 1)
	go func() { f(); done <- true }()
	select {
	case <-done:
		return true
	case <-time.After(time.Duration(ms) * time.Millisecond):
		return false
	}
}

func regManyStream(c *cli.Ctx, r *emit.Rng) error {
	w := emit.NewWriter(c.Out, "C13", "reg-many")
	time.Sleep(5 * time.Millisecond)
	base := runtime.NumGoroutine()
	var directFailures []map[string]interface{}
	for rep := 0; rep < c.Scale; rep++ {
		for _, n := range []int{12, 25, 100} {
			for variant := 0; variant < 4; variant++ {
				asRegistry, viaRegisterer := variant&1 == 1, variant&2 == 2
				// which descriptors already carry the label the wrapper adds
				bad := map[int]bool{}
				switch r.Intn(3) {
				case 0:
					bad[0] = true
				case 1:
					bad[r.Intn(n-11)] = true
				default:
					for j := 0; j < n; j++ {
						if r.Chance(1, 3) {
							bad[j] = true
						}
					}
					bad[r.Intn(n-11)] = true
				}
				s := &collSpec{kind: "custom-many"}
				lc := &listCollector{}
				sub := prometheus.NewRegistry()
				for j := 0; j < n; j++ {
					cl := prometheus.Labels{}
					if bad[j] {
						cl["z"] = "0"
					}
					if asRegistry {
						sub.MustRegister(prometheus.NewCounter(prometheus.CounterOpts{Name: fmt.Sprintf("m%d", j), Help: "h", ConstLabels: cl}))
					} else {
						lc.descs = append(lc.descs, prometheus.NewDesc(fmt.Sprintf("m%d", j), "h", nil, cl))
					}
				}
				if asRegistry {
					s.c, s.unordered, s.kind = sub, true, "registry-many"
				} else {
					s.c = lc
				}
				finishSpec(s)
				ls := []layer{{labels: prometheus.Labels{"z": "1"}}}
				if r.Bool() {
					ls = append([]layer{{isPrefix: true, prefix: "p_"}}, ls...)
				}
				settledFor(base, 400)
				outer := prometheus.NewRegistry()
				var wk int
				if viaRegisterer {
					wk, _ = safeRegister(wrapRegisterer(outer, ls), s.c)
				} else {
					wk, _ = safeRegister(outer, wrapCollector(s.c, ls))
				}
				what := ""
				if !settledFor(base, 2000) {
					what = fmt.Sprintf("%d goroutine(s) left behind", runtime.NumGoroutine()-base)
				}
				if !within(3000, func() { describeAll(s.c) }) {
					what += "; a second Describe of the wrapped collector does not complete"
				}
				if asRegistry {
					probeSeq++
					p := prometheus.NewCounter(prometheus.CounterOpts{Name: fmt.Sprintf("verif_probe_%d", probeSeq), Help: "probe"})
					if !within(3000, func() { sub.Register(p); sub.Unregister(p) }) {
						what += "; Register on the wrapped Registry does not return"
					} else if !within(3000, func() { sub.Gather() }) {
						what += "; Gather on the wrapped Registry does not return"
					}
				}
				if what != "" {
					directFailures = append(directFailures, map[string]interface{}{"index": w.Len(),
						"what": fmt.Sprintf("after a refused (kind %d) wrapped registration of a %s collector with %d descriptors: %s", wk, s.kind, n, strings.TrimPrefix(what, "; "))})
					base = runtime.NumGoroutine()
				}
				pit := make([]string, len(s.projs))
				for k, p := range s.projs {
					pit[k] = emPdesc(p)
				}
				w.Add(emit.Tup("2", emit.L([]string{emit.Tup(emit.B(s.unordered), emit.L(pit))}),
					emit.L([]string{emit.C(0, emit.I(0), emLayers(ls))}), emit.L([]string{emit.Tup(emit.I(wk), "-1", "9")})),
					true, "reg-many:coll="+s.kind, fmt.Sprintf("reg-many:descs=%d", n), fmt.Sprintf("reg-many:register=%d", wk))
			}
		}
	}
	if len(directFailures) > 0 {
		w.Extra["direct_failures"] = directFailures
	}
	return w.Flush()
}

func runC13(c *cli.Ctx) error {
	r := emit.NewRng(c.Seed)
	if err := descStream(c, "desc", r.Fork(), 800*c.Scale, 1, 40); err != nil {
		return err
	}
	if err := descStream(c, "desc-malformed", r.Fork(), 400*c.Scale, 1, 4); err != nil {
		return err
	}
	if err := writeStream(c, r.Fork(), 400*c.Scale); err != nil {
		return err
	}
	if err := regStream(c, r.Fork(), 400*c.Scale); err != nil {
		return err
	}
	if err := regManyStream(c, r.Fork()); err != nil {
		return err
	}
	if err := gatherStream(c, r.Fork(), 300*c.Scale); err != nil {
		return err
	}
	return gatherBrokenStream(c, r.Fork(), 300*c.Scale)
}
