package main

import (
	"bytes"
	"context"
	"errors"
	"fmt"
	"io"
	"net/http"
	"net/http/httptest"
	"sort"
	"strings"

	"github.com/prometheus/client_golang/prometheus"
	"github.com/prometheus/client_golang/prometheus/promhttp"
	dto "github.com/prometheus/client_model/go"

	"verifharness/internal/cli"
	"verifharness/internal/emit"
)

// C12: HTTP instrumentation records exactly what happened and is transparent.

func main() { cli.Main("C12", runC12) }

// ---- fake underlying writer with net/http's status semantics and partial accepts ----
type fwBase struct {
	hdr        http.Header
	calls      []string
	headers    []int // every WriteHeader code received
	infos      []int // informational codes received before the final status was decided (peer-visible)
	final      int   // first non-informational code, 0 if none yet
	implicit   bool
	acceptNext []int // how many bytes to accept for the next Write/ReadFrom calls
	body       bytes.Buffer
}

func (b *fwBase) log(s string)        { b.calls = append(b.calls, s) }
func (b *fwBase) Header() http.Header { return b.hdr }
func (b *fwBase) WriteHeader(c int) {
	b.headers = append(b.headers, c)
	if c >= 100 && c <= 199 && c != 101 {
		if b.final == 0 {
			b.infos = append(b.infos, c)
		}
		return
	}
	if b.final == 0 {
		b.final = c
	}
}
func (b *fwBase) ensure() {
	if b.final == 0 {
		b.final = 200
		b.implicit = true
	}
}
func (b *fwBase) take(n int) int {
	k := n
	if len(b.acceptNext) > 0 {
		k = b.acceptNext[0]
		b.acceptNext = b.acceptNext[1:]
	}
	if k > n {
		k = n
	}
	return k
}
func (b *fwBase) Write(p []byte) (int, error) {
	b.log("Write")
	b.ensure()
	k := b.take(len(p))
	b.body.Write(p[:k])
	if k < len(p) {
		return k, io.ErrShortWrite
	}
	return k, nil
}
func (b *fwBase) flush() { b.log("Flush"); b.ensure() }
func (b *fwBase) readFrom(r io.Reader) (int64, error) {
	b.log("ReadFrom")
	b.ensure()
	data, _ := io.ReadAll(r)
	k := b.take(len(data))
	b.body.Write(data[:k])
	if k < len(data) {
		return int64(k), io.ErrShortWrite
	}
	return int64(k), nil
}
func (b *fwBase) status() int {
	if b.final == 0 {
		return 200
	}
	return b.final
}

type c12Act struct {
	kind int // 0 WriteHeader, 1 Write, 2 Flush, 3 ReadFrom
	a, k int
}

func c12ActSx(a c12Act) string {
	switch a.kind {
	case 0:
		return emit.C(0, emit.I(a.a))
	case 1:
		return emit.C(1, emit.I(a.a), emit.I(a.k))
	case 2:
		return emit.C(2)
	default:
		return emit.C(3, emit.I(a.a), emit.I(a.k))
	}
}

func c12GenActs(r *emit.Rng, real bool) []c12Act {
	n := r.Intn(7)
	var acts []c12Act
	infos := []int{100, 102, 103, 110, 150, 199}
	finals := []int{200, 201, 204, 301, 304, 400, 404, 418, 429, 500, 503, 599, 101, 226, 451, 299, 600, 700, 999}
	for i := 0; i < n; i++ {
		switch r.Intn(8) {
		case 0, 1:
			acts = append(acts, c12Act{kind: 0, a: finals[r.Intn(len(finals))]})
		case 2:
			acts = append(acts, c12Act{kind: 0, a: infos[r.Intn(len(infos))]})
		case 3, 4:
			nb := r.Intn(40)
			if r.Chance(1, 6) {
				nb = 0 // a zero-length Write still commits the header (implicit 200)
			}
			k := nb
			if !real && r.Chance(1, 3) {
				k = r.Intn(nb + 1)
			}
			acts = append(acts, c12Act{kind: 1, a: nb, k: k})
		case 5:
			acts = append(acts, c12Act{kind: 2})
		case 6:
			nb := 1 + r.Intn(39) // a zero-length ReadFrom before the header is the known finding readfrom-empty (own stream)
			k := nb
			if !real && r.Chance(1, 3) {
				k = r.Intn(nb + 1)
			}
			acts = append(acts, c12Act{kind: 3, a: nb, k: k})
		default:
			acts = append(acts, c12Act{kind: 0, a: 100 + r.Intn(500)})
		}
	}
	return acts
}

// on a real server some sequences are not comparable: bodies on 1xx-final/204/304 statuses are
// suppressed by net/http, 101 hijacks semantics; keep real-server programs to body-allowing statuses.
func c12RealOK(acts []c12Act) bool {
	for _, a := range acts {
		if a.kind == 0 {
			c := a.a
			if c == 101 || c == 204 || c == 304 || c > 599 {
				return false
			}
		}
	}
	return true
}

type c12Impl struct {
	code, method              string
	count                     int
	bytes                     int64
	inflightAfter, inflightIn int
	ttwh                      []string
	peer                      int
	identical                 bool
	durCount                  int
}

func c12Collect(c prometheus.Collector) []*dto.Metric {
	ch := make(chan prometheus.Metric, 100)
	go func() { c.Collect(ch); close(ch) }()
	var out []*dto.Metric
	for m := range ch {
		var d dto.Metric
		m.Write(&d)
		out = append(out, &d)
	}
	return out
}

func lbl(m *dto.Metric, name string) string {
	for _, l := range m.Label {
		if l.GetName() == name {
			return l.GetValue()
		}
	}
	return ""
}

func c12RunProg(method string, extra []string, acts []c12Act, panics bool, real bool, combo int) (res c12Impl, err error) {
	cv := prometheus.NewCounterVec(prometheus.CounterOpts{Name: "c"}, []string{"code", "method"})
	dur := prometheus.NewHistogramVec(prometheus.HistogramOpts{Name: "d"}, []string{"code", "method"})
	rs := prometheus.NewHistogramVec(prometheus.HistogramOpts{Name: "rs"}, []string{"code"})
	tt := prometheus.NewHistogramVec(prometheus.HistogramOpts{Name: "tt"}, []string{"code"})
	rq := prometheus.NewHistogramVec(prometheus.HistogramOpts{Name: "rq"}, []string{"method"})
	g := prometheus.NewGauge(prometheus.GaugeOpts{Name: "g"})
	inflightIn := -1
	handler := http.HandlerFunc(func(w http.ResponseWriter, r *http.Request) {
		var gm dto.Metric
		g.Write(&gm)
		if inflightIn < 0 {
			inflightIn = int(gm.Gauge.GetValue())
		}
		if c12HijackFails {
			// a handler that first tries to take over the connection, fails, and falls back to an ordinary
			// response: the failed Hijack must be without effect (the model sees only the actions below)
			if hj, ok := w.(http.Hijacker); ok {
				hj.Hijack()
			}
		}
		for _, a := range acts {
			switch a.kind {
			case 0:
				w.WriteHeader(a.a)
			case 1:
				w.Write(bytes.Repeat([]byte("x"), a.a))
			case 2:
				if f, ok := w.(http.Flusher); ok {
					f.Flush()
				}
			case 3:
				if rf, ok := w.(io.ReaderFrom); ok {
					rf.ReadFrom(strings.NewReader(strings.Repeat("y", a.a)))
				}
			}
		}
		if panics {
			panic(http.ErrAbortHandler)
		}
	})
	opt := promhttp.WithExtraMethods(extra...)
	chain := promhttp.InstrumentHandlerInFlight(g,
		promhttp.InstrumentHandlerCounter(cv,
			promhttp.InstrumentHandlerDuration(dur,
				promhttp.InstrumentHandlerResponseSize(rs,
					promhttp.InstrumentHandlerTimeToWriteHeader(tt,
						promhttp.InstrumentHandlerRequestSize(rq, handler, opt), opt), opt), opt), opt))
	if real {
		do := func(h http.Handler) (int, []byte, http.Header, error) {
			srv := httptest.NewServer(h)
			defer srv.Close()
			req, _ := http.NewRequest(method, srv.URL, nil)
			resp, e := srv.Client().Do(req)
			if e != nil {
				return 0, nil, nil, e
			}
			defer resp.Body.Close()
			b, _ := io.ReadAll(resp.Body)
			resp.Header.Del("Date")
			return resp.StatusCode, b, resp.Header, nil
		}
		s1, b1, h1, e1 := do(chain)
		s2, b2, h2, e2 := do(handler)
		if (e1 != nil) != (e2 != nil) {
			return res, fmt.Errorf("real server: error mismatch %v / %v", e1, e2)
		}
		res.peer = s1
		res.identical = e1 != nil || (s1 == s2 && bytes.Equal(b1, b2) && fmt.Sprint(h1) == fmt.Sprint(h2))
	} else {
		base := &fwBase{hdr: http.Header{}}
		for _, a := range acts {
			if a.kind == 1 || a.kind == 3 {
				base.acceptNext = append(base.acceptNext, a.k)
			}
		}
		w := newFakeWriter(combo, base)
		req, _ := http.NewRequest(method, "http://example.org/x", nil)
		func() {
			defer func() { recover() }()
			chain.ServeHTTP(w, req)
		}()
		res.peer = base.status()
		// transparency against the same program on a bare writer
		base2 := &fwBase{hdr: http.Header{}}
		for _, a := range acts {
			if a.kind == 1 || a.kind == 3 {
				base2.acceptNext = append(base2.acceptNext, a.k)
			}
		}
		func() {
			defer func() { recover() }()
			handler.ServeHTTP(newFakeWriter(combo, base2), req)
		}()
		res.identical = base.status() == base2.status() && bytes.Equal(base.body.Bytes(), base2.body.Bytes()) &&
			fmt.Sprint(base.infos) == fmt.Sprint(base2.infos) && fmt.Sprint(base.calls) == fmt.Sprint(base2.calls)
	}
	for _, m := range c12Collect(cv) {
		res.count += int(m.Counter.GetValue())
		res.code, res.method = lbl(m, "code"), lbl(m, "method")
	}
	for _, m := range c12Collect(rs) {
		res.bytes += int64(m.Histogram.GetSampleSum())
	}
	for _, m := range c12Collect(tt) {
		for i := 0; i < int(m.Histogram.GetSampleCount()); i++ {
			res.ttwh = append(res.ttwh, lbl(m, "code"))
		}
	}
	for _, m := range c12Collect(dur) {
		res.durCount += int(m.Histogram.GetSampleCount())
	}
	var gm dto.Metric
	g.Write(&gm)
	res.inflightAfter = int(gm.Gauge.GetValue())
	res.inflightIn = inflightIn
	sort.Strings(res.ttwh)
	return res, nil
}

type rtFunc func(*http.Request) (*http.Response, error)

func (f rtFunc) RoundTrip(r *http.Request) (*http.Response, error) { return f(r) }

type ctxKey struct{}

type stackKey string

var c12ClientNotTransparent []string

func runC12(c *cli.Ctx) error {
	r := emit.NewRng(c.Seed)
	// ---- stream codes: every status code in a window + random large ones
	w := emit.NewWriter(c.Out, "C12", "codes")
	for s := -60; s <= 1100; s++ {
		w.Add(emit.C(0, emit.I(s), emit.S(promhttp.VerifSanitizeCode(s))), s >= 100 && s <= 599, "range:-60..1100")
	}
	for i := 0; i < 200*c.Scale; i++ {
		s := int(int32(r.U64()))
		if r.Chance(1, 2) {
			s = int(int64(r.U64()))
		}
		w.Add(emit.C(0, emit.I(s), emit.S(promhttp.VerifSanitizeCode(s))), false, "range:random-int")
	}
	if err := w.Flush(); err != nil {
		return err
	}
	// ---- stream methods
	w = emit.NewWriter(c.Out, "C12", "methods")
	known := []string{"GET", "PUT", "HEAD", "POST", "DELETE", "CONNECT", "OPTIONS", "NOTIFY", "TRACE", "PATCH"}
	pool := []string{"", "get", "Get", "gEt", "GETS", "PROPFIND", "propfind", "PropFind", "M-SEARCH", "m-search", "QUERY", "unknown", "UNKNOWN", "x", "LOCK", "lock", "PURGE", "Purge", "a b", "get ", " GET"}
	for _, k := range known {
		pool = append(pool, k, strings.ToLower(k), strings.Title(strings.ToLower(k)))
	}
	mutate := func(s string) string {
		b := []byte(s)
		for i := range b {
			if r.Chance(1, 3) {
				if b[i] >= 'a' && b[i] <= 'z' {
					b[i] -= 32
				} else if b[i] >= 'A' && b[i] <= 'Z' {
					b[i] += 32
				}
			}
		}
		return string(b)
	}
	for i := 0; i < 400*c.Scale; i++ {
		m := pool[r.Intn(len(pool))]
		if r.Chance(1, 3) {
			m = mutate(m)
		}
		var extra []string
		for j := r.Intn(4); j > 0; j-- {
			e := pool[r.Intn(len(pool))]
			if r.Chance(1, 2) {
				e = mutate(e)
			}
			extra = append(extra, e)
		}
		got := promhttp.VerifSanitizeMethod(m, extra...)
		tag := "method:other"
		if got != "unknown" {
			tag = "method:recognised"
		}
		w.Add(emit.C(1, emit.S(m), emit.SL(extra), emit.S(got)), got != "unknown", tag, fmt.Sprintf("extras:%d", len(extra)))
	}
	if err := w.Flush(); err != nil {
		return err
	}
	// ---- stream deleg: all 32 combinations, offered interfaces and delegation
	w = emit.NewWriter(c.Out, "C12", "deleg")
	for combo := 0; combo < 32; combo++ {
		base := &fwBase{hdr: http.Header{}}
		d := promhttp.VerifNewDelegator(newFakeWriter(combo, base), nil)
		offered, fwd := 0, 0
		if x, ok := d.(http.CloseNotifier); ok {
			offered |= 1
			base.calls = nil
			func() { defer func() { recover() }(); x.CloseNotify() }()
			if fmt.Sprint(base.calls) == "[CloseNotify]" {
				fwd |= 1
			}
		}
		if x, ok := d.(http.Flusher); ok {
			offered |= 2
			base.calls = nil
			func() { defer func() { recover() }(); x.Flush() }()
			if fmt.Sprint(base.calls) == "[Flush]" {
				fwd |= 2
			}
		}
		if x, ok := d.(http.Hijacker); ok {
			offered |= 4
			base.calls = nil
			func() { defer func() { recover() }(); x.Hijack() }()
			if fmt.Sprint(base.calls) == "[Hijack]" {
				fwd |= 4
			}
		}
		if x, ok := d.(io.ReaderFrom); ok {
			offered |= 8
			base.calls = nil
			func() { defer func() { recover() }(); x.ReadFrom(strings.NewReader("abc")) }()
			if fmt.Sprint(base.calls) == "[ReadFrom]" {
				fwd |= 8
			}
		}
		if x, ok := d.(http.Pusher); ok {
			offered |= 16
			base.calls = nil
			func() { defer func() { recover() }(); x.Push("/x", nil) }()
			if fmt.Sprint(base.calls) == "[Push]" {
				fwd |= 16
			}
		}
		w.Add(emit.C(2, emit.I(combo), emit.I(offered), emit.I(fwd)), true, "combos")
	}
	if err := w.Flush(); err != nil {
		return err
	}
	// ---- stream progs: handler programs through the stacked middlewares
	w = emit.NewWriter(c.Out, "C12", "progs")
	methods := []string{"GET", "POST", "get", "Get", "PROPFIND", "propfind", "DELETE", "PATCH", "FOO"}
	nprog := 250 * c.Scale
	for i := 0; i < nprog; i++ {
		real := r.Chance(1, 3)
		acts := c12GenActs(r, real)
		if real && !c12RealOK(acts) {
			real = false
		}
		m := methods[r.Intn(len(methods))]
		if real && (m == "get" || m == "Get" || m == "propfind") {
			m = strings.ToUpper(m) // net/http clients upper-case some and reject others; keep to valid tokens
		}
		var extra []string
		if r.Chance(1, 2) {
			extra = []string{"PropFind"}
		}
		panics := r.Chance(1, 8)
		if panics {
			real = false // an aborted connection has no peer-visible status to compare
		}
		combo := r.Intn(32) | 2 | 8 // programs use Flush and ReadFrom, so the fake writer offers them
		if r.Chance(1, 4) {
			combo = 31
		}
		c12HijackFails = !real && r.Chance(1, 4)
		if c12HijackFails {
			combo |= 4 // the fake writer offers Hijacker
		}
		res, err := c12RunProg(m, extra, acts, panics, real, combo)
		hijackFirst := c12HijackFails
		c12HijackFails = false
		if err != nil {
			return err
		}
		as := make([]string, len(acts))
		for j, a := range acts {
			as[j] = c12ActSx(a)
		}
		impl := emit.Tup(emit.S(res.code), emit.S(res.method), emit.I(res.count), emit.Z(res.bytes), emit.I(res.inflightAfter), emit.I(res.inflightIn),
			emit.SL(res.ttwh), emit.I(res.peer), emit.B(res.identical), emit.I(res.durCount))
		tags := []string{fmt.Sprintf("real-server:%v", real), fmt.Sprintf("panics:%v", panics), fmt.Sprintf("acts:%d", len(acts))}
		if hijackFirst {
			tags = append(tags, "failed-hijack-first")
		}
		for _, a := range acts {
			if a.kind == 0 && a.a >= 100 && a.a <= 199 && a.a != 101 {
				tags = append(tags, "has-1xx")
				break
			}
		}
		w.Add(emit.C(3, emit.S(m), emit.SL(extra), emit.L(as), emit.B(panics), emit.B(real), impl), len(acts) >= 2, tags...)
	}
	if err := w.Flush(); err != nil {
		return err
	}
	// ---- stream known-readfrom-empty: a zero-length ReadFrom before the header. net/http's writer does not commit
	// the header for an empty ReadFrom, but the delegator forces WriteHeader(200) before delegating, so the
	// instrumented handler answers 200 where the bare one answers the later explicit status.
	w = emit.NewWriter(c.Out, "C12", "known-readfrom-empty")
	{
		acts := []c12Act{{kind: 3, a: 0, k: 0}, {kind: 0, a: 500}}
		res, err := c12RunProg("GET", nil, acts, false, true, 31)
		if err != nil {
			return err
		}
		as := make([]string, len(acts))
		for j, a := range acts {
			as[j] = c12ActSx(a)
		}
		impl := emit.Tup(emit.S(res.code), emit.S(res.method), emit.I(res.count), emit.Z(res.bytes), emit.I(res.inflightAfter), emit.I(res.inflightIn),
			emit.SL(res.ttwh), emit.I(res.peer), emit.B(res.identical), emit.I(res.durCount))
		w.Add(emit.C(3, emit.S("GET"), emit.SL(nil), emit.L(as), emit.B(false), emit.B(true), impl), true, "known")
	}
	if err := w.Flush(); err != nil {
		return err
	}
	// ---- stream client: round-tripper middlewares
	w = emit.NewWriter(c.Out, "C12", "client")
	for i := 0; i < 150*c.Scale; i++ {
		status := []int{200, 204, 301, 404, 500, 0, 99, 100, 600, 429, 511, 299}[r.Intn(12)]
		fail := r.Chance(1, 5)
		reqNil := r.Chance(1, 3)
		m := methods[r.Intn(len(methods))]
		cv := prometheus.NewCounterVec(prometheus.CounterOpts{Name: "c"}, []string{"code", "method", "who"})
		hv := prometheus.NewHistogramVec(prometheus.HistogramOpts{Name: "h"}, []string{"code", "who"})
		g := prometheus.NewGauge(prometheus.GaugeOpts{Name: "g"})
		// a failing transport may hand back a response alongside its error (redirect-policy / retry style);
		// the middlewares must pass both through untouched
		failWithResp := fail && r.Bool()
		var innerResp *http.Response
		var innerErr error
		rt := rtFunc(func(req *http.Request) (*http.Response, error) {
			if fail && !failWithResp {
				innerErr = errors.New("boom")
				return nil, innerErr
			}
			resp := &http.Response{StatusCode: status, Body: io.NopCloser(strings.NewReader("")), Header: http.Header{}}
			if !reqNil {
				resp.Request = req
			}
			innerResp = resp
			if failWithResp {
				innerErr = errors.New("boom, with a response")
			}
			return resp, innerErr
		})
		opt := promhttp.WithLabelFromCtx("who", func(ctx context.Context) string {
			if v, ok := ctx.Value(ctxKey{}).(string); ok {
				return v
			}
			return "nobody"
		})
		// the two options together, in either order (each alone is exercised by the server-side streams)
		var cextra []string
		switch r.Intn(3) {
		case 1:
			cextra = []string{"PROPFIND"}
		case 2:
			cextra = []string{"foo", "propfind"}
		}
		copts := []promhttp.Option{opt, promhttp.WithExtraMethods(cextra...)}
		if r.Bool() {
			copts[0], copts[1] = copts[1], copts[0]
		}
		chain := promhttp.InstrumentRoundTripperInFlight(g,
			promhttp.InstrumentRoundTripperCounter(cv, promhttp.InstrumentRoundTripperDuration(hv, rt, copts...), copts...))
		req, _ := http.NewRequestWithContext(context.WithValue(context.Background(), ctxKey{}, "me"), m, "http://example.org/", nil)
		panicked := false
		var rerr error
		func() {
			defer func() {
				if e := recover(); e != nil {
					panicked = true
				}
			}()
			var gotResp *http.Response
			gotResp, rerr = chain.RoundTrip(req)
			if gotResp != innerResp || rerr != innerErr {
				c12ClientNotTransparent = append(c12ClientNotTransparent, fmt.Sprintf("case %d: transport returned (response %v, error %v), the caller of the instrumented chain got (response %v, error %v)", i, innerResp != nil, innerErr, gotResp != nil, rerr))
			}
		}()
		// each client middleware alone, too
		if !reqNil || fail {
			for k, one := range []http.RoundTripper{
				promhttp.InstrumentRoundTripperInFlight(prometheus.NewGauge(prometheus.GaugeOpts{Name: "g1"}), rt),
				promhttp.InstrumentRoundTripperCounter(prometheus.NewCounterVec(prometheus.CounterOpts{Name: "c1"}, []string{"code"}), rt),
				promhttp.InstrumentRoundTripperDuration(prometheus.NewHistogramVec(prometheus.HistogramOpts{Name: "h1"}, []string{"method"}), rt),
			} {
				gotResp, gotErr := one.RoundTrip(req)
				if gotResp != innerResp || gotErr != innerErr {
					c12ClientNotTransparent = append(c12ClientNotTransparent, fmt.Sprintf("case %d, middleware %d alone (0 in-flight, 1 counter, 2 duration): transport returned (response %v, error %v), the caller got (response %v, error %v)", i, k, innerResp != nil, innerErr, gotResp != nil, gotErr))
				}
			}
		}
		count, code, meth, who := 0, "", "", ""
		for _, mm := range c12Collect(cv) {
			count += int(mm.Counter.GetValue())
			code, meth, who = lbl(mm, "code"), lbl(mm, "method"), lbl(mm, "who")
		}
		dcount := 0
		for _, mm := range c12Collect(hv) {
			dcount += int(mm.Histogram.GetSampleCount())
		}
		var gm dto.Metric
		g.Write(&gm)
		w.Add(emit.C(5, emit.S(m), emit.SL(cextra), emit.I(status), emit.B(fail), emit.B(reqNil),
			emit.Tup(emit.I(count), emit.S(code), emit.S(meth), emit.S(who), emit.B(panicked), emit.B(rerr != nil), emit.I(dcount), emit.I(int(gm.Gauge.GetValue())))),
			!fail, fmt.Sprintf("transport-fails:%v", fail), fmt.Sprintf("fails-with-response:%v", failWithResp), fmt.Sprintf("response.Request-nil:%v", reqNil))
	}
	if len(c12ClientNotTransparent) > 0 {
		w.Extra["direct_failures"] = []map[string]interface{}{{"index": -1, "what": fmt.Sprintf("%d round trips were not passed through untouched; first: %s", len(c12ClientNotTransparent), c12ClientNotTransparent[0])}}
	}
	if err := w.Flush(); err != nil {
		return err
	}
	// ---- stream stack: two or three middlewares (Counter, Duration, RequestSize, ResponseSize, TimeToWriteHeader)
	// stacked around one handler, each with its own label layout (code?, method?, labels derived from the request
	// context) and all with the same extra-method option; several requests with different context values.
	// Every request is counted (observed) exactly once by every middleware, under its own label tuple.
	w = emit.NewWriter(c.Out, "C12", "stack")
	for i := 0; i < 150*c.Scale; i++ {
		nm := 2 + r.Intn(2)
		type lay struct {
			code, method bool
			ctx          []string
		}
		lays := make([]lay, nm)
		vecs := make([]prometheus.Collector, nm)
		kinds := make([]int, nm)
		var extra []string
		switch r.Intn(3) {
		case 1:
			extra = []string{"PROPFIND"}
		case 2:
			extra = []string{"foo", "propfind"}
		}
		var h http.Handler = http.HandlerFunc(func(rw http.ResponseWriter, req *http.Request) {
			if st, _ := req.Context().Value(stackKey("status")).(int); st != 0 {
				rw.WriteHeader(st)
			}
			rw.Write([]byte("x"))
		})
		for k := 0; k < nm; k++ {
			l := lay{}
			switch r.Intn(6) {
			case 0: // completely unpartitioned
			case 1:
				l.ctx = []string{"who"}
			case 2:
				l.ctx = []string{"tenant", "who"}
			case 3:
				l.code = true
				l.ctx = []string{"tenant"}
			case 4:
				l.code, l.method = true, true
			default:
				l.code, l.method = r.Bool(), r.Bool()
				if r.Bool() {
					l.ctx = []string{"who"}
				}
			}
			var names []string
			if l.code {
				names = append(names, "code")
			}
			if l.method {
				names = append(names, "method")
			}
			names = append(names, l.ctx...)
			r3 := r.Fork()
			sort.Slice(names, func(a, b int) bool { return r3.Bool() })
			opts := []promhttp.Option{promhttp.WithExtraMethods(extra...)}
			for _, n := range l.ctx {
				n := n
				opts = append(opts, promhttp.WithLabelFromCtx(n, func(ctx context.Context) string {
					v, _ := ctx.Value(stackKey(n)).(string)
					return v
				}))
			}
			lays[k] = l
			kinds[k] = r.Intn(5)
			if kinds[k] == 0 {
				cv := prometheus.NewCounterVec(prometheus.CounterOpts{Name: fmt.Sprintf("c%d", k)}, names)
				vecs[k] = cv
				h = promhttp.InstrumentHandlerCounter(cv, h, opts...)
			} else {
				hv := prometheus.NewHistogramVec(prometheus.HistogramOpts{Name: fmt.Sprintf("c%d", k)}, names)
				vecs[k] = hv
				switch kinds[k] {
				case 1:
					h = promhttp.InstrumentHandlerDuration(hv, h, opts...)
				case 2:
					h = promhttp.InstrumentHandlerRequestSize(hv, h, opts...)
				case 3:
					h = promhttp.InstrumentHandlerResponseSize(hv, h, opts...)
				default:
					h = promhttp.InstrumentHandlerTimeToWriteHeader(hv, h, opts...)
				}
			}
		}
		nreq := 2 + r.Intn(3)
		reqs := make([]string, nreq)
		panicked := false
		for q := 0; q < nreq; q++ {
			m := methods[r.Intn(len(methods))]
			st := []int{0, 200, 404, 500, 204, 301}[r.Intn(6)]
			who := []string{"a", "b", ""}[r.Intn(3)]
			tenant := []string{"t1", "t2"}[r.Intn(2)]
			ctx := context.WithValue(context.Background(), stackKey("status"), st)
			ctx = context.WithValue(ctx, stackKey("who"), who)
			ctx = context.WithValue(ctx, stackKey("tenant"), tenant)
			req := httptest.NewRequest("GET", "/", nil).WithContext(ctx)
			req.Method = m
			func() {
				defer func() {
					if e := recover(); e != nil {
						panicked = true
					}
				}()
				h.ServeHTTP(httptest.NewRecorder(), req)
			}()
			reqs[q] = emit.Tup(emit.S(m), emit.I(st), emit.L([]string{emit.Pair(emit.S("who"), emit.S(who)), emit.Pair(emit.S("tenant"), emit.S(tenant))}))
		}
		ls := make([]string, nm)
		impl := make([]string, nm)
		for k := range lays {
			cn := make([]string, len(lays[k].ctx))
			for j, n := range lays[k].ctx {
				cn[j] = emit.S(n)
			}
			ls[k] = emit.Tup(emit.B(lays[k].code), emit.B(lays[k].method), emit.L(cn))
			var children []string
			for _, mm := range c12Collect(vecs[k]) {
				ps := make([]string, len(mm.Label))
				for j, lp := range mm.Label {
					ps[j] = emit.Pair(emit.S(lp.GetName()), emit.S(lp.GetValue()))
				}
				n := 0
				if mm.Counter != nil {
					n = int(mm.Counter.GetValue())
				} else {
					n = int(mm.Histogram.GetSampleCount())
				}
				children = append(children, emit.Tup(emit.L(ps), emit.I(n)))
			}
			sort.Strings(children)
			impl[k] = emit.L(children)
		}
		tags := []string{fmt.Sprintf("middlewares:%d", nm), fmt.Sprintf("requests:%d", nreq), fmt.Sprintf("extra-methods:%d", len(extra))}
		for k := range kinds {
			tags = append(tags, "kind:"+[]string{"Counter", "Duration", "RequestSize", "ResponseSize", "TimeToWriteHeader"}[kinds[k]])
		}
		w.Add(emit.C(7, emit.L(ls), emit.SL(extra), emit.L(reqs), emit.Tup(emit.B(panicked), emit.L(impl))), true, tags...)
	}
	if err := w.Flush(); err != nil {
		return err
	}
	// ---- stream labels: label layouts accepted / refused at construction
	w = emit.NewWriter(c.Out, "C12", "labels")
	names := []string{"code", "method", "other", "handler", "Code"}
	for i := 0; i < 120*c.Scale; i++ {
		var vars []string
		for _, n := range names {
			if r.Chance(2, 5) {
				vars = append(vars, n)
			}
		}
		r2 := r.Fork()
		sort.Slice(vars, func(a, b int) bool { return r2.Bool() })
		consts := prometheus.Labels{}
		var constNames []string
		for _, n := range names {
			in := false
			for _, v := range vars {
				if v == n {
					in = true
				}
			}
			if !in && r.Chance(1, 4) {
				consts[n] = "k"
				constNames = append(constNames, n)
			}
		}
		var curried []string
		cur := prometheus.Labels{}
		for _, v := range vars {
			if r.Chance(1, 4) {
				cur[v] = "c"
				curried = append(curried, v)
			}
		}
		var free []string
		for _, v := range vars {
			if _, ok := cur[v]; !ok {
				free = append(free, v)
			}
		}
		cv := prometheus.NewCounterVec(prometheus.CounterOpts{Name: "c", ConstLabels: consts}, vars)
		constrained := r.Chance(1, 2)
		if constrained {
			// the same layout through the V2 constructor with value-changing label constraints: the decision depends
			// on the label NAMES only
			cl := make(prometheus.ConstrainedLabels, len(vars))
			for k, v := range vars {
				fn := []func(string) string{
					func(s string) string { return strings.ToLower(s) },
					func(s string) string {
						if len(s) > 3 {
							return s[:3]
						}
						return s
					},
					func(string) string { return "const" },
				}[r.Intn(3)]
				cl[k] = prometheus.ConstrainedLabel{Name: v, Constraint: fn}
			}
			cv = prometheus.V2.NewCounterVec(prometheus.CounterVecOpts{CounterOpts: prometheus.CounterOpts{Name: "c", ConstLabels: consts}, VariableLabels: cl})
		}
		panicked := false
		func() {
			defer func() {
				if e := recover(); e != nil {
					panicked = true
				}
			}()
			promhttp.InstrumentHandlerCounter(cv.MustCurryWith(cur), http.HandlerFunc(func(http.ResponseWriter, *http.Request) {}))
		}()
		w.Add(emit.C(6, emit.SL(free), emit.SL(constNames), emit.SL(curried), emit.B(panicked)), len(free) > 0, fmt.Sprintf("refused:%v", panicked), fmt.Sprintf("constrained-labels:%v", constrained))
	}
	return w.Flush()
}
