package main

import (
	"bytes"
	"context"
	"encoding/binary"
	"errors"
	"fmt"
	"io"
	"log/slog"
	"net"
	"net/http"
	"net/http/httptest"
	"os"
	"sort"
	"strconv"
	"strings"
	"sync"
	"time"

	"github.com/klauspost/compress/snappy"
	"google.golang.org/protobuf/proto"
	"google.golang.org/protobuf/types/known/wrapperspb"

	"github.com/prometheus/client_golang/exp/api/remote"
	writev2 "github.com/prometheus/client_golang/exp/api/remote/genproto/v2"

	"verifharness/internal/cli"
	"verifharness/internal/emit"
)

// C20: remote-write client and handler (real code: exp/api/remote).
//
// write   case := (0 opts ty kind script impl)
//   opts := the SET of retry-related API options, canonical order: (0 min_ns max_ns max_retries) WithAPIBackoff | (1) WithAPINoRetryOnRateLimit
//     (the API value is built from a seeded subset of {backoff, no-retry, path, logger, http client} in a seeded ORDER) ; kind := 0 vt | 1 gogo | 2 generic | 3 not-proto | 4 marshal-error
//   script := list (outcome cancel) ; outcome := (0) transport fault (connection drop, or - caller's context alive - a
//     client-side timeout / an error wrapping context.DeadlineExceeded, context.Canceled, os.ErrDeadlineExceeded, net timeout) | (1) body-error | (2 status samples hist exem retry_after ra_date?)
//   cancel := 0 none | 1 before send | 2 after response | 3 in the backoff wait
//   impl := (reqs err stats gaps) ; req := (ctype cenc version retry? body_ok) ; err := (code arg)
// conc    case := (1 n recv results corrupt) ; recv := (id attempt seen) sorted ; result := (id errcode samples hist exem)
// handler case := (2 accepted method ctype cenc decoded? body_read_fails sb ast? impl)
//   sb := (nil status samples hist exem err) ; ast := (lead media (list (ows1 ows2 name value)) trail)
//   impl := (0 call?) panic | (1 status written? call?) ; call := (type payload)
// ctype   case := (3 header ast? res)   res := 0 error | 1 v1 | 2 v2
// retry-after case := (4 header ns) ; stats-header case := (5 samples hist exem (s h e confirmed failed))

const (
	v1Name = string(remote.WriteV1MessageType)
	v2Name = string(remote.WriteV2MessageType)
)

func main() { cli.Main("C20", runC20) }

// ---------- messages over the three marshalling paths ----------

type gogoMsg struct {
	id  uint64
	pad []byte
}

func (g *gogoMsg) Size() int { return 8 + len(g.pad) }
func (g *gogoMsg) MarshalToSizedBuffer(d []byte) (int, error) {
	n := g.Size()
	i := len(d) - n
	binary.BigEndian.PutUint64(d[i:], g.id)
	copy(d[i+8:], g.pad)
	return n, nil
}

func padBytes(r *emit.Rng, n int, compressible bool) []byte {
	p := make([]byte, n)
	if compressible {
		for i := range p {
			p[i] = byte('a' + i%3)
		}
		return p
	}
	for i := range p {
		p[i] = byte('a' + r.Intn(26)) // ASCII so it is also a valid proto3 string
	}
	return p
}

// mkMsg builds a message with a unique id and its expected wire bytes.
func mkMsg(kind int, id uint64, pad []byte) (any, []byte) {
	switch kind {
	case 0:
		m := &writev2.Request{Symbols: []string{"", "id-" + strconv.FormatUint(id, 10), string(pad)}}
		b, err := m.MarshalVT()
		if err != nil {
			panic(err)
		}
		return m, b
	case 1:
		m := &gogoMsg{id: id, pad: pad}
		b := make([]byte, m.Size())
		m.MarshalToSizedBuffer(b)
		return m, b
	case 2:
		v := make([]byte, 8+len(pad))
		binary.BigEndian.PutUint64(v, id)
		copy(v[8:], pad)
		m := wrapperspb.Bytes(v)
		b, err := proto.Marshal(m)
		if err != nil {
			panic(err)
		}
		return m, b
	case 3:
		return fmt.Sprintf("not a proto message %d", id), nil
	default:
		return wrapperspb.String("\xff\xfe invalid utf-8"), nil
	}
}

// bodyOK: the received body snappy-decodes and unmarshals to the message of the call.
func bodyOK(kind int, body, expected []byte, msg any) bool {
	dec, err := snappy.Decode(nil, body)
	if err != nil || !bytes.Equal(dec, expected) {
		return false
	}
	switch kind {
	case 0:
		var got writev2.Request
		if err := got.UnmarshalVT(dec); err != nil {
			return false
		}
		return proto.Equal(&got, msg.(*writev2.Request))
	case 2:
		var got wrapperspb.BytesValue
		if err := proto.Unmarshal(dec, &got); err != nil {
			return false
		}
		return proto.Equal(&got, msg.(*wrapperspb.BytesValue))
	}
	return true
}

// ---------- scripted server ----------

type attemptSpec struct {
	kind                            int // 0 drop, 1 body error, 2 response, 3 client-side fault (answer discarded), 4 server stalls until the client's own Timeout fires
	fault                           int // kind 3: which error the transport reports
	status                          int
	samples, hist, exem, retryAfter string
	futureDate                      bool // Retry-After = an HTTP date 1-2 s ahead, computed when answering
	raDate                          *int64
	cancel                          int
}

type obsReq struct {
	ctype, cenc, version string
	retry                *string
	bodyOK               bool
}

type wcase struct {
	key                          string
	min, max                     time.Duration
	maxRetr                      int
	retry429                     bool
	ty                           string
	kind                         int
	script                       []attemptSpec
	msg                          any
	expected                     []byte
	timing                       bool
	cliTmo                       bool   // use the http.Client with its own Timeout
	dl                           int    // caller's context: 0 plain cancel; 1 context.WithDeadline (30 s ahead), cancelled by the script; 2 a deadline context that reports DeadlineExceeded when the script ends it; 3 WithDeadline, generous, never reached
	noBackoff, noPath, nopLogger bool   // option subset: WithAPIBackoff / WithAPIPath omitted, a do-nothing WithAPILogger added
	order                        uint64 // seed of the order in which the options are passed to NewAPI
	path                         string // request path seen by the server
	tags                         []string

	mu        sync.Mutex
	srvIdx    int
	clientIdx int
	logIdx    int
	reqs      []obsReq
	arrivals  []time.Time
	overflow  bool
	cancel    context.CancelFunc

	err   error
	stats remote.WriteResponseStats
}

type caseKey struct{}

// dlCtx is a context with a deadline whose expiry is triggered by the script (through the wrapped cancel function)
// instead of by the clock, so that "the deadline expires during the backoff wait" needs no real waiting.
type dlCtx struct {
	context.Context
	dl time.Time
}

func (d dlCtx) Deadline() (time.Time, bool) { return d.dl, true }
func (d dlCtx) Err() error {
	if d.Context.Err() != nil {
		return context.DeadlineExceeded
	}
	return nil
}

type scriptServer struct{ cases sync.Map }

func drop(w http.ResponseWriter, partial string) {
	hj, ok := w.(http.Hijacker)
	if !ok {
		panic("no hijacker")
	}
	conn, _, err := hj.Hijack()
	if err != nil {
		return
	}
	if partial != "" {
		io.WriteString(conn, partial)
	}
	conn.Close()
}

func (s *scriptServer) ServeHTTP(w http.ResponseWriter, r *http.Request) {
	now := time.Now()
	v, ok := s.cases.Load(r.Header.Get("X-Verif-Case"))
	body, _ := io.ReadAll(r.Body)
	if !ok {
		w.WriteHeader(http.StatusTeapot)
		return
	}
	c := v.(*wcase)
	c.mu.Lock()
	if c.path == "" || c.path == r.URL.Path {
		c.path = r.URL.Path
	} else {
		c.path = "MIXED"
	}
	c.mu.Unlock()
	o := obsReq{ctype: r.Header.Get("Content-Type"), cenc: strings.Join(r.Header.Values("Content-Encoding"), ","),
		version: r.Header.Get("X-Prometheus-Remote-Write-Version"), bodyOK: bodyOK(c.kind, body, c.expected, c.msg)}
	if vs := r.Header.Values("Retry-Attempt"); len(vs) > 0 {
		x := strings.Join(vs, ",")
		o.retry = &x
	}
	c.mu.Lock()
	k := c.srvIdx
	c.srvIdx++
	c.reqs = append(c.reqs, o)
	c.arrivals = append(c.arrivals, now)
	if k >= len(c.script) {
		c.overflow = true
	}
	c.mu.Unlock()
	if k >= len(c.script) {
		w.WriteHeader(http.StatusBadRequest)
		return
	}
	a := c.script[k]
	switch a.kind {
	case 0:
		drop(w, "")
	case 3: // answered normally; the client-side transport reports a fault instead of this response
		w.Header().Set("X-Prometheus-Remote-Write-Samples-Written", "9")
		w.WriteHeader(http.StatusOK)
	case 4: // stall until the client gives up (its own Timeout), the caller's context stays alive
		select {
		case <-r.Context().Done():
		case <-time.After(10 * time.Second):
		}
		drop(w, "")
	case 1:
		drop(w, "HTTP/1.1 200 OK\r\nContent-Length: 64\r\nContent-Type: text/plain\r\n\r\npartial")
	default:
		h := w.Header()
		if a.samples != "" {
			h.Set("X-Prometheus-Remote-Write-Samples-Written", a.samples)
		}
		if a.hist != "" {
			h.Set("X-Prometheus-Remote-Write-Histograms-Written", a.hist)
		}
		if a.exem != "" {
			h.Set("X-Prometheus-Remote-Write-Exemplars-Written", a.exem)
		}
		if a.futureDate {
			h.Set("Retry-After", time.Now().Add(2*time.Second).UTC().Format(http.TimeFormat))
		} else if a.retryAfter != "" {
			h.Set("Retry-After", a.retryAfter)
		}
		w.WriteHeader(a.status)
		if a.status != 204 && a.status != 304 {
			io.WriteString(w, "answer "+strconv.Itoa(a.status))
		}
	}
}

type netTimeout struct{}

func (netTimeout) Error() string   { return "i/o timeout" }
func (netTimeout) Timeout() bool   { return true }
func (netTimeout) Temporary() bool { return true }

// transportFaults are errors a RoundTripper can report while the CALLER's context is still alive.
var transportFaults = []struct {
	name string
	err  error
}{
	{"deadline-exceeded", context.DeadlineExceeded},
	{"wrapped-deadline-exceeded", fmt.Errorf("dial tcp 10.0.0.1:443: i/o timeout: %w", context.DeadlineExceeded)},
	{"canceled", context.Canceled},
	{"wrapped-canceled", fmt.Errorf("transport: request aborted: %w", context.Canceled)},
	{"os-deadline-exceeded", os.ErrDeadlineExceeded},
	{"net-timeout", &net.OpError{Op: "dial", Net: "tcp", Err: netTimeout{}}},
	{"net-read-deadline", &net.OpError{Op: "read", Net: "tcp", Err: os.ErrDeadlineExceeded}},
}

// caseRT tags the request with its case and cancels the context where the script says so.
type caseRT struct{ base http.RoundTripper }

func (t *caseRT) RoundTrip(req *http.Request) (*http.Response, error) {
	c, _ := req.Context().Value(caseKey{}).(*wcase)
	if c == nil {
		return t.base.RoundTrip(req)
	}
	c.mu.Lock()
	k := c.clientIdx
	c.clientIdx++
	c.mu.Unlock()
	ck := 0
	if k < len(c.script) {
		ck = c.script[k].cancel
	}
	if ck == 1 {
		c.cancel()
	}
	req2 := req.Clone(req.Context())
	req2.Header.Set("X-Verif-Case", c.key)
	resp, err := t.base.RoundTrip(req2)
	if k < len(c.script) && c.script[k].kind == 3 {
		if err == nil {
			io.Copy(io.Discard, resp.Body)
			resp.Body.Close()
		}
		resp, err = nil, transportFaults[c.script[k].fault].err
	}
	if ck == 2 {
		if err == nil {
			b, _ := io.ReadAll(resp.Body)
			resp.Body.Close()
			resp.Body = io.NopCloser(bytes.NewReader(b))
		}
		c.cancel()
	}
	return resp, err
}

// waitHook is the API logger of a case that cancels during the backoff wait: Write logs right before its select.
type waitHook struct{ c *wcase }

func (h waitHook) Enabled(context.Context, slog.Level) bool { return true }
func (h waitHook) Handle(_ context.Context, r slog.Record) error {
	if !strings.HasPrefix(r.Message, "failed to send remote write request") {
		return nil
	}
	c := h.c
	c.mu.Lock()
	k := c.logIdx
	c.logIdx++
	c.mu.Unlock()
	if k < len(c.script) && c.script[k].cancel == 3 {
		c.cancel()
	}
	return nil
}
func (h waitHook) WithAttrs([]slog.Attr) slog.Handler { return h }
func (h waitHook) WithGroup(string) slog.Handler      { return h }

func classify(err error) (int, int) {
	if err == nil {
		return 0, 0
	}
	if err == context.Canceled || err == context.DeadlineExceeded { // the caller's context error, returned as is
		return 8, 0
	}
	msg := err.Error()
	switch {
	case strings.HasPrefix(msg, "unknown type for remote write protobuf message"):
		return 1, 0
	case strings.HasPrefix(msg, "unknown message type"):
		return 2, 0
	case strings.HasPrefix(msg, "encoding request"):
		return 3, 0
	case strings.HasPrefix(msg, "server returned HTTP status "):
		rest := strings.TrimPrefix(msg, "server returned HTTP status ")
		if len(rest) >= 3 {
			if n, e := strconv.Atoi(rest[:3]); e == nil {
				return 6, n
			}
		}
		return 10, 0
	case strings.HasPrefix(msg, "reading response body"):
		return 5, 0
	case strings.HasPrefix(msg, "sent v2 request"):
		return 7, 0
	case strings.HasPrefix(msg, "Post \""):
		return 4, 0
	}
	return 10, 0
}

// ---------- generators for the write stream ----------

var statHeaderVals = []string{"", "0", "1", "2", "7", "+3", "-2", "007", "abc", "1_0", "0x10", "1.5", "99999999999999999999", "4611686018427387"}

func genResp(r *emit.Rng, status int, a *attemptSpec) {
	a.kind = 2
	a.status = status
	switch r.Intn(5) {
	case 0: // no statistics at all
	case 1:
		a.samples = statHeaderVals[r.Intn(len(statHeaderVals))]
		a.hist = statHeaderVals[r.Intn(len(statHeaderVals))]
		a.exem = statHeaderVals[r.Intn(len(statHeaderVals))]
	case 2:
		a.samples = "0"
	case 3:
		a.samples, a.hist, a.exem = strconv.Itoa(r.Intn(5)), strconv.Itoa(r.Intn(3)), strconv.Itoa(r.Intn(2))
	default:
		a.hist = strconv.Itoa(1 + r.Intn(9))
	}
	switch r.Intn(8) {
	case 0:
		a.retryAfter = "0"
	case 1:
		a.retryAfter = "-1"
	case 2:
		a.retryAfter = []string{"abc", "1.5", "+0", "00", "1e3", "0x1"}[r.Intn(6)]
	case 3:
		a.retryAfter = "Mon, 02 Jan 2006 15:04:05 GMT" // long past: negative duration
		d := int64(-1)
		a.raDate = &d
	}
}

var okStatus = []int{200, 200, 201, 204, 299}
var termStatus = []int{300, 304, 399, 400, 401, 404, 428, 430, 499, 600, 999}
var retryStatus = []int{500, 500, 502, 503, 503, 599}

func genScript(r *emit.Rng, n int, tags *[]string) []attemptSpec {
	var s []attemptSpec
	for i := 0; i < n; i++ {
		var a attemptSpec
		switch x := r.Intn(12) - 2; {
		case x < 0:
			a.kind = 3
			a.fault = r.Intn(len(transportFaults))
			*tags = append(*tags, "outcome:client-fault-"+transportFaults[a.fault].name)
		case x < 2:
			a.kind = 0
			*tags = append(*tags, "outcome:drop")
		case x < 6:
			genResp(r, retryStatus[r.Intn(len(retryStatus))], &a)
			*tags = append(*tags, "outcome:5xx")
		case x < 8:
			genResp(r, 429, &a)
			*tags = append(*tags, "outcome:429")
		case x < 9:
			genResp(r, termStatus[r.Intn(len(termStatus))], &a)
			*tags = append(*tags, "outcome:terminal-status")
		default:
			genResp(r, okStatus[r.Intn(len(okStatus))], &a)
			*tags = append(*tags, "outcome:2xx")
		}
		s = append(s, a)
	}
	// final entry always ends the call
	var a attemptSpec
	switch x := r.Intn(10); {
	case x < 6:
		genResp(r, okStatus[r.Intn(len(okStatus))], &a)
		*tags = append(*tags, "outcome:2xx")
	case x < 9:
		genResp(r, termStatus[r.Intn(len(termStatus))], &a)
		*tags = append(*tags, "outcome:terminal-status")
	default:
		a.kind = 1
		*tags = append(*tags, "outcome:body-error")
	}
	return append(s, a)
}

var padSizes = []int{0, 1, 7, 100, 1000, 14010, 14016, 14017, 14018, 16350, 16370, 16376, 16380, 16384, 16385, 16400, 20000, 40000}

func genWriteCase(r *emit.Rng, idx int) *wcase {
	c := &wcase{key: "w" + strconv.Itoa(idx)}
	c.min = []time.Duration{0, time.Microsecond, 50 * time.Microsecond}[r.Intn(3)]
	c.max = []time.Duration{0, time.Microsecond, 100 * time.Microsecond, time.Millisecond}[r.Intn(4)]
	c.maxRetr = []int{-1, 0, 0, 1, 1, 2, 3, 5}[r.Intn(8)]
	c.retry429 = !r.Chance(1, 3)
	c.ty = []string{v1Name, v2Name, v2Name}[r.Intn(3)]
	c.kind = []int{0, 0, 1, 2, 2}[r.Intn(5)]
	switch r.Intn(40) {
	case 0:
		c.ty = []string{"", "prometheus.WriteRequest2", "io.prometheus.write.v2.request", "bogus"}[r.Intn(4)]
		c.tags = append(c.tags, "pre:invalid-type")
	case 1:
		c.kind = 3
		c.tags = append(c.tags, "pre:not-proto")
	case 2:
		c.kind = 4
		c.tags = append(c.tags, "pre:marshal-error")
	}
	size := padSizes[r.Intn(len(padSizes))]
	if r.Chance(1, 2) {
		size = r.Intn(300)
	}
	if size > 16000 {
		c.tags = append(c.tags, "size:above-pool-capacity")
	} else if size > 14000 {
		c.tags = append(c.tags, "size:compressed-bound-crosses-capacity")
	} else {
		c.tags = append(c.tags, "size:small")
	}
	c.msg, c.expected = mkMsg(c.kind, uint64(idx), padBytes(r, size, r.Chance(1, 3)))
	c.tags = append(c.tags, "path:"+[]string{"vtproto", "gogo", "generic", "not-proto", "marshal-error"}[c.kind], "type:"+map[string]string{v1Name: "v1", v2Name: "v2"}[c.ty])
	n := []int{0, 0, 1, 1, 2, 3, 4, 6}[r.Intn(8)]
	c.noPath = r.Chance(1, 4)
	c.nopLogger = r.Chance(1, 3)
	if r.Chance(1, 10) {
		// WithAPIBackoff omitted: the default backoff (1 s .. 10 s, 10 retries) applies, so the script must not wait:
		// one answer that ends the call (a 429 does when retry-on-429 is disabled)
		c.noBackoff = true
		c.min, c.max, c.maxRetr = time.Second, 10*time.Second, 10
		n = 0
		c.tags = append(c.tags, "opts:default-backoff")
	}
	c.script = genScript(r, n, &c.tags)
	if !c.noBackoff && r.Chance(1, 14) {
		// long retry sequences: up to and beyond 10 retries (the default MaxRetries), no waiting; every request's
		// Retry-Attempt header is checked (absent on the first, = k on retry k)
		c.min, c.max = 0, []time.Duration{0, time.Microsecond}[r.Intn(2)]
		c.maxRetr = []int{10, 10, 11, 12, 15, 20, 0}[r.Intn(7)]
		k := 9 + r.Intn(9)
		var long []attemptSpec
		for i := 0; i < k; i++ {
			var a attemptSpec
			switch x := r.Intn(6); {
			case x == 0:
				a.kind = 0
			case x == 1:
				a.kind, a.fault = 3, r.Intn(len(transportFaults))
			case x == 2 && c.retry429:
				genResp(r, 429, &a)
			default:
				genResp(r, retryStatus[r.Intn(len(retryStatus))], &a)
			}
			a.retryAfter, a.raDate = "", nil
			long = append(long, a)
		}
		c.script = append(long, c.script[len(c.script)-1])
		c.tags = append(c.tags, "retries:long-sequence")
	}
	if c.noBackoff && !c.retry429 && r.Chance(1, 2) {
		genResp(r, 429, &c.script[0])
		c.tags = append(c.tags, "outcome:429")
	}
	c.order = orderFor(c)
	// cancellation
	switch r.Intn(12) {
	case 0:
		c.script[r.Intn(len(c.script))].cancel = 1
		c.tags = append(c.tags, "cancel:before-send")
	case 1:
		i := r.Intn(len(c.script))
		if c.script[i].kind == 0 || c.script[i].kind == 2 {
			c.script[i].cancel = 2
			c.tags = append(c.tags, "cancel:after-response")
		}
	case 2:
		// in the wait: make the wait of that attempt an hour long through Retry-After
		i := r.Intn(len(c.script))
		a := &c.script[i]
		if a.kind == 2 && (a.status/100 == 5 || a.status == 429) {
			a.retryAfter, a.raDate, a.cancel = "3600", nil, 3
			c.tags = append(c.tags, "cancel:in-wait")
			// the context may carry a deadline that is (much) shorter than this wait
			if c.dl = r.Intn(3); c.dl > 0 {
				c.tags = append(c.tags, "deadline:shorter-than-retry-after")
			}
		}
	default:
		if r.Chance(1, 5) {
			c.dl = 3
			c.tags = append(c.tags, "deadline:generous")
		}
	}
	if c.noBackoff {
		// no wait may happen under the default backoff
		for i := range c.script {
			c.script[i].cancel = 0
		}
	}
	pos := map[string]int{}
	for i, o := range optionNames(c, false) {
		pos[o] = i
	}
	if !c.retry429 && !c.noBackoff {
		if pos["no-retry-429"] < pos["backoff"] {
			c.tags = append(c.tags, "opts:no-retry-before-backoff")
		} else {
			c.tags = append(c.tags, "opts:backoff-before-no-retry")
		}
	}
	return c
}

// orderFor: the option order is a function of the configuration (cases of equal configuration share one API value,
// so that its pooled buffers are reused) and of nothing else; over the ~200 configurations all orders occur.
func orderFor(c *wcase) uint64 {
	h := uint64(c.min)*1000003 ^ uint64(c.max)*10007 ^ uint64(c.maxRetr+7)*101
	if c.retry429 {
		h ^= 0x9e3779b9
	}
	if c.noBackoff {
		h ^= 0x51ed27
	}
	if c.noPath {
		h ^= 0x7f4a7c15
	}
	if c.nopLogger {
		h ^= 0x2545f491
	}
	return h
}

// optionNames lists the options of the case's API value in the order they are passed to NewAPI.
func optionNames(c *wcase, hook bool) []string {
	names := []string{"client"}
	if !c.noBackoff {
		names = append(names, "backoff")
	}
	if !c.retry429 {
		names = append(names, "no-retry-429")
	}
	if !c.noPath {
		names = append(names, "path")
	}
	if hook || c.nopLogger {
		names = append(names, "logger")
	}
	r := emit.NewRng(c.order)
	for i := len(names) - 1; i > 0; i-- {
		j := r.Intn(i + 1)
		names[i], names[j] = names[j], names[i]
	}
	return names
}

type nopHandler struct{}

func (nopHandler) Enabled(context.Context, slog.Level) bool  { return false }
func (nopHandler) Handle(context.Context, slog.Record) error { return nil }
func (n nopHandler) WithAttrs([]slog.Attr) slog.Handler      { return n }
func (n nopHandler) WithGroup(string) slog.Handler           { return n }

func timingCases(base int) []*wcase {
	var out []*wcase
	mk := func(i int, ty string, first attemptSpec) {
		c := &wcase{key: "t" + strconv.Itoa(i), min: time.Microsecond, max: 10 * time.Microsecond, maxRetr: 3, retry429: true,
			ty: ty, kind: 0, timing: true, tags: []string{"timing:retry-after", "path:vtproto", "size:small"}}
		c.msg, c.expected = mkMsg(0, uint64(base+i), []byte("timing"))
		c.script = []attemptSpec{first, {kind: 2, status: 200, samples: "1"}}
		out = append(out, c)
	}
	one := int64(1000000000)
	mk(0, v2Name, attemptSpec{kind: 2, status: 503, retryAfter: "1"})
	mk(1, v1Name, attemptSpec{kind: 2, status: 429, retryAfter: "1"})
	mk(2, v2Name, attemptSpec{kind: 2, status: 500, futureDate: true, raDate: &one})
	mk(3, v2Name, attemptSpec{kind: 2, status: 503, retryAfter: "+1", samples: "2"})
	// the http.Client's own Timeout fires while the server stalls; the caller's context is alive, so Write retries
	tmo := func(i int, ty string, script []attemptSpec) {
		c := &wcase{key: "c" + strconv.Itoa(i), min: time.Microsecond, max: 10 * time.Microsecond, maxRetr: 3, retry429: true,
			ty: ty, kind: 2, cliTmo: true, tags: []string{"outcome:client-timeout", "path:generic", "size:small"}}
		c.msg, c.expected = mkMsg(2, uint64(base+100+i), []byte("client timeout"))
		c.script = script
		out = append(out, c)
	}
	// the context's deadline (30 s) is shorter than the first backoff delay (1 h); the context ends during that wait
	dlc := func(i, dl int, ty string, first attemptSpec) {
		first.cancel = 3
		c := &wcase{key: "d" + strconv.Itoa(i), min: time.Hour, max: time.Hour, maxRetr: 3, retry429: true, dl: dl,
			ty: ty, kind: 1, tags: []string{"deadline:shorter-than-backoff", "cancel:in-wait", "path:gogo", "size:small"}}
		c.msg, c.expected = mkMsg(1, uint64(base+200+i), []byte("deadline"))
		c.script = []attemptSpec{first, {kind: 2, status: 200, samples: "1"}}
		out = append(out, c)
	}
	dlc(0, 1, v1Name, attemptSpec{kind: 2, status: 503})
	dlc(1, 2, v2Name, attemptSpec{kind: 2, status: 500, samples: "3"})
	dlc(2, 1, v2Name, attemptSpec{kind: 0})
	dlc(3, 2, v1Name, attemptSpec{kind: 3, fault: 0})
	dlc(4, 1, v2Name, attemptSpec{kind: 2, status: 429, retryAfter: "5"})
	tmo(0, v1Name, []attemptSpec{{kind: 4}, {kind: 2, status: 200}})
	tmo(1, v2Name, []attemptSpec{{kind: 2, status: 503, samples: "2"}, {kind: 4}, {kind: 2, status: 204, samples: "1"}})
	tmo(2, v2Name, []attemptSpec{{kind: 4}, {kind: 4}, {kind: 2, status: 400}})
	return out
}

type apiKey struct {
	min, max                               time.Duration
	maxRetr                                int
	retry429, noBackoff, noPath, nopLogger bool
}

func newAPI(url string, c *wcase, client *http.Client, hook bool) *remote.API {
	var opts []remote.APIOption
	for _, n := range optionNames(c, hook) {
		switch n {
		case "client":
			opts = append(opts, remote.WithAPIHTTPClient(client))
		case "backoff":
			opts = append(opts, remote.VerifWithBackoff(c.min, c.max, c.maxRetr))
		case "no-retry-429":
			opts = append(opts, remote.WithAPINoRetryOnRateLimit())
		case "path":
			opts = append(opts, remote.WithAPIPath("/w"))
		case "logger":
			if hook {
				opts = append(opts, remote.WithAPILogger(slog.New(waitHook{c})))
			} else {
				opts = append(opts, remote.WithAPILogger(slog.New(nopHandler{})))
			}
		}
	}
	api, err := remote.NewAPI(url, opts...)
	if err != nil {
		panic(err)
	}
	return api
}

func optS(s *string) string {
	if s == nil {
		return emit.None()
	}
	return emit.Some(emit.S(*s))
}

func (c *wcase) term() string {
	var sc []string
	for _, a := range c.script {
		var o string
		switch a.kind {
		case 0, 3, 4:
			o = emit.C(0)
		case 1:
			o = emit.C(1)
		default:
			rd := emit.None()
			if a.raDate != nil {
				rd = emit.Some(emit.Z(*a.raDate))
			}
			o = emit.C(2, emit.I(a.status), emit.S(a.samples), emit.S(a.hist), emit.S(a.exem), emit.S(a.retryAfter), rd)
		}
		sc = append(sc, emit.Tup(o, emit.I(a.cancel)))
	}
	var rq []string
	for _, q := range c.reqs {
		rq = append(rq, emit.Tup(emit.S(q.ctype), emit.S(q.cenc), emit.S(q.version), optS(q.retry), emit.B(q.bodyOK)))
	}
	var gaps []string
	if c.timing {
		for i := 1; i < len(c.arrivals); i++ {
			gaps = append(gaps, emit.Z(int64(c.arrivals[i].Sub(c.arrivals[i-1]))))
		}
	}
	code, arg := classify(c.err)
	impl := emit.Tup(emit.L(rq), emit.Tup(emit.I(code), emit.I(arg)),
		emit.Tup(emit.I(c.stats.Samples), emit.I(c.stats.Histograms), emit.I(c.stats.Exemplars)), emit.L(gaps))
	var ol []string
	if !c.noBackoff {
		ol = append(ol, emit.C(0, emit.Z(int64(c.min)), emit.Z(int64(c.max)), emit.I(c.maxRetr)))
	}
	if !c.retry429 {
		ol = append(ol, emit.C(1))
	}
	return emit.C(0, emit.L(ol), emit.S(c.ty), emit.I(c.kind), emit.L(sc), impl)
}

func runWriteStream(c *cli.Ctx, rng *emit.Rng, direct *[]map[string]interface{}) error {
	w := emit.NewWriter(c.Out, "C20", "write")
	srv := &scriptServer{}
	ts := httptest.NewServer(srv)
	defer ts.Close()
	client := &http.Client{Transport: &caseRT{base: &http.Transport{DisableKeepAlives: true}}}
	tmoClient := &http.Client{Transport: &caseRT{base: &http.Transport{DisableKeepAlives: true}}, Timeout: time.Second}

	n := 700 * c.Scale
	cases := timingCases(1 << 40)
	for i := 0; i < n; i++ {
		cases = append(cases, genWriteCase(rng, i))
	}
	var apiMu sync.Mutex
	apis := map[apiKey]*remote.API{}
	jobs := make(chan *wcase)
	var wg sync.WaitGroup
	for g := 0; g < 8; g++ {
		wg.Add(1)
		go func() {
			defer wg.Done()
			for cs := range jobs {
				hook := false
				for _, a := range cs.script {
					if a.cancel == 3 {
						hook = true
					}
				}
				var api *remote.API
				if hook {
					api = newAPI(ts.URL, cs, client, true)
				} else if cs.cliTmo {
					api = newAPI(ts.URL, cs, tmoClient, false)
				} else {
					k := apiKey{cs.min, cs.max, cs.maxRetr, cs.retry429, cs.noBackoff, cs.noPath, cs.nopLogger}
					apiMu.Lock()
					api = apis[k]
					if api == nil {
						api = newAPI(ts.URL, cs, client, false)
						apis[k] = api
					}
					apiMu.Unlock()
				}
				srv.cases.Store(cs.key, cs)
				base := context.WithValue(context.Background(), caseKey{}, cs)
				var ctx context.Context
				var cancel context.CancelFunc
				switch cs.dl {
				case 1, 3:
					ctx, cancel = context.WithDeadline(base, time.Now().Add(30*time.Second))
				case 2:
					var inner context.Context
					inner, cancel = context.WithCancel(base)
					ctx = dlCtx{inner, time.Now().Add(30 * time.Second)}
				default:
					ctx, cancel = context.WithCancel(base)
				}
				cs.cancel = cancel
				done := make(chan struct{})
				go func() {
					defer close(done)
					defer func() {
						if p := recover(); p != nil {
							cs.err = fmt.Errorf("PANIC %v", p)
						}
					}()
					cs.stats, cs.err = api.Write(ctx, remote.WriteMessageType(cs.ty), cs.msg)
				}()
				select {
				case <-done:
				case <-time.After(60 * time.Second):
					cs.err = errors.New("HANG")
					cancel()
					<-done
					cs.err = errors.New("HANG")
				}
				cancel()
				srv.cases.Delete(cs.key)
			}
		}()
	}
	for _, cs := range cases {
		jobs <- cs
	}
	close(jobs)
	wg.Wait()
	for i, cs := range cases {
		wantPath := "/w"
		if cs.noPath {
			wantPath = "/api/v1/write"
		}
		if cs.path != "" && cs.path != wantPath {
			*direct = append(*direct, map[string]interface{}{"index": i, "what": "request path " + cs.path + ", configured " + wantPath})
		}
		if cs.overflow {
			*direct = append(*direct, map[string]interface{}{"index": i, "what": "Write kept sending after the scripted terminal answer"})
		}
		if cs.err != nil && (cs.err.Error() == "HANG" || strings.HasPrefix(cs.err.Error(), "PANIC")) {
			*direct = append(*direct, map[string]interface{}{"index": i, "what": "Write: " + cs.err.Error()})
		}
		tags := append([]string{}, cs.tags...)
		if len(cs.reqs) >= 11 {
			tags = append(tags, "attempts:11+ (Retry-Attempt >= 10)")
		} else {
			tags = append(tags, fmt.Sprintf("attempts:%d", min(len(cs.reqs), 6)))
		}
		w.Add(cs.term(), len(cs.reqs) >= 2, tags...)
	}
	if len(*direct) > 0 {
		w.Extra["direct_failures"] = *direct
	}
	return w.Flush()
}

// ---------- concurrent writers on one API value ----------

type recv struct{ id, attempt, seen int }

type concServer struct {
	mu      sync.Mutex
	byBytes map[string]int
	seen    map[int]int
	recvs   []recv
	corrupt int
}

func (s *concServer) ServeHTTP(w http.ResponseWriter, r *http.Request) {
	body, _ := io.ReadAll(r.Body)
	dec, err := snappy.Decode(nil, body)
	attempt := 0
	if v := r.Header.Get("Retry-Attempt"); v != "" {
		if n, e := strconv.Atoi(v); e == nil {
			attempt = n
		} else {
			attempt = -1
		}
	}
	s.mu.Lock()
	id, ok := -1, false
	if err == nil {
		id, ok = s.byBytes[string(dec)]
	}
	if !ok {
		s.corrupt++
		s.mu.Unlock()
		w.WriteHeader(http.StatusBadRequest)
		return
	}
	seen := s.seen[id]
	s.seen[id] = seen + 1
	s.recvs = append(s.recvs, recv{id, attempt, seen})
	s.mu.Unlock()
	wantCT := "application/x-protobuf"
	if id%2 == 0 {
		wantCT += ";proto=io.prometheus.write.v2.Request"
	}
	if r.Header.Get("Content-Type") != wantCT || r.Header.Get("Content-Encoding") != "snappy" {
		s.mu.Lock()
		s.corrupt++
		s.mu.Unlock()
	}
	if id%3 == 0 && seen == 0 {
		w.Header().Set("X-Prometheus-Remote-Write-Samples-Written", "2")
		w.WriteHeader(http.StatusServiceUnavailable)
		return
	}
	w.Header().Set("X-Prometheus-Remote-Write-Samples-Written", "1")
	w.WriteHeader(http.StatusOK)
}

func runConcStream(c *cli.Ctx, rng *emit.Rng) error {
	w := emit.NewWriter(c.Out, "C20", "conc")
	var direct []map[string]interface{}
	rounds := 3 * c.Scale
	for round := 0; round < rounds; round++ {
		G := 8 + rng.Intn(9)
		W := 50 + rng.Intn(101)
		N := G * W
		msgs := make([]any, N)
		srv := &concServer{byBytes: map[string]int{}, seen: map[int]int{}}
		big := 0
		for id := 0; id < N; id++ {
			size := rng.Intn(200)
			if rng.Chance(1, 12) {
				size = padSizes[5+rng.Intn(len(padSizes)-5)]
				big++
			}
			var b []byte
			msgs[id], b = mkMsg(id%3, uint64(id), padBytes(rng, size, rng.Chance(1, 2)))
			srv.byBytes[string(b)] = id
		}
		// path by id: id%3 -> vt / gogo / generic ; type by id%2 (v2 when even)
		ts := httptest.NewServer(srv)
		tr := &http.Transport{MaxIdleConnsPerHost: 64}
		api, err := remote.NewAPI(ts.URL, remote.WithAPIHTTPClient(&http.Client{Transport: tr}),
			remote.VerifWithBackoff(5*time.Microsecond, 20*time.Microsecond, 3))
		if err != nil {
			return err
		}
		type res struct {
			code, s, h, e int
		}
		results := make([]res, N)
		var wg sync.WaitGroup
		done := make(chan struct{})
		for g := 0; g < G; g++ {
			wg.Add(1)
			go func(g int) {
				defer wg.Done()
				for i := 0; i < W; i++ {
					id := g*W + i
					ty := remote.WriteV1MessageType
					if id%2 == 0 {
						ty = remote.WriteV2MessageType
					}
					st, err := api.Write(context.Background(), ty, msgs[id])
					code, _ := classify(err)
					results[id] = res{code, st.Samples, st.Histograms, st.Exemplars}
				}
			}(g)
		}
		go func() { wg.Wait(); close(done) }()
		select {
		case <-done:
		case <-time.After(120 * time.Second):
			direct = append(direct, map[string]interface{}{"index": round, "what": "concurrent writers did not finish within 120 s"})
		}
		ts.Close()
		tr.CloseIdleConnections()
		srv.mu.Lock()
		sort.Slice(srv.recvs, func(i, j int) bool {
			a, b := srv.recvs[i], srv.recvs[j]
			if a.id != b.id {
				return a.id < b.id
			}
			return a.seen < b.seen
		})
		var rs []string
		for _, x := range srv.recvs {
			rs = append(rs, emit.Tup(emit.I(x.id), emit.I(x.attempt), emit.I(x.seen)))
		}
		var out []string
		for id, x := range results {
			out = append(out, emit.Tup(emit.I(id), emit.I(x.code), emit.I(x.s), emit.I(x.h), emit.I(x.e)))
		}
		w.Add(emit.C(1, emit.I(N), emit.L(rs), emit.L(out), emit.I(srv.corrupt)), true,
			fmt.Sprintf("writers:%d", G), "conc:round")
		w.Tag("conc:writes", N)
		w.Tag("conc:messages-above-14000-bytes", big)
		srv.mu.Unlock()
	}
	if len(direct) > 0 {
		w.Extra["direct_failures"] = direct
	}
	return w.Flush()
}

// ---------- handler ----------

type ctParam struct{ ows1, ows2, name, value string }
type ctAst struct {
	lead, media string
	params      []ctParam
	trail       string
}

func (a *ctAst) render() string {
	s := a.lead + a.media
	for _, p := range a.params {
		s += p.ows1 + ";" + p.ows2 + p.name + "=" + p.value
	}
	return s + a.trail
}
func (a *ctAst) term() string {
	var ps []string
	for _, p := range a.params {
		ps = append(ps, emit.Tup(emit.S(p.ows1), emit.S(p.ows2), emit.S(p.name), emit.S(p.value)))
	}
	return emit.Tup(emit.S(a.lead), emit.S(a.media), emit.L(ps), emit.S(a.trail))
}

var owsVals = []string{"", "", "", " ", " ", "\t", "  ", " \t "}

func genAst(r *emit.Rng, tags *[]string) *ctAst {
	a := &ctAst{lead: owsVals[r.Intn(len(owsVals))], trail: owsVals[r.Intn(len(owsVals))], media: "application/x-protobuf"}
	if r.Chance(1, 6) {
		a.media = []string{"application/json", "text/plain", "application/x-protobuf2", "Application/X-Protobuf", "application/x-protobu", "x"}[r.Intn(6)]
		*tags = append(*tags, "ctype:other-media")
	}
	n := []int{0, 1, 1, 1, 2, 2, 3}[r.Intn(7)]
	names := []string{"proto", "proto", "proto", "charset", "q", "Proto", "proto2", "x"}
	values := []string{v1Name, v2Name, v2Name, "bogus", "utf-8", "io.prometheus.write.v2.request", v2Name + "x", "1"}
	ws := false
	for i := 0; i < n; i++ {
		p := ctParam{owsVals[r.Intn(len(owsVals))], owsVals[r.Intn(len(owsVals))], names[r.Intn(len(names))], values[r.Intn(len(values))]}
		if p.ows1 != "" || p.ows2 != "" {
			ws = true
		}
		a.params = append(a.params, p)
	}
	*tags = append(*tags, fmt.Sprintf("ctype:params=%d", n))
	if ws {
		*tags = append(*tags, "ctype:optional-whitespace")
	}
	return a
}

var malformedCT = []string{
	"application/x-protobuf;", "application/x-protobuf;;proto=io.prometheus.write.v2.Request", "application/x-protobuf; ",
	"application/x-protobuf;proto", "application/x-protobuf;proto=a=b", "application/x-protobuf;proto==", "application/x-protobuf;=proto",
	"application/x-protobuf;proto=\"io.prometheus.write.v2.Request\"", "application/x-protobuf; proto = io.prometheus.write.v2.Request",
	"application/x-protobuf;x=y=z;proto=io.prometheus.write.v2.Request", "application/x-protobuf;proto=", ";proto=prometheus.WriteRequest",
	" ", ";", "=", "application/x-protobuf\n;proto=prometheus.WriteRequest", "application/x-protobuf;\vproto\f=\rprometheus.WriteRequest\n",
	"application/x-protobuf ;proto=io.prometheus.write.v2.Request;proto=bogus", "application/x-protobuf;proto=bogus;proto=io.prometheus.write.v2.Request",
}

func genMalformedCT(r *emit.Rng) string {
	if r.Chance(1, 2) {
		return malformedCT[r.Intn(len(malformedCT))]
	}
	alpha := []string{";", "=", " ", "\t", "application/x-protobuf", "proto", v1Name, v2Name, "a", "/", "\"", ",", "x"}
	n := r.Intn(8)
	s := ""
	for i := 0; i < n; i++ {
		s += alpha[r.Intn(len(alpha))]
	}
	return s
}

type storeBeh struct {
	nilResp         bool
	status, s, h, e int
	err             bool
}

type recStore struct {
	beh    storeBeh
	called bool
	ty     string
	body   []byte
}

func (st *recStore) Store(_ context.Context, t remote.WriteMessageType, r *http.Request) (*remote.WriteResponse, error) {
	st.called = true
	st.ty = string(t)
	st.body, _ = io.ReadAll(r.Body)
	var err error
	if st.beh.err {
		err = errors.New("store failed")
	}
	if st.beh.nilResp {
		return nil, err
	}
	w := remote.NewWriteResponse()
	w.SetStatusCode(st.beh.status)
	w.Add(remote.WriteResponseStats{Samples: st.beh.s, Histograms: st.beh.h, Exemplars: st.beh.e})
	return w, err
}

func hdrOpt(h http.Header, k string) (string, bool) {
	v, ok := h[k]
	if !ok || len(v) == 0 {
		return "", false
	}
	return strings.Join(v, ","), true
}

type hcase struct {
	accepted    []string
	method      string
	ctype, cenc *string
	body        []byte
	bodyFault   int // 0 none; reading the request body fails: 1 at once, 2 after the bytes of body, 3 io.ErrUnexpectedEOF after the bytes
	beh         storeBeh
	ast         *ctAst
}

// failingBody yields the given bytes and then an error instead of io.EOF.
type failingBody struct {
	data []byte
	err  error
}

func (f *failingBody) Read(p []byte) (int, error) {
	if len(f.data) == 0 {
		return 0, f.err
	}
	n := copy(p, f.data)
	f.data = f.data[n:]
	return n, nil
}
func (f *failingBody) Close() error { return nil }

func runHandlerCase(hc *hcase) string {
	var acc remote.MessageTypes
	var accT []string
	for _, a := range hc.accepted {
		acc = append(acc, remote.WriteMessageType(a))
		if a == v1Name {
			accT = append(accT, "1")
		} else {
			accT = append(accT, "2")
		}
	}
	st := &recStore{beh: hc.beh}
	h := remote.NewHandler(st, acc)
	req := httptest.NewRequest(hc.method, "/api/v1/write", bytes.NewReader(hc.body))
	switch hc.bodyFault {
	case 1:
		req.Body = &failingBody{nil, errors.New("connection reset by peer")}
	case 2:
		req.Body = &failingBody{append([]byte{}, hc.body...), errors.New("read tcp: i/o timeout")}
	case 3:
		req.Body = &failingBody{append([]byte{}, hc.body...), io.ErrUnexpectedEOF}
	}
	ct, ce := "", ""
	if hc.ctype != nil {
		req.Header.Set("Content-Type", *hc.ctype)
		ct = *hc.ctype
	}
	if hc.cenc != nil {
		req.Header.Set("Content-Encoding", *hc.cenc)
		ce = *hc.cenc
	}
	rec := httptest.NewRecorder()
	panicked := false
	func() {
		defer func() {
			if p := recover(); p != nil {
				panicked = true
			}
		}()
		h.ServeHTTP(rec, req)
	}()
	call := emit.None()
	if st.called {
		call = emit.Some(emit.Tup(emit.S(st.ty), emit.S(string(st.body))))
	}
	var impl string
	if panicked {
		impl = emit.C(0, call)
	} else {
		written := emit.None()
		s, ok1 := hdrOpt(rec.Header(), "X-Prometheus-Remote-Write-Samples-Written")
		hh, ok2 := hdrOpt(rec.Header(), "X-Prometheus-Remote-Write-Histograms-Written")
		e, ok3 := hdrOpt(rec.Header(), "X-Prometheus-Remote-Write-Exemplars-Written")
		if ok1 || ok2 || ok3 {
			written = emit.Some(emit.Tup(emit.S(s), emit.S(hh), emit.S(e)))
		}
		impl = emit.C(1, emit.I(rec.Code), written, call)
	}
	decoded := emit.None()
	if d, err := snappy.Decode(nil, hc.body); err == nil {
		decoded = emit.Some(emit.S(string(d)))
	}
	ast := emit.None()
	if hc.ast != nil {
		ast = emit.Some(hc.ast.term())
	}
	b := hc.beh
	sb := emit.Tup(emit.B(b.nilResp), emit.I(b.status), emit.I(b.s), emit.I(b.h), emit.I(b.e), emit.B(b.err))
	return emit.C(2, emit.L(accT), emit.S(hc.method), emit.S(ct), emit.S(ce), decoded, emit.B(hc.bodyFault != 0), sb, ast, impl)
}

func genStoreBeh(r *emit.Rng) storeBeh {
	b := storeBeh{status: []int{0, 204, 200, 400, 409, 422, 429, 500, 503, 599}[r.Intn(10)], err: r.Chance(1, 2)}
	if r.Chance(2, 3) {
		b.s, b.h, b.e = r.Intn(1000), r.Intn(50), r.Intn(20)
	}
	if r.Chance(1, 20) {
		b.s = -3
	}
	if r.Chance(1, 8) { // the store returns no response at all: (nil, err) or (nil, nil)
		b.nilResp = true
	}
	return b
}

func genBody(r *emit.Rng, tags *[]string) []byte {
	payload := padBytes(r, r.Intn(40), r.Chance(1, 2))
	switch x := r.Intn(10); {
	case x < 7:
		*tags = append(*tags, "body:snappy")
		return snappy.Encode(nil, payload)
	case x < 8:
		*tags = append(*tags, "body:empty")
		return nil
	case x < 9:
		*tags = append(*tags, "body:uncompressed")
		return payload
	default:
		*tags = append(*tags, "body:truncated")
		b := snappy.Encode(nil, append(payload, "some more bytes to truncate"...))
		return b[:len(b)-3]
	}
}

func sp(s string) *string { return &s }

func runHandlerStreams(c *cli.Ctx, rng *emit.Rng) error {
	w := emit.NewWriter(c.Out, "C20", "handler")
	accs := [][]string{{v1Name}, {v2Name}, {v1Name, v2Name}, {v2Name, v1Name}, {}}
	methods := []string{"POST", "POST", "POST", "POST", "GET", "PUT", "HEAD", "DELETE", "post", "PATCH"}
	cencs := []*string{nil, sp("snappy"), sp("snappy"), sp("snappy"), sp(""), sp("gzip"), sp("Snappy"), sp("snappy "), sp("identity"), sp("snappy, gzip")}
	// full cross product of method class x encoding x content-type class, then random cases
	add := func(hc *hcase, tags []string) {
		t := runHandlerCase(hc)
		faultless := hc.method == "POST" && (hc.cenc == nil || *hc.cenc == "snappy" || *hc.cenc == "")
		w.Add(t, faultless, tags...)
	}
	for _, m := range []string{"POST", "GET", "post"} {
		for _, ce := range cencs {
			for k := 0; k < 6; k++ {
				var tags []string
				hc := &hcase{accepted: accs[rng.Intn(len(accs))], method: m, cenc: ce, beh: genStoreBeh(rng)}
				if k > 0 {
					hc.ast = genAst(rng, &tags)
					hc.ctype = sp(hc.ast.render())
				} else {
					tags = append(tags, "ctype:absent")
				}
				hc.body = genBody(rng, &tags)
				tags = append(tags, "method:"+m, "grid")
				add(hc, tags)
			}
		}
	}
	// the request body cannot be read: every accepted-type set x message type x kind of failure (400, store not called)
	for _, acc := range accs {
		for _, ct := range []*string{nil, sp("application/x-protobuf"), sp("application/x-protobuf;proto=" + v1Name), sp("application/x-protobuf;proto=" + v2Name)} {
			for f := 1; f <= 3; f++ {
				for _, ce := range []*string{nil, sp("snappy")} {
					hc := &hcase{accepted: acc, method: "POST", ctype: ct, cenc: ce, beh: genStoreBeh(rng), bodyFault: f,
						body: snappy.Encode(nil, padBytes(rng, 1+rng.Intn(40), false))}
					add(hc, []string{"grid", fmt.Sprintf("body:read-fails-%d", f)})
				}
			}
		}
	}
	for i := 0; i < 600*c.Scale; i++ {
		var tags []string
		hc := &hcase{accepted: accs[rng.Intn(len(accs))], method: methods[rng.Intn(len(methods))], cenc: cencs[rng.Intn(len(cencs))], beh: genStoreBeh(rng)}
		if rng.Chance(1, 12) {
			hc.bodyFault = 1 + rng.Intn(3)
			tags = append(tags, fmt.Sprintf("body:read-fails-%d", hc.bodyFault))
		}
		if rng.Chance(1, 10) {
			tags = append(tags, "ctype:absent")
		} else {
			hc.ast = genAst(rng, &tags)
			hc.ctype = sp(hc.ast.render())
		}
		hc.body = genBody(rng, &tags)
		tags = append(tags, "method:"+hc.method)
		if hc.cenc == nil {
			tags = append(tags, "cenc:absent")
		} else {
			tags = append(tags, "cenc:"+*hc.cenc)
		}
		switch {
		case hc.beh.nilResp && hc.beh.err:
			tags = append(tags, "store:(nil,err)")
		case hc.beh.nilResp:
			tags = append(tags, "store:(nil,nil)")
		case hc.beh.err:
			tags = append(tags, fmt.Sprintf("store:error-status-%d", hc.beh.status))
		default:
			tags = append(tags, "store:ok")
		}
		add(hc, tags)
	}
	if err := w.Flush(); err != nil {
		return err
	}

	// malformed: content types outside the grammar, random encodings and bodies
	w = emit.NewWriter(c.Out, "C20", "handler-malformed")
	for i := 0; i < 300*c.Scale; i++ {
		var tags []string
		hc := &hcase{accepted: accs[rng.Intn(len(accs))], method: methods[rng.Intn(len(methods))], cenc: cencs[rng.Intn(len(cencs))], beh: genStoreBeh(rng)}
		hc.ctype = sp(genMalformedCT(rng))
		hc.body = genBody(rng, &tags)
		if rng.Chance(1, 4) {
			hc.body = padBytes(rng, rng.Intn(30), false)
			tags = append(tags, "body:random")
		}
		t := runHandlerCase(hc)
		w.Add(t, hc.method == "POST", append(tags, "ctype:malformed")...)
	}
	if err := w.Flush(); err != nil {
		return err
	}

	// ParseProtoMsg directly
	w = emit.NewWriter(c.Out, "C20", "ctype")
	res := func(s string) string {
		t, err := remote.ParseProtoMsg(s)
		switch {
		case err != nil:
			return "0"
		case t == remote.WriteV1MessageType:
			return "1"
		case t == remote.WriteV2MessageType:
			return "2"
		}
		return "3"
	}
	for i := 0; i < 800*c.Scale; i++ {
		var tags []string
		a := genAst(rng, &tags)
		s := a.render()
		w.Add(emit.C(3, emit.S(s), emit.Some(a.term()), res(s)), len(a.params) > 0, tags...)
	}
	for _, s := range malformedCT {
		w.Add(emit.C(3, emit.S(s), emit.None(), res(s)), true, "ctype:malformed")
	}
	for i := 0; i < 300*c.Scale; i++ {
		s := genMalformedCT(rng)
		w.Add(emit.C(3, emit.S(s), emit.None(), res(s)), true, "ctype:malformed")
	}
	if err := w.Flush(); err != nil {
		return err
	}

	// header value parsers
	w = emit.NewWriter(c.Out, "C20", "headers")
	ras := []string{"", "0", "1", "-1", "+5", "120", "007", " 1", "1 ", "1.5", "1e3", "0x1", "abc", "9223372036", "-9223372036", "1_0", "+", "-", "٣"}
	for _, s := range ras {
		w.Add(emit.C(4, emit.S(s), emit.Z(int64(remote.VerifRetryAfterDuration(s)))), s != "", "retry-after")
	}
	for i := 0; i < 200*c.Scale; i++ {
		s := strconv.Itoa(rng.Intn(100000) - 20000)
		if rng.Chance(1, 4) {
			s = "+" + s
		}
		w.Add(emit.C(4, emit.S(s), emit.Z(int64(remote.VerifRetryAfterDuration(s)))), true, "retry-after")
	}
	vals := append([]string{"9223372036854775807", "9223372036854775808", "-9223372036854775808", "-9223372036854775809", "+", "-", "1 ", " 1"}, statHeaderVals...)
	for i := 0; i < 300*c.Scale; i++ {
		a, b, e := vals[rng.Intn(len(vals))], vals[rng.Intn(len(vals))], vals[rng.Intn(len(vals))]
		if rng.Chance(1, 3) {
			a = ""
		}
		if rng.Chance(1, 3) {
			b = ""
		}
		if rng.Chance(1, 3) {
			e = ""
		}
		h := http.Header{}
		if a != "" {
			h.Set("X-Prometheus-Remote-Write-Samples-Written", a)
		}
		if b != "" {
			h.Set("X-Prometheus-Remote-Write-Histograms-Written", b)
		}
		if e != "" {
			h.Set("X-Prometheus-Remote-Write-Exemplars-Written", e)
		}
		s1, s2, s3, conf, failed := remote.VerifParseWriteResponseStats(h)
		w.Add(emit.C(5, emit.S(a), emit.S(b), emit.S(e), emit.Tup(emit.I(s1), emit.I(s2), emit.I(s3), emit.B(conf), emit.B(failed))),
			a != "" || b != "" || e != "", "stats-headers")
	}
	if err := w.Flush(); err != nil {
		return err
	}

	return nil
}

func runC20(c *cli.Ctx) error {
	rng := emit.NewRng(c.Seed)
	var direct []map[string]interface{}
	if err := runWriteStream(c, rng.Fork(), &direct); err != nil {
		return err
	}
	if err := runConcStream(c, rng.Fork()); err != nil {
		return err
	}
	return runHandlerStreams(c, rng.Fork())
}
