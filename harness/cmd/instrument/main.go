// instrument rewrites copies of the lock-free / locking sources of /repo's working tree so that
// every sync/atomic call, mutex operation, sync.Map operation, sync.Pool operation,
// runtime.Gosched and go statement becomes a schedule point of package vsched (DESIGN 3.3).
// usage: instrument <vsched import path> <out dir> <file>...   (prints "src -> dst" lines)
package main

import (
	"bytes"
	"fmt"
	"go/ast"
	"go/format"
	"go/parser"
	"go/printer"
	"go/token"
	"os"
	"path/filepath"
	"strconv"
	"strings"
)

var atomicFuncs = map[string]bool{"SwapUint64": true, "AddUint64": true, "LoadUint64": true, "StoreUint64": true, "CompareAndSwapUint64": true,
	"AddInt64": true, "LoadInt64": true, "StoreInt64": true, "AddUint32": true, "LoadUint32": true, "StoreUint32": true,
	"AddInt32": true, "LoadInt32": true, "StoreInt32": true, "CompareAndSwapUint32": true}

var typeMap = map[string]string{"sync.Mutex": "Mutex", "sync.RWMutex": "RWMutex", "sync.Map": "Map", "sync.Pool": "Pool"}

func src(fset *token.FileSet, n ast.Node) string {
	var b bytes.Buffer
	printer.Fprint(&b, fset, n)
	return strings.Join(strings.Fields(b.String()), " ")
}

func sel(pkg, name string) *ast.SelectorExpr {
	return &ast.SelectorExpr{X: ast.NewIdent(pkg), Sel: ast.NewIdent(name)}
}

func isSel(e ast.Expr, pkg string) (string, bool) {
	s, ok := e.(*ast.SelectorExpr)
	if !ok {
		return "", false
	}
	id, ok := s.X.(*ast.Ident)
	if !ok || id.Name != pkg {
		return "", false
	}
	return s.Sel.Name, true
}

func main() {
	if len(os.Args) < 4 {
		fmt.Fprintln(os.Stderr, "usage: instrument <vsched import path> <out dir> <file>...")
		os.Exit(2)
	}
	vpath, out := os.Args[1], os.Args[2]
	os.MkdirAll(out, 0o755)
	for _, file := range os.Args[3:] {
		fset := token.NewFileSet()
		f, err := parser.ParseFile(fset, file, nil, parser.ParseComments)
		if err != nil {
			fmt.Fprintln(os.Stderr, "SHAPE: cannot parse", file, err)
			os.Exit(4)
		}
		points := 0
		// types
		ast.Inspect(f, func(n ast.Node) bool {
			rewriteType := func(e *ast.Expr) {
				if s, ok := (*e).(*ast.SelectorExpr); ok {
					if id, ok := s.X.(*ast.Ident); ok {
						if to, ok := typeMap[id.Name+"."+s.Sel.Name]; ok {
							*e = sel("vsched", to)
							points++
						}
					}
				}
			}
			switch x := n.(type) {
			case *ast.Field:
				rewriteType(&x.Type)
			case *ast.ValueSpec:
				if x.Type != nil {
					rewriteType(&x.Type)
				}
			case *ast.CompositeLit:
				if x.Type != nil {
					rewriteType(&x.Type)
				}
			case *ast.ArrayType:
				rewriteType(&x.Elt)
			case *ast.StarExpr:
				rewriteType(&x.X)
			}
			return true
		})
		// calls and go statements
		var rewriteStmts func(list []ast.Stmt)
		rewriteStmts = func(list []ast.Stmt) {
			for i, st := range list {
				if g, ok := st.(*ast.GoStmt); ok {
					body := &ast.BlockStmt{List: []ast.Stmt{&ast.ExprStmt{X: g.Call}}}
					list[i] = &ast.ExprStmt{X: &ast.CallExpr{Fun: sel("vsched", "Go"),
						Args: []ast.Expr{&ast.FuncLit{Type: &ast.FuncType{Params: &ast.FieldList{}}, Body: body}}}}
					points++
				}
			}
		}
		ast.Inspect(f, func(n ast.Node) bool {
			switch x := n.(type) {
			case *ast.BlockStmt:
				rewriteStmts(x.List)
			case *ast.CaseClause:
				rewriteStmts(x.Body)
			case *ast.CommClause:
				rewriteStmts(x.Body)
			case *ast.CallExpr:
				if name, ok := isSel(x.Fun, "atomic"); ok && atomicFuncs[name] && len(x.Args) >= 1 {
					label := strings.TrimPrefix(src(fset, x.Args[0]), "&")
					x.Fun = sel("vsched", name)
					x.Args = append(x.Args, &ast.BasicLit{Kind: token.STRING, Value: strconv.Quote(label)})
					points++
				} else if name, ok := isSel(x.Fun, "runtime"); ok && name == "Gosched" {
					x.Fun = sel("vsched", "Gosched")
					points++
				}
			}
			return true
		})
		// imports: add vsched, drop imports that became unused
		used := map[string]bool{}
		ast.Inspect(f, func(n ast.Node) bool {
			if s, ok := n.(*ast.SelectorExpr); ok {
				if id, ok := s.X.(*ast.Ident); ok && id.Obj == nil {
					used[id.Name] = true
				}
			}
			return true
		})
		for _, d := range f.Decls {
			gd, ok := d.(*ast.GenDecl)
			if !ok || gd.Tok != token.IMPORT {
				continue
			}
			var keep []ast.Spec
			for _, s := range gd.Specs {
				is := s.(*ast.ImportSpec)
				p, _ := strconv.Unquote(is.Path.Value)
				name := filepath.Base(p)
				if is.Name != nil {
					name = is.Name.Name
				}
				if (p == "sync/atomic" || p == "sync" || p == "runtime") && !used[name] {
					continue
				}
				keep = append(keep, s)
			}
			keep = append(keep, &ast.ImportSpec{Path: &ast.BasicLit{Kind: token.STRING, Value: strconv.Quote(vpath)}})
			gd.Specs = keep
			break
		}
		var buf bytes.Buffer
		if err := format.Node(&buf, fset, f); err != nil {
			fmt.Fprintln(os.Stderr, "SHAPE: cannot print", file, err)
			os.Exit(4)
		}
		dst := filepath.Join(out, strings.ReplaceAll(strings.TrimPrefix(file, "/"), "/", "__"))
		if old, err := os.ReadFile(dst); err != nil || !bytes.Equal(old, buf.Bytes()) {
			os.WriteFile(dst, buf.Bytes(), 0o644)
		}
		fmt.Printf("%s -> %s points=%d\n", file, dst, points)
	}
}
