package main

// C09: Gather always returns a valid, consistent, complete-or-reported result.
//
// Every metric handed to a registry is wrapped so that (a) the order in which processMetric sees the
// metrics is known (processMetric calls Desc() first, exactly once per metric: the wrapper logs it) and
// (b) what Write put into the dto.Metric is known.  The model (coq/theories/Model/Gather.v) is run over
// exactly that arrival order, so families and the ordered error kinds can be compared for equality.
//
// case 0: (0 legacy pedantic reg_ids arrivals impl_families impl_errors)   Registry.Gather
// case 1: (1 legacy ((families errors) ...) impl_families impl_errors)      Gatherers.Gather
// emitted := (checked (desc_err name help id ((n v)...) (var...)) write_err dmetric)
// dmetric := (((n v)...) gauge counter summary untyped histogram (ts)? val)
// family  := (name help type (dmetric...))

import (
	"bytes"
	"errors"
	"fmt"
	"io"
	"sort"
	"strings"
	"sync"
	"time"

	"github.com/prometheus/client_golang/prometheus"
	dto "github.com/prometheus/client_model/go"
	"github.com/prometheus/common/expfmt"
	"github.com/prometheus/common/model"
	"google.golang.org/protobuf/proto"

	"verifharness/internal/cli"
	"verifharness/internal/emit"
)

func main() { cli.Main("C09", runC09) }

// ---------- recording ----------

type rec struct {
	uid      int
	checked  bool
	desc     *prometheus.Desc
	writeErr bool
	content  string // dmetric term captured at Write time
	written  bool
}

type recorder struct {
	mu    sync.Mutex
	order []int
	seen  map[int]bool
	recs  map[int]*rec
	next  int
}

func newRecorder() *recorder { return &recorder{seen: map[int]bool{}, recs: map[int]*rec{}} }

func (r *recorder) newRec(checked bool) *rec {
	r.mu.Lock()
	defer r.mu.Unlock()
	r.next++
	x := &rec{uid: r.next, checked: checked}
	r.recs[x.uid] = x
	return x
}

func (r *recorder) sawDesc(x *rec, d *prometheus.Desc) {
	r.mu.Lock()
	defer r.mu.Unlock()
	if !r.seen[x.uid] {
		r.seen[x.uid] = true
		r.order = append(r.order, x.uid)
		x.desc = d
	}
}

var errWrite = errors.New("c09 write failure")
var errInvalidDesc = errors.New("c09 invalid desc")

// advMetric: adversarial custom Metric with arbitrary dto content.
type advMetric struct {
	r        *recorder
	x        *rec
	d        *prometheus.Desc
	writeErr bool
	content  *dto.Metric
}

func (m *advMetric) Desc() *prometheus.Desc { m.r.sawDesc(m.x, m.d); return m.d }
func (m *advMetric) Write(out *dto.Metric) error {
	if m.writeErr {
		m.x.writeErr = true
		return errWrite
	}
	c := proto.Clone(m.content).(*dto.Metric)
	out.Label, out.Gauge, out.Counter, out.Summary, out.Untyped, out.Histogram, out.TimestampMs =
		c.Label, c.Gauge, c.Counter, c.Summary, c.Untyped, c.Histogram, c.TimestampMs
	m.x.content, m.x.written = metricTerm(out), true
	return nil
}

// wrapMetric: a built-in metric, logged.
type wrapMetric struct {
	r     *recorder
	x     *rec
	inner prometheus.Metric
}

func (m *wrapMetric) Desc() *prometheus.Desc { d := m.inner.Desc(); m.r.sawDesc(m.x, d); return d }
func (m *wrapMetric) Write(out *dto.Metric) error {
	err := m.inner.Write(out)
	if err != nil {
		m.x.writeErr = true
		return err
	}
	m.x.content, m.x.written = metricTerm(out), true
	return nil
}

type advCollector struct {
	describe []*prometheus.Desc // empty: unchecked
	metrics  []prometheus.Metric
}

func (c *advCollector) Describe(ch chan<- *prometheus.Desc) {
	for _, d := range c.describe {
		ch <- d
	}
}
func (c *advCollector) Collect(ch chan<- prometheus.Metric) {
	for _, m := range c.metrics {
		ch <- m
	}
}

// wrapCollector exposes a built-in collector with every metric logged.
type wrapCollector struct {
	r     *recorder
	inner prometheus.Collector
}

func (c *wrapCollector) Describe(ch chan<- *prometheus.Desc) { c.inner.Describe(ch) }
func (c *wrapCollector) Collect(ch chan<- prometheus.Metric) {
	tmp := make(chan prometheus.Metric, 64)
	go func() { c.inner.Collect(tmp); close(tmp) }()
	for m := range tmp {
		ch <- &wrapMetric{r: c.r, x: c.r.newRec(true), inner: m}
	}
}

// ---------- projections ----------

func val(m *dto.Metric) int64 {
	switch {
	case m.Gauge != nil:
		return int64(m.Gauge.GetValue())
	case m.Counter != nil:
		return int64(m.Counter.GetValue())
	case m.Summary != nil:
		return int64(m.Summary.GetSampleCount())
	case m.Untyped != nil:
		return int64(m.Untyped.GetValue())
	case m.Histogram != nil:
		return int64(m.Histogram.GetSampleCount())
	}
	return 0
}

func metricTerm(m *dto.Metric) string {
	ls := make([]string, 0, len(m.Label))
	for _, lp := range m.Label {
		ls = append(ls, emit.Pair(emit.S(lp.GetName()), emit.S(lp.GetValue())))
	}
	ts := emit.None()
	if m.TimestampMs != nil {
		ts = emit.Some(emit.Z(*m.TimestampMs))
	}
	return emit.Tup(emit.L(ls), emit.B(m.Gauge != nil), emit.B(m.Counter != nil), emit.B(m.Summary != nil),
		emit.B(m.Untyped != nil), emit.B(m.Histogram != nil), ts, emit.Z(val(m)))
}

const zeroMetric = "(() 0 0 0 0 0 () 0)"

func familyTerm(mf *dto.MetricFamily) string {
	ms := make([]string, 0, len(mf.Metric))
	for _, m := range mf.Metric {
		ms = append(ms, metricTerm(m))
	}
	return emit.Tup(emit.S(mf.GetName()), emit.S(mf.GetHelp()), emit.I(int(mf.GetType())), emit.L(ms))
}

func familiesTerm(mfs []*dto.MetricFamily) string {
	fs := make([]string, 0, len(mfs))
	for _, mf := range mfs {
		fs = append(fs, familyTerm(mf))
	}
	return emit.L(fs)
}

func descTerm(d *prometheus.Desc) string {
	i := prometheus.VerifC09DescInfo(d)
	cs := make([]string, len(i.ConstNames))
	for k := range i.ConstNames {
		cs[k] = emit.Pair(emit.S(i.ConstNames[k]), emit.S(i.ConstValues[k]))
	}
	return emit.Tup(emit.B(i.Err), emit.S(i.Name), emit.S(i.Help), emit.U(i.ID), emit.L(cs), emit.SL(i.Vars))
}

// ---------- error kinds (Model/Gather.v) ----------

func classify(err error) int {
	for strings.HasPrefix(err.Error(), "[from Gatherer #") {
		u := errors.Unwrap(err)
		if u == nil {
			break
		}
		err = u
	}
	s := err.Error()
	has := func(x string) bool { return strings.Contains(s, x) }
	switch {
	case errors.Is(err, errWrite) && strings.HasPrefix(s, "error collecting metric"):
		return 2
	case err == errInvalidDesc || has("is not a valid metric name") || has("is not a valid label name for metric") ||
		has("duplicate label names in constant and variable labels") || has("c09 inner gatherer"):
		if has("c09 inner gatherer") {
			return 80
		}
		return 1
	case strings.HasPrefix(s, "gathered metric family") && has(" has help "):
		return 17
	case strings.HasPrefix(s, "gathered metric family") && has(" has type "):
		return 18
	case strings.HasPrefix(s, "empty metric collected"):
		return 5
	case has(" collides with previously collected "):
		return 6
	case has("has two or more labels with the same name"):
		return 8
	case has("has a label with an invalid name"):
		return 9
	case has("must not have an explicit \"quantile\" label"):
		return 10
	case has("must not have an explicit \"le\" label"):
		return 11
	case has("whose value is not utf8"):
		return 12
	case has("was collected before with the same name and label values"):
		return 13
	case has("with unregistered descriptor"):
		return 14
	case has("are inconsistent with descriptor"):
		return 16
	case has(" should be a ") || has(" should be Untyped"):
		return 4
	case has("} is not a "):
		return 7
	case strings.HasPrefix(s, "collected metric ") && has(" has help "):
		return 3
	}
	return 99
}

func errKinds(err error) []int {
	if err == nil {
		return nil
	}
	var me prometheus.MultiError
	if errors.As(err, &me) {
		out := make([]int, 0, len(me))
		for _, e := range me {
			out = append(out, classify(e))
		}
		return out
	}
	return []int{classify(err)}
}

func kindsTerm(ks []int) string {
	it := make([]string, len(ks))
	for i, k := range ks {
		it[i] = emit.I(k)
	}
	return emit.L(it)
}

// ---------- encode / parse back ----------

func sig(m *dto.Metric, withValue bool) string {
	ls := make([]string, 0, len(m.Label))
	for _, lp := range m.Label {
		ls = append(ls, fmt.Sprintf("%q=%q", lp.GetName(), lp.GetValue()))
	}
	sort.Strings(ls)
	s := strings.Join(ls, ",")
	if withValue {
		if m.TimestampMs != nil {
			s += fmt.Sprintf("@%d", *m.TimestampMs)
		}
		s += fmt.Sprintf("#%d", val(m))
	}
	return s
}

func sigSet(mf *dto.MetricFamily) []string {
	simple := mf.GetType() != dto.MetricType_SUMMARY && mf.GetType() != dto.MetricType_HISTOGRAM
	set := map[string]bool{}
	for _, m := range mf.Metric {
		set[sig(m, simple)] = true
	}
	out := make([]string, 0, len(set))
	for k := range set {
		out = append(out, k)
	}
	sort.Strings(out)
	return out
}

// roundTrip encodes the families in the text and the delimited protobuf format and parses them back.
func roundTrip(mfs []*dto.MetricFamily) string {
	var buf bytes.Buffer
	enc := expfmt.NewEncoder(&buf, expfmt.NewFormat(expfmt.TypeTextPlain).WithEscapingScheme(model.NoEscaping))
	for _, mf := range mfs {
		if err := enc.Encode(mf); err != nil {
			return "text encoding failed: " + err.Error()
		}
	}
	var p expfmt.TextParser
	got, err := p.TextToMetricFamilies(bytes.NewReader(buf.Bytes()))
	if err != nil {
		return "text parse failed: " + err.Error()
	}
	if len(got) != len(mfs) {
		return fmt.Sprintf("text parse: %d families, want %d", len(got), len(mfs))
	}
	for _, mf := range mfs {
		g := got[mf.GetName()]
		if g == nil {
			return "text parse: family missing: " + mf.GetName()
		}
		if g.GetType() != mf.GetType() || g.GetHelp() != mf.GetHelp() {
			return "text parse: type/help differs: " + mf.GetName()
		}
		a, b := sigSet(mf), sigSet(g)
		if strings.Join(a, "|") != strings.Join(b, "|") {
			return fmt.Sprintf("text parse: series differ in %s: %v vs %v", mf.GetName(), a, b)
		}
	}
	buf.Reset()
	penc := expfmt.NewEncoder(&buf, expfmt.NewFormat(expfmt.TypeProtoDelim))
	for _, mf := range mfs {
		if err := penc.Encode(mf); err != nil {
			return "protobuf encoding failed: " + err.Error()
		}
	}
	dec := expfmt.NewDecoder(bytes.NewReader(buf.Bytes()), expfmt.NewFormat(expfmt.TypeProtoDelim))
	for i := 0; ; i++ {
		var mf dto.MetricFamily
		err := dec.Decode(&mf)
		if err == io.EOF {
			if i != len(mfs) {
				return fmt.Sprintf("protobuf: %d families decoded, want %d", i, len(mfs))
			}
			break
		}
		if err != nil {
			return "protobuf decode failed: " + err.Error()
		}
		if i >= len(mfs) || !proto.Equal(&mf, mfs[i]) {
			return fmt.Sprintf("protobuf: family %d differs after decoding", i)
		}
	}
	return ""
}

// ---------- generators ----------

var validUTF8 = []string{"1", "2", "", "v", "é", "€", "\U0001D11E", "\xc2\x80", "\xdf\xbf", "\xe0\xa0\x80", "\xed\x9f\xbf", "\xee\x80\x80",
	"\xef\xbf\xbf", "\xf0\x90\x80\x80", "\xf4\x8f\xbf\xbf", "a\"b\\c\nd", "\x7f"}
var invalidUTF8 = []string{"\xff", "a\xffb", "\x80", "\xc0\x80", "\xc1\xbf", "\xc2", "\xe0\x9f\xbf", "\xed\xa0\x80", "\xf0\x8f\xbf\xbf",
	"\xf4\x90\x80\x80", "\xf5\x80\x80\x80", "\xe2\x82", "\xf0\x9d\x84", "\xc2\x7f", "\xe1\x80\xc0"}
var badLabelNames = []string{"", "__x", "__", "\xff", "a\xffb", "\xc0\x80"}
var legacyOnlyBad = []string{"0a", "a-b", "a b", "é", "a.b"} // valid under UTF8Validation, invalid under LegacyValidation

type descSpec struct {
	d    *prometheus.Desc
	name string
	cs   map[string]string
	vars []string
	bad  bool
}

type gen struct {
	r        *emit.Rng
	legacy   bool
	pedantic bool
	heavy    bool
	clean    bool // no injected defect in this case
	typeOf   map[string]int
}

func (g *gen) pick(ss []string) string { return ss[g.r.Intn(len(ss))] }

func (g *gen) namePool() []string {
	bases := []string{"m", "req", "x_y", "a:b", "m_count"}
	if !g.legacy {
		bases = append(bases, "é", "m.n")
	}
	b := g.pick(bases)
	pool := []string{b, b, b + "_count", b + "_sum", b + "_bucket", "n", "n_total", b + "_count_sum"}
	return pool
}

func (g *gen) newDesc(pool []string) *descSpec {
	ds := &descSpec{name: g.pick(pool), cs: map[string]string{}}
	help := "h"
	if g.r.Chance(1, 6) {
		help = g.pick([]string{"h2", "", "h\n\\x", "é"})
	}
	nc := g.r.Intn(3)
	cpool := []string{"c1", "c2", "zc"}
	if g.r.Chance(1, 8) {
		cpool = append(cpool, "le", "quantile", "a")
	}
	for i := 0; i < nc; i++ {
		ds.cs[g.pick(cpool)] = g.pick([]string{"1", "2", "é"})
	}
	vpool := []string{"a", "b", "z"}
	nv := g.r.Intn(3)
	seen := map[string]bool{}
	for i := 0; i < nv; i++ {
		v := g.pick(vpool)
		if !seen[v] || g.r.Chance(1, 20) {
			ds.vars = append(ds.vars, v)
			seen[v] = true
		}
	}
	k := g.r.Intn(24)
	if g.clean {
		k, help = 23, "h"
	}
	switch k {
	case 0:
		ds.d, ds.bad = prometheus.NewInvalidDesc(errInvalidDesc), true
		return ds
	case 1:
		ds.name = g.pick([]string{"", "a\xffb", "\xff"})
	case 2:
		ds.vars = append(ds.vars, g.pick([]string{"", "__r", "\xff"}))
	}
	ds.d = prometheus.NewDesc(ds.name, help, ds.vars, prometheus.Labels(ds.cs))
	ds.bad = prometheus.VerifC09DescErr(ds.d) != nil
	return ds
}

func lp(n, v string) *dto.LabelPair { return &dto.LabelPair{Name: proto.String(n), Value: proto.String(v)} }

func setPayload(m *dto.Metric, ty int, uid int) {
	f := float64(uid)
	u := uint64(uid)
	switch ty {
	case 0:
		m.Counter = &dto.Counter{Value: &f}
	case 1:
		m.Gauge = &dto.Gauge{Value: &f}
	case 2:
		m.Summary = &dto.Summary{SampleCount: &u, SampleSum: &f}
	case 3:
		m.Untyped = &dto.Untyped{Value: &f}
	case 4:
		m.Histogram = &dto.Histogram{SampleCount: &u, SampleSum: &f}
	}
}

// content builds a mostly well-formed dto.Metric for the desc and then breaks it in 0..2 ways.
func (g *gen) content(ds *descSpec, uid int, tags map[string]bool) (*dto.Metric, bool) {
	r := g.r
	m := &dto.Metric{}
	names := make([]string, 0, len(ds.cs)+len(ds.vars))
	vals := map[string]string{}
	for n, v := range ds.cs {
		names = append(names, n)
		vals[n] = v
	}
	for _, n := range ds.vars {
		if _, dup := vals[n]; !dup {
			names = append(names, n)
		}
		vals[n] = fmt.Sprint(uid)
		if !g.clean && r.Chance(1, 4) {
			vals[n] = g.pick([]string{"1", "1", "2", "2", "3"})
		}
		if r.Chance(1, 10) && !g.clean {
			vals[n] = g.pick(validUTF8)
		}
	}
	sort.Strings(names)
	for _, n := range names {
		m.Label = append(m.Label, lp(n, vals[n]))
	}
	ty, ok := g.typeOf[ds.name]
	if !ok {
		ty = r.Intn(5)
		g.typeOf[ds.name] = ty
	}
	setPayload(m, ty, uid)
	writeErr := false
	nmut := 0
	if r.Chance(2, 5) {
		nmut = 1 + r.Intn(2)
	}
	if g.heavy {
		nmut = r.Intn(5)
	}
	if g.clean {
		nmut = 0
		if len(ds.vars) == 0 || r.Chance(1, 4) {
			t := int64(uid)
			m.TimestampMs = &t
		}
	}
	for k := 0; k < nmut; k++ {
		n := len(m.Label)
		for _, l := range m.Label {
			if l == nil { // a nil pair from an earlier mutation: only append from now on
				n = 0
			}
		}
		switch c := r.Intn(20); c {
		case 0: // shuffle
			for i := n - 1; i > 0; i-- {
				j := r.Intn(i + 1)
				m.Label[i], m.Label[j] = m.Label[j], m.Label[i]
			}
			tags["mut:shuffle"] = true
		case 1: // adjacent duplicate
			if n > 0 {
				i := r.Intn(n)
				m.Label = append(m.Label[:i+1], append([]*dto.LabelPair{lp(m.Label[i].GetName(), g.pick([]string{"1", "9"}))}, m.Label[i+1:]...)...)
				tags["mut:dup-label-adjacent"] = true
			}
		case 2: // non-adjacent duplicate
			if n > 0 {
				m.Label = append(m.Label, lp("zz", "1"), lp(m.Label[0].GetName(), "3"))
				tags["mut:dup-label-nonadjacent"] = true
			}
		case 3: // invalid label name
			bad := g.pick(badLabelNames)
			if g.legacy && r.Bool() {
				// "a:b" only here: under UTF8Validation it is accepted, but expfmt's text encoder writes it unquoted
				// and expfmt's own parser then refuses the line (a defect of the external library, not of Gather)
				bad = g.pick(append([]string{"a:b"}, legacyOnlyBad...))
			}
			if n > 0 && r.Bool() {
				m.Label[r.Intn(n)].Name = proto.String(bad)
			} else {
				m.Label = append(m.Label, lp(bad, "1"))
			}
			tags["mut:bad-label-name"] = true
		case 4: // names that only LegacyValidation rejects
			m.Label = append(m.Label, lp(g.pick(legacyOnlyBad), "1"))
			tags["mut:utf8-label-name"] = true
		case 5:
			m.Label = append(m.Label, lp("le", g.pick([]string{"1", "+Inf"})))
			tags["mut:le"] = true
		case 6:
			m.Label = append(m.Label, lp("quantile", "0.5"))
			tags["mut:quantile"] = true
		case 7: // non-UTF-8 value
			if n > 0 && r.Bool() {
				m.Label[r.Intn(n)].Value = proto.String(g.pick(invalidUTF8))
			} else {
				m.Label = append(m.Label, lp("u", g.pick(invalidUTF8)))
			}
			tags["mut:non-utf8"] = true
		case 8: // boundary but valid UTF-8 value
			m.Label = append(m.Label, lp("u", g.pick(validUTF8)))
			tags["mut:utf8-boundary-valid"] = true
		case 9: // wrong payload
			m.Gauge, m.Counter, m.Summary, m.Untyped, m.Histogram = nil, nil, nil, nil, nil
			setPayload(m, (ty+1+r.Intn(4))%5, uid)
			tags["mut:wrong-type"] = true
		case 10: // second payload
			setPayload(m, r.Intn(5), uid)
			tags["mut:extra-payload"] = true
		case 11: // no payload
			m.Gauge, m.Counter, m.Summary, m.Untyped, m.Histogram = nil, nil, nil, nil, nil
			tags["mut:empty"] = true
		case 12, 13: // timestamp
			t := []int64{0, 1, -1, 1234567890123, 2}[r.Intn(5)]
			m.TimestampMs = &t
			tags["mut:timestamp"] = true
		case 14:
			writeErr = true
			tags["mut:write-error"] = true
		case 15: // drop a label
			if n > 0 {
				i := r.Intn(n)
				m.Label = append(m.Label[:i:i], m.Label[i+1:]...)
				tags["mut:drop-label"] = true
			}
		case 16: // change a value (const labels become inconsistent with the Desc)
			if n > 0 {
				m.Label[r.Intn(n)].Value = proto.String("other")
				tags["mut:change-value"] = true
			}
		case 17: // nil name pointer / nil pair
			if r.Bool() {
				m.Label = append(m.Label, &dto.LabelPair{Value: proto.String("1")})
			} else {
				m.Label = append(m.Label, nil)
			}
			tags["mut:nil-label"] = true
		case 18: // extra valid label
			m.Label = append(m.Label, lp(g.pick([]string{"extra", "A", "_x"}), "1"))
			tags["mut:extra-label"] = true
		case 19: // reserved
			m.Label = append(m.Label, lp(g.pick([]string{"__name__", "__", "__a"}), "1"))
			tags["mut:reserved-label"] = true
		}
	}
	return m, writeErr
}

func setScheme(legacy bool) {
	if legacy {
		model.NameValidationScheme = model.LegacyValidation
	} else {
		model.NameValidationScheme = model.UTF8Validation
	}
}

type gatherOut struct {
	mfs   []*dto.MetricFamily
	kinds []int
	hung  bool
}

func gatherWithWatchdog(g prometheus.Gatherer) (out gatherOut, panicked string) {
	done := make(chan struct{})
	go func() {
		defer close(done)
		defer func() {
			if e := recover(); e != nil {
				panicked = fmt.Sprint(e)
			}
		}()
		mfs, err := g.Gather()
		out.mfs, out.kinds = mfs, errKinds(err)
	}()
	select {
	case <-done:
	case <-time.After(20 * time.Second):
		out.hung = true
	}
	return
}

// arrivalsTerm lists the processed metrics in processing order.
func arrivalsTerm(rc *recorder) (string, int) {
	rc.mu.Lock()
	defer rc.mu.Unlock()
	it := make([]string, 0, len(rc.order))
	for _, uid := range rc.order {
		x := rc.recs[uid]
		c := zeroMetric
		if x.written {
			c = x.content
		}
		it = append(it, emit.Tup(emit.B(x.checked), descTerm(x.desc), emit.B(x.writeErr), c))
	}
	return emit.L(it), len(it)
}

func idsTerm(reg *prometheus.Registry) string {
	ids := prometheus.VerifC09RegisteredDescIDs(reg)
	it := make([]string, len(ids))
	for i, id := range ids {
		it[i] = emit.U(id)
	}
	return emit.L(it)
}

type failures struct{ list []map[string]interface{} }

func (f *failures) add(idx int, what string) {
	if len(f.list) < 20 {
		f.list = append(f.list, map[string]interface{}{"index": idx, "what": what})
	}
}

// buildAdvRegistry fills a registry with adversarial collectors; returns the number of metrics that will be emitted.
func (g *gen) buildAdvRegistry(reg *prometheus.Registry, rc *recorder, tags map[string]bool, heavy bool) int {
	r := g.r
	pool := g.namePool()
	nd := 1 + r.Intn(5)
	descs := make([]*descSpec, nd)
	for i := range descs {
		descs[i] = g.newDesc(pool)
	}
	ncol := 1 + r.Intn(4)
	total := 0
	for c := 0; c < ncol; c++ {
		checked := r.Bool()
		col := &advCollector{}
		nm := 1 + r.Intn(5)
		if heavy {
			nm = 2 + r.Intn(10)
		}
		var used []*descSpec
		for k := 0; k < nm; k++ {
			ds := descs[r.Intn(nd)]
			used = append(used, ds)
			x := rc.newRec(checked)
			m, werr := g.content(ds, x.uid, tags)
			col.metrics = append(col.metrics, &advMetric{r: rc, x: x, d: ds.d, writeErr: werr, content: m})
			if r.Chance(1, 12) && !g.clean { // an exact or near duplicate right away
				x2 := rc.newRec(checked)
				m2 := proto.Clone(m).(*dto.Metric)
				m2.Gauge, m2.Counter, m2.Summary, m2.Untyped, m2.Histogram = nil, nil, nil, nil, nil
				setPayload(m2, g.typeOf[ds.name], x2.uid)
				col.metrics = append(col.metrics, &advMetric{r: rc, x: x2, d: ds.d, content: m2})
				tags["dup-metric-injected"] = true
			}
		}
		if checked {
			seen := map[*descSpec]bool{}
			for _, ds := range used {
				if !ds.bad && !seen[ds] && !r.Chance(1, 6) {
					seen[ds] = true
					col.describe = append(col.describe, ds.d)
				}
			}
			if len(col.describe) == 0 {
				checked = false
			}
		}
		if err := reg.Register(col); err != nil {
			// refused (conflicting descs): register the same metrics as an unchecked collector
			col = &advCollector{metrics: col.metrics}
			checked = false
			tags["register-refused"] = true
			if err := reg.Register(col); err != nil {
				continue
			}
		}
		for _, m := range col.metrics {
			m.(*advMetric).x.checked = checked
		}
		if checked {
			tags["collector:checked"] = true
		} else {
			tags["collector:unchecked"] = true
		}
		total += len(col.metrics)
	}
	return total
}

func tagList(tags map[string]bool) []string {
	out := make([]string, 0, len(tags))
	for t := range tags {
		out = append(out, t)
	}
	sort.Strings(out)
	return out
}

func kindTags(ks []int, tags map[string]bool) {
	if len(ks) == 0 {
		tags["errors:none"] = true
	}
	for _, k := range ks {
		tags[fmt.Sprintf("err-kind:%d", k)] = true
	}
}

func advStream(c *cli.Ctx, r *emit.Rng, stream string, n int, heavy bool) error {
	w := emit.NewWriter(c.Out, "C09", stream)
	var fl failures
	for i := 0; i < n; i++ {
		g := &gen{r: r, legacy: r.Chance(1, 4), typeOf: map[string]int{}, heavy: heavy, clean: !heavy && r.Chance(1, 3)}
		setScheme(g.legacy)
		pedantic := r.Bool()
		g.pedantic = pedantic
		reg := prometheus.NewRegistry()
		if pedantic {
			reg = prometheus.NewPedanticRegistry()
		}
		rc := newRecorder()
		tags := map[string]bool{}
		total := g.buildAdvRegistry(reg, rc, tags, heavy)
		out, pan := gatherWithWatchdog(reg)
		if pan != "" {
			fl.add(i, "Gather panicked: "+pan)
		}
		if out.hung {
			fl.add(i, "Gather did not return within 20 s")
		}
		if rt := roundTrip(out.mfs); rt != "" {
			fl.add(i, rt)
		}
		arr, na := arrivalsTerm(rc)
		if na != total && pan == "" && !out.hung {
			fl.add(i, fmt.Sprintf("%d metrics emitted but %d processed", total, na))
		}
		kindTags(out.kinds, tags)
		if g.clean {
			tags["case:no-defect-injected"] = true
		}
		if pedantic {
			tags["registry:pedantic"] = true
		} else {
			tags["registry:plain"] = true
		}
		if g.legacy {
			tags["scheme:legacy"] = true
		} else {
			tags["scheme:utf8"] = true
		}
		tags[fmt.Sprintf("families:%d", min(len(out.mfs), 4))] = true
		term := emit.Tup("0", emit.B(g.legacy), emit.B(pedantic), idsTerm(reg), arr, familiesTerm(out.mfs), kindsTerm(out.kinds))
		w.Add(term, na >= 2 && (len(out.kinds) > 0 || len(out.mfs) >= 2), tagList(tags)...)
	}
	setScheme(false)
	if len(fl.list) > 0 {
		w.Extra["direct_failures"] = fl.list
	}
	return w.Flush()
}

// ---------- built-in metrics ----------

func (g *gen) builtinCollectors(tags map[string]bool, conflict bool) []prometheus.Collector {
	r := g.r
	var cols []prometheus.Collector
	n := 1 + r.Intn(6)
	used := map[string]bool{}
	for i := 0; i < n; i++ {
		name := fmt.Sprintf("%s%d", g.pick([]string{"app_requests", "x", "q_len", "lat"}), i)
		if conflict && i > 0 && r.Chance(1, 2) {
			var prev string
			for p := range used {
				if prev == "" || p < prev {
					prev = p
				}
			}
			name = prev + g.pick([]string{"_count", "_sum", "_bucket"})
			tags["builtin:suffix-conflict"] = true
		}
		if used[name] {
			continue
		}
		used[name] = true
		cl := prometheus.Labels{}
		if r.Chance(1, 3) {
			cl["c"] = g.pick([]string{"1", "é"})
		}
		switch k := r.Intn(9); k {
		case 0:
			x := prometheus.NewCounter(prometheus.CounterOpts{Name: name, Help: "h", ConstLabels: cl})
			x.Add(float64(r.Intn(50)))
			cols = append(cols, x)
			tags["builtin:counter"] = true
		case 1:
			x := prometheus.NewGauge(prometheus.GaugeOpts{Name: name, Help: "h", ConstLabels: cl})
			x.Set(float64(r.Intn(50)))
			cols = append(cols, x)
			tags["builtin:gauge"] = true
		case 2:
			x := prometheus.NewHistogram(prometheus.HistogramOpts{Name: name, Help: "h", ConstLabels: cl, Buckets: []float64{1, 2, 5}})
			for j := r.Intn(6); j > 0; j-- {
				x.Observe(float64(r.Intn(8)))
			}
			cols = append(cols, x)
			tags["builtin:histogram"] = true
		case 3:
			x := prometheus.NewSummary(prometheus.SummaryOpts{Name: name, Help: "h", ConstLabels: cl, Objectives: map[float64]float64{0.5: 0.05, 0.9: 0.01}})
			for j := r.Intn(6); j > 0; j-- {
				x.Observe(float64(r.Intn(8)))
			}
			cols = append(cols, x)
			tags["builtin:summary"] = true
		case 4:
			x := prometheus.NewCounterVec(prometheus.CounterOpts{Name: name, Help: "h", ConstLabels: cl}, []string{"b", "a"})
			for j := 1 + r.Intn(4); j > 0; j-- {
				x.WithLabelValues(g.pick([]string{"1", "2", "é"}), g.pick([]string{"x", "y", ""})).Add(float64(r.Intn(9)))
			}
			cols = append(cols, x)
			tags["builtin:counter-vec"] = true
		case 5:
			x := prometheus.NewHistogramVec(prometheus.HistogramOpts{Name: name, Help: "h", Buckets: []float64{1}}, []string{"z"})
			for j := 1 + r.Intn(3); j > 0; j-- {
				x.WithLabelValues(g.pick([]string{"1", "2", "3"})).Observe(float64(r.Intn(3)))
			}
			cols = append(cols, x)
			tags["builtin:histogram-vec"] = true
		case 6:
			d := prometheus.NewDesc(name, "h", []string{"v"}, cl)
			vt := []prometheus.ValueType{prometheus.CounterValue, prometheus.GaugeValue, prometheus.UntypedValue}[r.Intn(3)]
			var ms []prometheus.Metric
			for j := 1 + r.Intn(3); j > 0; j-- {
				m := prometheus.MustNewConstMetric(d, vt, float64(r.Intn(30)), fmt.Sprint(j))
				if r.Chance(1, 2) {
					m = prometheus.NewMetricWithTimestamp(time.UnixMilli(int64(1000+r.Intn(3))), m)
				}
				ms = append(ms, m)
			}
			cols = append(cols, &constCollector{d: d, ms: ms})
			tags["builtin:const-metric"] = true
		case 7:
			d := prometheus.NewDesc(name, "h", nil, cl)
			m := prometheus.MustNewConstHistogram(d, uint64(r.Intn(20)), 3.5, map[float64]uint64{1: 1, 2: 2})
			cols = append(cols, &constCollector{d: d, ms: []prometheus.Metric{m}})
			tags["builtin:const-histogram"] = true
		case 8:
			d := prometheus.NewDesc(name, "h", []string{"s"}, cl)
			m := prometheus.MustNewConstSummary(d, uint64(r.Intn(20)), 3.5, map[float64]float64{0.5: 1}, "v")
			cols = append(cols, &constCollector{d: d, ms: []prometheus.Metric{m}})
			tags["builtin:const-summary"] = true
		}
	}
	return cols
}

type constCollector struct {
	d  *prometheus.Desc
	ms []prometheus.Metric
}

func (c *constCollector) Describe(ch chan<- *prometheus.Desc) { ch <- c.d }
func (c *constCollector) Collect(ch chan<- prometheus.Metric) {
	for _, m := range c.ms {
		ch <- m
	}
}

func builtinStream(c *cli.Ctx, r *emit.Rng, n int) error {
	w := emit.NewWriter(c.Out, "C09", "builtin")
	var fl failures
	for i := 0; i < n; i++ {
		g := &gen{r: r, legacy: r.Chance(1, 3), typeOf: map[string]int{}}
		setScheme(g.legacy)
		pedantic := r.Bool()
		reg := prometheus.NewRegistry()
		if pedantic {
			reg = prometheus.NewPedanticRegistry()
		}
		rc := newRecorder()
		tags := map[string]bool{}
		conflict := r.Chance(1, 5)
		registered := 0
		for _, col := range g.builtinCollectors(tags, conflict) {
			if err := reg.Register(&wrapCollector{r: rc, inner: col}); err == nil {
				registered++
			}
		}
		out, pan := gatherWithWatchdog(reg)
		if pan != "" {
			fl.add(i, "Gather panicked: "+pan)
		}
		if out.hung {
			fl.add(i, "Gather did not return within 20 s")
		}
		if rt := roundTrip(out.mfs); rt != "" {
			fl.add(i, rt)
		}
		if !conflict && len(out.kinds) > 0 {
			fl.add(i, fmt.Sprintf("well-behaved built-in metrics under distinct names: Gather reported error kinds %v", out.kinds))
		}
		arr, na := arrivalsTerm(rc)
		kindTags(out.kinds, tags)
		term := emit.Tup("0", emit.B(g.legacy), emit.B(pedantic), idsTerm(reg), arr, familiesTerm(out.mfs), kindsTerm(out.kinds))
		w.Add(term, na >= 2 && len(out.mfs) >= 2, tagList(tags)...)
	}
	setScheme(false)
	if len(fl.list) > 0 {
		w.Extra["direct_failures"] = fl.list
	}
	return w.Flush()
}

// ---------- Gatherers ----------

var errInner = errors.New("c09 inner gatherer failure")

func (g *gen) rawFamilies(tags map[string]bool) ([]*dto.MetricFamily, bool) {
	r := g.r
	clean := true
	var mfs []*dto.MetricFamily
	pool := g.namePool()
	for k := 1 + r.Intn(3); k > 0; k-- {
		mf := &dto.MetricFamily{}
		name := g.pick(pool)
		ty := r.Intn(5)
		if t, ok := g.typeOf[name]; ok && !r.Chance(1, 5) {
			ty = t
		}
		g.typeOf[name] = ty
		switch r.Intn(14) {
		case 0:
			clean = false // no name at all
			tags["raw:no-name"] = true
		case 1:
			mf.Name = proto.String(name)
			mf.Type = dto.MetricType_GAUGE_HISTOGRAM.Enum()
			ty = 5
			clean = false
			tags["raw:gauge-histogram-type"] = true
		default:
			mf.Name = proto.String(name)
			mf.Type = dto.MetricType(ty).Enum()
		}
		if !r.Chance(1, 8) {
			mf.Help = proto.String(g.pick([]string{"h", "h", "h", "h2"}))
		}
		ds := &descSpec{name: name, cs: map[string]string{}, vars: []string{"a", "b"}[:r.Intn(3)]}
		for j := r.Intn(4); j > 0; j-- {
			mtags := map[string]bool{}
			m, _ := g.content(ds, 100+r.Intn(900), mtags)
			if ty == 5 {
				m.Gauge, m.Counter, m.Summary, m.Untyped, m.Histogram = nil, nil, nil, nil, nil
				setPayload(m, 4, 7)
			}
			for t := range mtags {
				tags["raw-"+t] = true
			}
			mf.Metric = append(mf.Metric, m)
		}
		mfs = append(mfs, mf)
	}
	return mfs, clean
}

func mergeStream(c *cli.Ctx, r *emit.Rng, n int) error {
	w := emit.NewWriter(c.Out, "C09", "merge")
	var fl failures
	for i := 0; i < n; i++ {
		g := &gen{r: r, legacy: r.Chance(1, 4), typeOf: map[string]int{}}
		setScheme(g.legacy)
		tags := map[string]bool{}
		clean := true
		ng := 1 + r.Intn(4)
		answers := make([]string, ng)
		var gs prometheus.Gatherers
		for k := 0; k < ng; k++ {
			k := k
			var inner func() ([]*dto.MetricFamily, error)
			if r.Chance(3, 5) { // a real registry with adversarial collectors
				reg := prometheus.NewRegistry()
				g.buildAdvRegistry(reg, newRecorder(), map[string]bool{}, false)
				inner = reg.Gather
				tags["gatherer:registry"] = true
			} else {
				mfs, cl := g.rawFamilies(tags)
				clean = clean && cl
				var err error
				switch r.Intn(6) {
				case 0:
					err = errInner
				case 1:
					err = prometheus.MultiError{errInner, errInner}
				case 2:
					err = prometheus.MultiError{}
				}
				inner = func() ([]*dto.MetricFamily, error) { return mfs, err }
				tags["gatherer:raw"] = true
			}
			gs = append(gs, prometheus.GathererFunc(func() ([]*dto.MetricFamily, error) {
				mfs, err := inner()
				// what this gatherer answers, before Gatherers.Gather sorts labels in place
				answers[k] = emit.Pair(familiesTerm(mfs), kindsTerm(errKinds(err)))
				return mfs, err
			}))
		}
		out, pan := gatherWithWatchdog(gs)
		if pan != "" {
			fl.add(i, "Gatherers.Gather panicked: "+pan)
		}
		if out.hung {
			fl.add(i, "Gatherers.Gather did not return within 20 s")
		}
		if clean {
			if rt := roundTrip(out.mfs); rt != "" {
				fl.add(i, rt)
			}
			tags["inputs:named-typed"] = true
		}
		kindTags(out.kinds, tags)
		tags[fmt.Sprintf("gatherers:%d", ng)] = true
		term := emit.Tup("1", emit.B(g.legacy), emit.L(answers), familiesTerm(out.mfs), kindsTerm(out.kinds))
		w.Add(term, ng >= 2 && len(out.mfs) >= 1, tagList(tags)...)
	}
	setScheme(false)
	if len(fl.list) > 0 {
		w.Extra["direct_failures"] = fl.list
	}
	return w.Flush()
}

// ---------- wide label sets ----------

// wideMetric builds a gauge with n label pairs l00..l(n-1) (values v<k>), then
//   dupI < dupJ >= 0: the name at position dupJ is replaced by the name at position dupI (duplicate label name),
//   order: 0 sorted, 1 reversed, 2 shuffled, 3 rotated (the duplicate positions refer to the slice as written),
//   late: another defect placed at index lateAt (>= 0): 1 invalid name, 2 reserved name, 3 non-UTF-8 value.
func wideMetric(r *emit.Rng, n, dupI, dupJ, order, late, lateAt int, ty int, uid int) *dto.Metric {
	m := &dto.Metric{}
	for k := 0; k < n; k++ {
		m.Label = append(m.Label, lp(fmt.Sprintf("l%02d", k), fmt.Sprintf("v%d", k)))
	}
	switch order {
	case 1:
		for i, j := 0, n-1; i < j; i, j = i+1, j-1 {
			m.Label[i], m.Label[j] = m.Label[j], m.Label[i]
		}
	case 2:
		for i := n - 1; i > 0; i-- {
			j := r.Intn(i + 1)
			m.Label[i], m.Label[j] = m.Label[j], m.Label[i]
		}
	case 3:
		k := r.Intn(n)
		m.Label = append(m.Label[k:], m.Label[:k]...)
	}
	if dupJ >= 0 {
		m.Label[dupJ] = lp(m.Label[dupI].GetName(), m.Label[dupJ].GetValue())
	}
	if late > 0 && lateAt < n {
		switch late {
		case 1:
			m.Label[lateAt].Name = proto.String("")
		case 2:
			m.Label[lateAt].Name = proto.String("__r")
		case 3:
			m.Label[lateAt].Value = proto.String("\xff")
		}
	}
	setPayload(m, ty, uid)
	return m
}

// wideStream: metrics with up to 16 label pairs; duplicate label names at every pair of positions of 9-, 10-, 12- and
// 16-label metrics (early/early, early/late, late/late), in sorted, reversed, shuffled and rotated label order, other
// label defects at late positions, and valid wide metrics; through Registry.Gather (plain/pedantic, checked/unchecked)
// and every fourth case through Gatherers.Gather.
func wideStream(c *cli.Ctx, r *emit.Rng) error {
	w := emit.NewWriter(c.Out, "C09", "wide")
	var fl failures
	setScheme(false)
	type spec struct{ n, i, j, order, late, lateAt int }
	var specs []spec
	for _, n := range []int{9, 10, 12, 16} {
		for i := 0; i < n; i++ {
			for j := i + 1; j < n; j++ {
				specs = append(specs, spec{n, i, j, (i + j) % 4, 0, 0})
			}
		}
	}
	for k := 0; k < 150*c.Scale; k++ {
		n := 2 + r.Intn(15)
		sp := spec{n: n, i: -1, j: -1, order: r.Intn(4)}
		switch r.Intn(4) {
		case 0: // valid
		case 1, 2:
			sp.j = 1 + r.Intn(n-1)
			sp.i = r.Intn(sp.j)
		case 3:
			sp.late, sp.lateAt = 1+r.Intn(3), r.Intn(n)
			if r.Bool() && n > 8 {
				sp.lateAt = 8 + r.Intn(n-8)
			}
		}
		specs = append(specs, sp)
	}
	for idx, sp := range specs {
		ty := []int{1, 0, 3, 2, 4}[idx%5]
		names := make([]string, sp.n)
		for k := range names {
			names[k] = fmt.Sprintf("l%02d", k)
		}
		tags := []string{fmt.Sprintf("labels:%d", sp.n), fmt.Sprintf("order:%d", sp.order)}
		if sp.j >= 0 {
			pos := func(k int) string {
				if k < 8 {
					return "early"
				}
				return "late"
			}
			tags = append(tags, "dup:"+pos(sp.i)+"/"+pos(sp.j))
		} else if sp.late > 0 {
			tags = append(tags, fmt.Sprintf("late-defect:%d", sp.late))
		} else {
			tags = append(tags, "valid")
		}
		if idx%4 == 3 { // through Gatherers with a hand-made family
			m := wideMetric(r, sp.n, sp.i, sp.j, sp.order, sp.late, sp.lateAt, ty, 1+idx%50)
			m2 := wideMetric(r, sp.n, -1, -1, 0, 0, 0, ty, 51)
			mf := &dto.MetricFamily{Name: proto.String("wide"), Help: proto.String("h"), Type: dto.MetricType(ty).Enum(), Metric: []*dto.Metric{m, m2}}
			answer := emit.Pair(familiesTerm([]*dto.MetricFamily{mf}), kindsTerm(nil))
			gs := prometheus.Gatherers{prometheus.GathererFunc(func() ([]*dto.MetricFamily, error) { return []*dto.MetricFamily{mf}, nil })}
			out, pan := gatherWithWatchdog(gs)
			if pan != "" {
				fl.add(idx, "Gatherers.Gather panicked: "+pan)
			}
			if rt := roundTrip(out.mfs); rt != "" {
				fl.add(idx, rt)
			}
			w.Add(emit.Tup("1", "0", emit.L([]string{answer}), familiesTerm(out.mfs), kindsTerm(out.kinds)), true, append(tags, "via:gatherers")...)
			continue
		}
		pedantic := idx%2 == 0
		checked := idx%3 != 0
		reg := prometheus.NewRegistry()
		if pedantic {
			reg = prometheus.NewPedanticRegistry()
		}
		rc := newRecorder()
		d := prometheus.NewDesc("wide", "h", names, nil)
		col := &advCollector{}
		if checked {
			col.describe = []*prometheus.Desc{d}
		}
		x := rc.newRec(checked)
		col.metrics = append(col.metrics, &advMetric{r: rc, x: x, d: d, content: wideMetric(r, sp.n, sp.i, sp.j, sp.order, sp.late, sp.lateAt, ty, x.uid)})
		if idx%2 == 1 { // a second, valid metric with other values
			y := rc.newRec(checked)
			m2 := wideMetric(r, sp.n, -1, -1, 0, 0, 0, ty, y.uid)
			m2.Label[sp.n-1].Value = proto.String("other")
			col.metrics = append(col.metrics, &advMetric{r: rc, x: y, d: d, content: m2})
		}
		reg.MustRegister(col)
		out, pan := gatherWithWatchdog(reg)
		if pan != "" {
			fl.add(idx, "Gather panicked: "+pan)
		}
		if rt := roundTrip(out.mfs); rt != "" {
			fl.add(idx, rt)
		}
		arr, _ := arrivalsTerm(rc)
		w.Add(emit.Tup("0", "0", emit.B(pedantic), idsTerm(reg), arr, familiesTerm(out.mfs), kindsTerm(out.kinds)), true, append(tags, "via:registry")...)
	}
	if len(fl.list) > 0 {
		w.Extra["direct_failures"] = fl.list
	}
	return w.Flush()
}

// ---------- extreme timestamps, every arrival order ----------

var extremeTs = []int64{-9223372036854775808, -9223372036854775807, -6000000000000000000, -4611686018427387905, -1, 0, 1,
	1700000000000, 4611686018427387904, 6000000000000000000, 9223372036854775806, 9223372036854775807}

func permutations(n int) [][]int {
	if n == 1 {
		return [][]int{{0}}
	}
	var out [][]int
	for _, p := range permutations(n - 1) {
		for pos := 0; pos <= len(p); pos++ {
			q := append(append(append([]int{}, p[:pos]...), n-1), p[pos:]...)
			out = append(out, q)
		}
	}
	return out
}

// tsStream: 3-5 samples of ONE series (equal labels) that differ only in their timestamps (near MinInt64/MaxInt64 ms, zero,
// mixed signs, sometimes equal, sometimes one without timestamp), gathered in every arrival order (3 samples) or in shuffled
// orders; case kind 2 = (first order, other order): a nil-error result must not depend on the order and must be sorted.
func tsStream(c *cli.Ctx, r *emit.Rng) error {
	w := emit.NewWriter(c.Out, "C09", "timestamps")
	var fl failures
	setScheme(false)
	for i := 0; i < 45*c.Scale; i++ {
		k := 3
		if i%3 == 2 {
			k = 4 + r.Intn(2)
		}
		builtin := i%2 == 1
		pool := extremeTs
		if builtin {
			pool = []int64{-6000000000000000000, -4611686018427387905, -1, 0, 1, 1700000000000, 4611686018427387904, 6000000000000000000}
		}
		ts := make([]*int64, k)
		for j := range ts {
			v := pool[r.Intn(len(pool))]
			for again := true; again; {
				again = false
				for _, p := range ts[:j] {
					if *p == v {
						v, again = pool[r.Intn(len(pool))], true
					}
				}
			}
			if j > 0 && r.Chance(1, 12) {
				v = *ts[0] // an equal timestamp: a duplicate
			}
			ts[j] = &v
		}
		if r.Chance(1, 4) {
			ts[r.Intn(k)] = nil // implies "now", sorted last
		}
		var labels []string
		if r.Bool() {
			labels = []string{"a", "b"}[:1+r.Intn(2)]
		}
		vt := []prometheus.ValueType{prometheus.GaugeValue, prometheus.CounterValue, prometheus.UntypedValue}[r.Intn(3)]
		ty := map[prometheus.ValueType]int{prometheus.GaugeValue: 1, prometheus.CounterValue: 0, prometheus.UntypedValue: 3}[vt]
		d := prometheus.NewDesc("series", "h", labels, nil)
		vals := []string{"x", "y"}[:len(labels)]
		build := func(order []int) func(rc *recorder) []prometheus.Metric {
			return func(rc *recorder) []prometheus.Metric {
				ms := make([]prometheus.Metric, 0, len(order))
				for _, j := range order {
					x := rc.newRec(false)
					if builtin {
						m := prometheus.MustNewConstMetric(d, vt, float64(j+1), vals...)
						if ts[j] != nil {
							m = prometheus.NewMetricWithTimestamp(time.UnixMilli(*ts[j]), m)
						}
						ms = append(ms, &wrapMetric{r: rc, x: x, inner: m})
					} else {
						m := &dto.Metric{TimestampMs: ts[j]}
						for n, l := range labels {
							m.Label = append(m.Label, lp(l, vals[n]))
						}
						setPayload(m, ty, j+1)
						ms = append(ms, &advMetric{r: rc, x: x, d: d, content: m})
					}
				}
				return ms
			}
		}
		var orders [][]int
		if k == 3 {
			orders = permutations(3)
		} else {
			id := make([]int, k)
			for j := range id {
				id[j] = j
			}
			orders = append(orders, id)
			for n := 0; n < 4; n++ {
				p := append([]int{}, id...)
				for a := k - 1; a > 0; a-- {
					b := r.Intn(a + 1)
					p[a], p[b] = p[b], p[a]
				}
				orders = append(orders, p)
			}
		}
		arr0, out0, ids := gatherOrdered(false, build(orders[0]))
		if rt := roundTrip(out0.mfs); rt != "" {
			fl.add(w.Len(), rt)
		}
		for _, o := range orders[1:] {
			arr1, out1, _ := gatherOrdered(false, build(o))
			tags := []string{fmt.Sprintf("samples:%d", k)}
			if builtin {
				tags = append(tags, "NewMetricWithTimestamp")
			} else {
				tags = append(tags, "custom-metric")
			}
			if len(out0.kinds) == 0 && len(out1.kinds) == 0 {
				tags = append(tags, "both-orders:nil-error")
			} else {
				tags = append(tags, "duplicate-timestamps")
			}
			w.Add(emit.Tup("2", "0", "0", ids, arr0, familiesTerm(out0.mfs), kindsTerm(out0.kinds), arr1, familiesTerm(out1.mfs), kindsTerm(out1.kinds)), true, tags...)
		}
	}
	// a sample WITHOUT timestamp next to explicit boundary timestamps of the same series: the missing one sorts last
	for _, explicit := range []int64{9223372036854775807, 9223372036854775806, -9223372036854775808, 0, -1} {
		for variant := 0; variant < 4; variant++ {
			builtin := variant%2 == 1
			var labels, vals []string
			if variant >= 2 {
				labels, vals = []string{"a"}, []string{"x"}
			}
			d := prometheus.NewDesc("series", "h", labels, nil)
			ex := explicit
			mk := func(rc *recorder, j int) prometheus.Metric { // j = 0: no timestamp, 1: explicit, 2: explicit-1 or +1
				x := rc.newRec(false)
				var t *int64
				switch j {
				case 1:
					t = &ex
				case 2:
					o := ex - 1
					if ex < 0 && ex != -1 {
						o = ex + 1
					}
					t = &o
				}
				if builtin {
					m := prometheus.MustNewConstMetric(d, prometheus.GaugeValue, float64(j+1), vals...)
					if t != nil {
						m = prometheus.NewMetricWithTimestamp(time.UnixMilli(*t), m)
					}
					return &wrapMetric{r: rc, x: x, inner: m}
				}
				m := &dto.Metric{TimestampMs: t}
				if len(labels) > 0 {
					m.Label = []*dto.LabelPair{lp("a", "x")}
				}
				setPayload(m, 1, j+1)
				return &advMetric{r: rc, x: x, d: d, content: m}
			}
			build := func(order []int) func(rc *recorder) []prometheus.Metric {
				return func(rc *recorder) []prometheus.Metric {
					var ms []prometheus.Metric
					for _, j := range order {
						ms = append(ms, mk(rc, j))
					}
					return ms
				}
			}
			tag := "custom-metric"
			if builtin {
				tag = "NewMetricWithTimestamp"
			}
			// Registry.Gather, both arrival orders of (missing, explicit) and all orders of three samples
			for _, oo := range [][2][]int{{{0, 1}, {1, 0}}, {{0, 1, 2}, {1, 2, 0}}, {{0, 1, 2}, {2, 0, 1}}, {{1, 0, 2}, {2, 1, 0}}} {
				arr0, out0, ids := gatherOrdered(false, build(oo[0]))
				arr1, out1, _ := gatherOrdered(false, build(oo[1]))
				if len(out0.kinds)+len(out1.kinds) > 0 {
					fl.add(w.Len(), fmt.Sprintf("samples of one series with distinct timestamps: error kinds %v / %v", out0.kinds, out1.kinds))
				}
				w.Add(emit.Tup("2", "0", "0", ids, arr0, familiesTerm(out0.mfs), kindsTerm(out0.kinds), arr1, familiesTerm(out1.mfs), kindsTerm(out1.kinds)),
					true, "missing-vs-explicit-timestamp", tag, fmt.Sprintf("samples:%d", len(oo[0])))
			}
			// Gatherers{r1, r2} and {r2, r1}: r1 holds the sample without timestamp, r2 the explicit one
			for flip := 0; flip < 2; flip++ {
				regs := make([]*prometheus.Registry, 2)
				answers := make([]string, 2)
				var gs prometheus.Gatherers
				for k := 0; k < 2; k++ {
					k := k
					j := k
					if flip == 1 {
						j = 1 - k
					}
					regs[k] = prometheus.NewRegistry()
					rc := newRecorder()
					regs[k].MustRegister(&advCollector{metrics: []prometheus.Metric{mk(rc, j)}})
					gs = append(gs, prometheus.GathererFunc(func() ([]*dto.MetricFamily, error) {
						mfs, err := regs[k].Gather()
						answers[k] = emit.Pair(familiesTerm(mfs), kindsTerm(errKinds(err)))
						return mfs, err
					}))
				}
				out, pan := gatherWithWatchdog(gs)
				if pan != "" || len(out.kinds) > 0 {
					fl.add(w.Len(), fmt.Sprintf("Gatherers over two registries with distinct samples of one series: panic %q, error kinds %v", pan, out.kinds))
				}
				w.Add(emit.Tup("1", "0", emit.L(answers), familiesTerm(out.mfs), kindsTerm(out.kinds)), true, "missing-vs-explicit-timestamp", tag, "via:gatherers")
			}
		}
	}
	if len(fl.list) > 0 {
		w.Extra["direct_failures"] = fl.list
	}
	return w.Flush()
}

// ---------- label values that confuse naive fingerprints ----------

// confusingPairs returns couples of DIFFERENT (a, b) label value tuples whose naive serialisations coincide
// (text a="..",b="..", plain concatenation, comma/equals joined).
func confusingPairs(r *emit.Rng) [][2][2]string {
	frag := []string{"\",b=\"", "\",", "=\"", "\"", ",", "=", "\\", "ÿ", "\x7f", "{", "}", " ", "\",b=\"\",b=\"", "", "\n", "\\\""}
	pick := func() string { return []string{"1", "2", "3", "x", "", "é"}[r.Intn(6)] }
	var out [][2][2]string
	for _, f := range frag {
		s1, s2, s3 := pick(), pick(), pick()
		out = append(out, [2][2]string{{s1 + f + s2, s3}, {s1, s2 + f + s3}})
	}
	out = append(out, [2][2]string{{"1\",b=\"2", "3"}, {"1", "2\",b=\"3"}})
	out = append(out, [2][2]string{{"ab", "c"}, {"a", "bc"}})
	out = append(out, [2][2]string{{"", "ab"}, {"ab", ""}})
	return out
}

// valueStream: children of a built-in vector (labels a, b[, c]) and custom metrics whose label values contain quotes, commas,
// equals signs, backslashes, U+00FF, DEL and fragments like `",b="` shifted between adjacent labels.  The label sets are
// pairwise different, so Gather has to return all of them with a nil error.
func valueStream(c *cli.Ctx, r *emit.Rng) error {
	w := emit.NewWriter(c.Out, "C09", "labelvalues")
	var fl failures
	setScheme(false)
	for round := 0; round < 2*c.Scale; round++ {
		for pi, pr := range confusingPairs(r) {
			if pr[0] == pr[1] {
				continue
			}
			three := r.Chance(1, 3)
			names := []string{"a", "b"}
			if three {
				names = []string{"a", "b", "c"}
			}
			reg := prometheus.NewRegistry()
			pedantic := r.Bool()
			if pedantic {
				reg = prometheus.NewPedanticRegistry()
			}
			rc := newRecorder()
			tags := map[string]bool{}
			switch pi % 3 {
			case 0, 1: // built-in vector
				var col prometheus.Collector
				add := func(vals []string, v float64) {}
				if pi%2 == 0 {
					cv := prometheus.NewCounterVec(prometheus.CounterOpts{Name: "vals", Help: "h"}, names)
					col, add = cv, func(vals []string, v float64) { cv.WithLabelValues(vals...).Add(v) }
				} else {
					gv := prometheus.NewGaugeVec(prometheus.GaugeOpts{Name: "vals", Help: "h"}, names)
					col, add = gv, func(vals []string, v float64) { gv.WithLabelValues(vals...).Set(v) }
				}
				for n, t := range pr {
					vals := []string{t[0], t[1]}
					if three {
						vals = []string{"z", t[0], t[1]}[:3]
						if r.Bool() {
							vals = []string{t[0], t[1], "z"}
						}
					}
					add(vals, float64(n+1))
				}
				reg.MustRegister(&wrapCollector{r: rc, inner: col})
				tags["built-in vector"] = true
			default: // custom metrics from an unchecked collector
				d := prometheus.NewDesc("vals", "h", names[:2], nil)
				col := &advCollector{}
				for n, t := range pr {
					x := rc.newRec(false)
					m := &dto.Metric{Label: []*dto.LabelPair{lp("a", t[0]), lp("b", t[1])}}
					setPayload(m, 1, n+1)
					col.metrics = append(col.metrics, &advMetric{r: rc, x: x, d: d, content: m})
				}
				reg.MustRegister(col)
				tags["custom metrics"] = true
			}
			out, pan := gatherWithWatchdog(reg)
			idx := w.Len()
			if pan != "" {
				fl.add(idx, "Gather panicked: "+pan)
			}
			if len(out.kinds) > 0 {
				fl.add(idx, fmt.Sprintf("metrics with pairwise different label sets %q / %q: Gather reported error kinds %v", pr[0], pr[1], out.kinds))
			}
			if rt := roundTrip(out.mfs); rt != "" {
				fl.add(idx, rt)
			}
			arr, _ := arrivalsTerm(rc)
			kindTags(out.kinds, tags)
			w.Add(emit.Tup("0", "0", emit.B(pedantic), idsTerm(reg), arr, familiesTerm(out.mfs), kindsTerm(out.kinds)), true, tagList(tags)...)
		}
	}
	if len(fl.list) > 0 {
		w.Extra["direct_failures"] = fl.list
	}
	return w.Flush()
}

// ---------- characters moving across the boundaries of the fingerprint's fields ----------

type fpMetric struct {
	fam    string
	labels [][2]string
	ts     *int64
}

func i64(v int64) *int64 { return &v }

// boundaryPairs: two DIFFERENT series whose fingerprint inputs coincide as soon as one separator is missing:
// name|value, value|next name, family name|first label name, last value|timestamp.
func boundaryPairs(r *emit.Rng) [][2]fpMetric {
	l := func(kv ...string) [][2]string {
		var o [][2]string
		for i := 0; i+1 < len(kv); i += 2 {
			o = append(o, [2]string{kv[i], kv[i+1]})
		}
		return o
	}
	out := [][2]fpMetric{
		{{"m", l("ab", "c"), nil}, {"m", l("a", "bc"), nil}},                                     // name | value
		{{"m", l("a", "b", "cd", "e"), nil}, {"m", l("a", "bc", "d", "e"), nil}},                 // value | next name
		{{"m", l("a", "b", "cd", "e"), nil}, {"m", l("ab", "", "cd", "e"), nil}},                 // name | empty value
		{{"m", l("a", "", "b", "c"), nil}, {"m", l("a", "b", "c", ""), nil}},                     // everything shifted by one field
		{{"m", l("a", "b"), nil}, {"m", l("a", "", "b", ""), nil}},                               // value vs name of an extra label
		{{"m", l("x", "1"), i64(23)}, {"m", l("x", "12"), i64(3)}},                               // last value | timestamp
		{{"m", l("x", "1"), i64(-5)}, {"m", l("x", "1-"), i64(5)}},                               // sign of the timestamp
		{{"m", nil, i64(12)}, {"m", l("a1", "2"), nil}},                                          // timestamp vs label
		{{"m", l("ab", "c"), nil}, {"ma", l("b", "c"), nil}},                                     // family name | first label name
		{{"m", l("a", "b"), nil}, {"ma", nil, nil}},                                              // family name swallowing a label
		{{"m_a", l("b", "c"), nil}, {"m", l("_ab", "c"), nil}},
	}
	// random splits of one string into name/value/name/value at two different sets of cut points
	for k := 0; k < 12; k++ {
		w := []byte("abcdefgh")[:5+r.Intn(4)]
		cut := func() [3]int {
			for {
				a, b, c := 1+r.Intn(len(w)-1), r.Intn(len(w)+1), r.Intn(len(w)+1)
				if a <= b && b < c && c <= len(w) && string(w[:a]) != string(w[b:c]) {
					return [3]int{a, b, c}
				}
			}
		}
		c1, c2 := cut(), cut()
		if c1 == c2 {
			continue
		}
		mk := func(c [3]int) fpMetric {
			return fpMetric{"m", l(string(w[:c[0]]), string(w[c[0]:c[1]]), string(w[c[1]:c[2]]), string(w[c[2]:])), nil}
		}
		out = append(out, [2]fpMetric{mk(c1), mk(c2)})
	}
	return out
}

func (f fpMetric) dto(uid int) *dto.Metric {
	m := &dto.Metric{TimestampMs: f.ts}
	ls := append([][2]string{}, f.labels...)
	sort.Slice(ls, func(i, j int) bool { return ls[i][0] < ls[j][0] })
	for _, kv := range ls {
		m.Label = append(m.Label, lp(kv[0], kv[1]))
	}
	setPayload(m, 1, uid)
	return m
}

// boundaryStream: the pairs above as custom metrics from an unchecked collector (both arrival orders) and as hand-made
// families through Gatherers.Gather.  The series are different, so both must be present with a nil error.
func boundaryStream(c *cli.Ctx, r *emit.Rng) error {
	w := emit.NewWriter(c.Out, "C09", "fieldboundaries")
	var fl failures
	setScheme(false)
	for pi, pr := range boundaryPairs(r) {
		for variant := 0; variant < 3; variant++ {
			a, b := pr[0], pr[1]
			if variant == 1 {
				a, b = b, a
			}
			idx := w.Len()
			var out gatherOut
			var term string
			tag := "via:unchecked-collector"
			if variant < 2 {
				descs := map[string]*prometheus.Desc{}
				for _, f := range []fpMetric{a, b} {
					if descs[f.fam] == nil {
						descs[f.fam] = prometheus.NewDesc(f.fam, "h", nil, nil)
					}
				}
				arr, o, ids := gatherOrdered(false, func(rc *recorder) []prometheus.Metric {
					var ms []prometheus.Metric
					for n, f := range []fpMetric{a, b} {
						ms = append(ms, &advMetric{r: rc, x: rc.newRec(false), d: descs[f.fam], content: f.dto(n + 1)})
					}
					return ms
				})
				out = o
				term = emit.Tup("0", "0", "0", ids, arr, familiesTerm(out.mfs), kindsTerm(out.kinds))
			} else {
				tag = "via:gatherers"
				var mfs []*dto.MetricFamily
				for n, f := range []fpMetric{a, b} {
					var mf *dto.MetricFamily
					for _, x := range mfs {
						if x.GetName() == f.fam {
							mf = x
						}
					}
					if mf == nil {
						mf = &dto.MetricFamily{Name: proto.String(f.fam), Help: proto.String("h"), Type: dto.MetricType_GAUGE.Enum()}
						mfs = append(mfs, mf)
					}
					mf.Metric = append(mf.Metric, f.dto(n+1))
				}
				answer := emit.Pair(familiesTerm(mfs), kindsTerm(nil))
				out, _ = gatherWithWatchdog(prometheus.Gatherers{prometheus.GathererFunc(func() ([]*dto.MetricFamily, error) { return mfs, nil })})
				term = emit.Tup("1", "0", emit.L([]string{answer}), familiesTerm(out.mfs), kindsTerm(out.kinds))
			}
			n := 0
			for _, mf := range out.mfs {
				n += len(mf.Metric)
			}
			if len(out.kinds) > 0 || n != 2 {
				fl.add(idx, fmt.Sprintf("two different series %v / %v: Gather returned %d metrics and error kinds %v", a, b, n, out.kinds))
			}
			if rt := roundTrip(out.mfs); rt != "" {
				fl.add(idx, rt)
			}
			w.Add(term, true, tag, fmt.Sprintf("pair:%d", min(pi, 11)))
		}
	}
	if len(fl.list) > 0 {
		w.Extra["direct_failures"] = fl.list
	}
	return w.Flush()
}

// ---------- stacked magic suffixes ----------

// stackedStream: a base family (x, x_count, x_sum or x_bucket; histogram, summary or gauge) and a sibling whose name carries
// STACKED magic suffixes (x_sum_count, x_bucket_count, x_count_sum, ...), in both collection orders, through Registry.Gather
// (one unchecked collector) and through Gatherers.Gather.  Only ONE suffix may be stripped when looking for the base.
func stackedStream(c *cli.Ctx, r *emit.Rng) error {
	w := emit.NewWriter(c.Out, "C09", "stackedsuffix")
	var fl failures
	setScheme(false)
	suf := []string{"_count", "_sum", "_bucket"}
	for _, b := range []string{"x", "api_latency"} {
		for _, s1 := range suf {
			for _, s2 := range suf {
				for _, baseName := range []string{b, b + s1} {
					for _, baseTy := range []int{4, 2, 1} {
						for order := 0; order < 2; order++ {
							sib := b + s1 + s2
							names := []string{baseName, sib}
							tys := []int{baseTy, []int{0, 1, 3}[r.Intn(3)]}
							if order == 1 {
								names[0], names[1], tys[0], tys[1] = names[1], names[0], tys[1], tys[0]
							}
							tags := []string{fmt.Sprintf("base-type:%d", baseTy), "sibling:" + s1 + s2, fmt.Sprintf("order:%d", order)}
							if baseName == b {
								tags = append(tags, "base:plain")
							} else {
								tags = append(tags, "base:suffixed")
							}
							idx := w.Len()
							if (idx/2)%2 == 0 {
								arr, out, ids := gatherOrdered(false, func(rc *recorder) []prometheus.Metric {
									var ms []prometheus.Metric
									for k := range names {
										m := &dto.Metric{}
										setPayload(m, tys[k], k+1)
										ms = append(ms, &advMetric{r: rc, x: rc.newRec(false), d: prometheus.NewDesc(names[k], "h", nil, nil), content: m})
									}
									return ms
								})
								if rt := roundTrip(out.mfs); rt != "" {
									fl.add(idx, rt)
								}
								w.Add(emit.Tup("0", "0", "0", ids, arr, familiesTerm(out.mfs), kindsTerm(out.kinds)), true, append(tags, "via:registry")...)
							} else {
								var mfs []*dto.MetricFamily
								for k := range names {
									m := &dto.Metric{}
									setPayload(m, tys[k], k+1)
									mfs = append(mfs, &dto.MetricFamily{Name: proto.String(names[k]), Help: proto.String("h"), Type: dto.MetricType(tys[k]).Enum(), Metric: []*dto.Metric{m}})
								}
								answer := emit.Pair(familiesTerm(mfs), kindsTerm(nil))
								out, _ := gatherWithWatchdog(prometheus.Gatherers{prometheus.GathererFunc(func() ([]*dto.MetricFamily, error) { return mfs, nil })})
								if rt := roundTrip(out.mfs); rt != "" {
									fl.add(idx, rt)
								}
								w.Add(emit.Tup("1", "0", emit.L([]string{answer}), familiesTerm(out.mfs), kindsTerm(out.kinds)), true, append(tags, "via:gatherers")...)
							}
						}
					}
				}
			}
		}
	}
	if len(fl.list) > 0 {
		w.Extra["direct_failures"] = fl.list
	}
	return w.Flush()
}

// ---------- many rejected metrics in one Gather ----------

// manyErrorsStream: 99, 100, 101, 150 and ~1000 rejected metrics (duplicates, invalid label names, failing Write, non-UTF-8
// values) next to a few accepted ones in ONE Gather: every collected metric must be present or paid for by one error
// (complete_or_reported on the implementation's output), also when the registry is gathered through Gatherers.
func manyErrorsStream(c *cli.Ctx, r *emit.Rng) error {
	w := emit.NewWriter(c.Out, "C09", "manyerrors")
	var fl failures
	setScheme(false)
	for ci, nbad := range []int{99, 100, 101, 150, 1000 + r.Intn(50), 101, 257} {
		d := prometheus.NewDesc("many", "h", []string{"a"}, nil)
		reg := prometheus.NewRegistry()
		rc := newRecorder()
		col := &advCollector{}
		ngood := 1 + r.Intn(4)
		total := 0
		add := func(m *dto.Metric, werr bool) {
			x := rc.newRec(false)
			total++
			setPayload(m, 1, total)
			col.metrics = append(col.metrics, &advMetric{r: rc, x: x, d: d, writeErr: werr, content: m})
		}
		for k := 0; k < ngood; k++ {
			add(&dto.Metric{Label: []*dto.LabelPair{lp("a", fmt.Sprintf("good%d", k))}}, false)
		}
		for k := 0; k < nbad; k++ {
			kind := k % 4
			if ci >= 5 {
				kind = 0 // only duplicates
			}
			switch kind {
			case 0:
				add(&dto.Metric{Label: []*dto.LabelPair{lp("a", "good0")}}, false)
			case 1:
				add(&dto.Metric{Label: []*dto.LabelPair{lp("__bad", fmt.Sprint(k))}}, false)
			case 2:
				add(&dto.Metric{Label: []*dto.LabelPair{lp("a", fmt.Sprint(k))}}, true)
			case 3:
				add(&dto.Metric{Label: []*dto.LabelPair{lp("a", fmt.Sprintf("%d\xff", k))}}, false)
			}
		}
		if ci%2 == 1 { // accepted metrics after the rejected ones as well
			add(&dto.Metric{Label: []*dto.LabelPair{lp("a", "tail")}}, false)
			ngood++
		}
		reg.MustRegister(col)
		out, pan := gatherWithWatchdog(reg)
		idx := w.Len()
		if pan != "" {
			fl.add(idx, "Gather panicked: "+pan)
		}
		present := 0
		for _, mf := range out.mfs {
			present += len(mf.Metric)
		}
		if present+len(out.kinds) != total {
			fl.add(idx, fmt.Sprintf("%d metrics collected, %d present, %d errors reported: %d metrics are neither present nor covered by the error", total, present, len(out.kinds), total-present-len(out.kinds)))
		}
		arr, _ := arrivalsTerm(rc)
		w.Add(emit.Tup("0", "0", "0", idsTerm(reg), arr, familiesTerm(out.mfs), kindsTerm(out.kinds)), true, fmt.Sprintf("rejected:%d", nbad), fmt.Sprintf("accepted:%d", ngood))
		// the same registry through Gatherers: the flattened error must still account for every missing metric
		gout, gpan := gatherWithWatchdog(prometheus.Gatherers{reg})
		gpresent := 0
		for _, mf := range gout.mfs {
			gpresent += len(mf.Metric)
		}
		if gpan != "" || gpresent+len(gout.kinds) != total {
			fl.add(idx, fmt.Sprintf("through Gatherers: %d metrics collected, %d present, %d errors reported (panic %q)", total, gpresent, len(gout.kinds), gpan))
		}
	}
	if len(fl.list) > 0 {
		w.Extra["direct_failures"] = fl.list
	}
	return w.Flush()
}

// ---------- collectors that use the registry from within Collect ----------

type reentrantCollector struct {
	reg  *prometheus.Registry
	own  prometheus.Collector
	todo func(reg *prometheus.Registry)
	once sync.Once
}

func (c *reentrantCollector) Describe(ch chan<- *prometheus.Desc) { c.own.Describe(ch) }
func (c *reentrantCollector) Collect(ch chan<- prometheus.Metric) {
	c.once.Do(func() { c.todo(c.reg) }) // register-on-first-use
	c.own.Collect(ch)
}

func gatherWithin(g prometheus.Gatherer, d time.Duration) (out gatherOut, panicked string) {
	done := make(chan struct{})
	go func() {
		defer close(done)
		defer func() {
			if e := recover(); e != nil {
				panicked = fmt.Sprint(e)
			}
		}()
		mfs, err := g.Gather()
		out.mfs, out.kinds = mfs, errKinds(err)
	}()
	select {
	case <-done:
	case <-time.After(d):
		return gatherOut{hung: true}, ""
	}
	return
}

// reentrantStream: Collect registers another collector on / unregisters one from the registry being gathered.
// Gather must return (it releases the registry lock before collecting); the next Gather sees the changed registration.
func reentrantStream(c *cli.Ctx, r *emit.Rng) error {
	w := emit.NewWriter(c.Out, "C09", "reentrant")
	var fl failures
	setScheme(false)
	for i := 0; i < 4; i++ {
		reg := prometheus.NewRegistry()
		rc := newRecorder()
		first := prometheus.NewGauge(prometheus.GaugeOpts{Name: "first", Help: "h"})
		first.Set(1)
		second := prometheus.NewCounter(prometheus.CounterOpts{Name: "second", Help: "h"})
		second.Add(2)
		victim := &wrapCollector{r: rc, inner: prometheus.NewGauge(prometheus.GaugeOpts{Name: "victim", Help: "h"})}
		var todoErr error
		todo := func(reg *prometheus.Registry) { todoErr = reg.Register(&wrapCollector{r: rc, inner: second}) }
		what := "Collect registers another collector"
		if i%2 == 1 {
			reg.MustRegister(victim)
			todo = func(reg *prometheus.Registry) {
				if !reg.Unregister(victim) {
					todoErr = errors.New("Unregister returned false")
				}
			}
			what = "Collect unregisters another collector"
		}
		reg.MustRegister(&reentrantCollector{reg: reg, own: &wrapCollector{r: rc, inner: first}, todo: todo})
		for round := 0; round < 2; round++ {
			rc.mu.Lock()
			rc.order, rc.seen = nil, map[int]bool{}
			rc.mu.Unlock()
			out, pan := gatherWithin(reg, 4*time.Second)
			idx := w.Len()
			if out.hung {
				fl.add(idx, what+" on the registry being gathered: Gather did not return within 4 s")
				w.Add(emit.Tup("0", "0", "0", "()", "()", "()", "()"), true, what, "HUNG")
				break
			}
			if pan != "" {
				fl.add(idx, "Gather panicked: "+pan)
			}
			if todoErr != nil {
				fl.add(idx, what+" failed: "+todoErr.Error())
			}
			arr, _ := arrivalsTerm(rc)
			w.Add(emit.Tup("0", "0", "0", idsTerm(reg), arr, familiesTerm(out.mfs), kindsTerm(out.kinds)), true, what, fmt.Sprintf("gather:%d families:%d", round+1, len(out.mfs)))
		}
	}
	if len(fl.list) > 0 {
		w.Extra["direct_failures"] = fl.list
	}
	return w.Flush()
}

// ---------- known findings (known_findings.txt) ----------

// gatherOrdered gathers the metrics from ONE unchecked collector, i.e. in exactly the given order.
func gatherOrdered(pedantic bool, build func(rc *recorder) []prometheus.Metric) (arr string, out gatherOut, ids string) {
	reg := prometheus.NewRegistry()
	if pedantic {
		reg = prometheus.NewPedanticRegistry()
	}
	rc := newRecorder()
	reg.MustRegister(&advCollector{metrics: build(rc)})
	out, _ = gatherWithWatchdog(reg)
	arr, _ = arrivalsTerm(rc)
	return arr, out, idsTerm(reg)
}

// known-multi-payload-order: a metric with only the lower-priority payload and one with both payloads under one Desc;
// whether Gather reports an error depends on which of the two arrives first.
func knownMultiPayload(c *cli.Ctx, r *emit.Rng) error {
	w := emit.NewWriter(c.Out, "C09", "known-multi-payload-order")
	setScheme(false)
	prio := []int{1, 0, 2, 3, 4} // the order of the switch in processMetric: gauge, counter, summary, untyped, histogram
	for i := 0; i < 10; i++ {
		a := r.Intn(4)
		hi, lo := prio[a], prio[a+1+r.Intn(4-a)]
		name := []string{"m", "req_total", "x"}[r.Intn(3)]
		var vars []string
		if r.Bool() {
			vars = []string{"a"}
		}
		d := prometheus.NewDesc(name, "h", vars, nil)
		mk := func(rc *recorder, both bool, val string) prometheus.Metric {
			x := rc.newRec(false)
			m := &dto.Metric{}
			if len(vars) > 0 {
				m.Label = []*dto.LabelPair{lp("a", val)}
			} else if both {
				t := int64(5)
				m.TimestampMs = &t
			}
			setPayload(m, lo, x.uid)
			if both {
				setPayload(m, hi, x.uid)
			}
			return &advMetric{r: rc, x: x, d: d, content: m}
		}
		// uids: the single-payload metric is always number 1, the double one number 2
		arr1, out1, ids := gatherOrdered(false, func(rc *recorder) []prometheus.Metric {
			s, b := mk(rc, false, "1"), mk(rc, true, "2")
			return []prometheus.Metric{s, b}
		})
		arr2, out2, _ := gatherOrdered(false, func(rc *recorder) []prometheus.Metric {
			s, b := mk(rc, false, "1"), mk(rc, true, "2")
			return []prometheus.Metric{b, s}
		})
		term := emit.Tup("2", "0", "0", ids, arr1, familiesTerm(out1.mfs), kindsTerm(out1.kinds), arr2, familiesTerm(out2.mfs), kindsTerm(out2.kinds))
		w.Add(term, true, fmt.Sprintf("payloads:%d+%d", hi, lo))
	}
	return w.Flush()
}

type forgedMetric struct {
	r *recorder
	x *rec
	d *prometheus.Desc
	m *dto.Metric
}

func (m *forgedMetric) Desc() *prometheus.Desc { m.r.sawDesc(m.x, m.d); return m.d }
func (m *forgedMetric) Write(out *dto.Metric) error {
	out.Label, out.Gauge = m.m.Label, m.m.Gauge
	m.x.content, m.x.written = metricTerm(out), true
	return nil
}

// known-forged-desc: Desc() returns the zero value &prometheus.Desc{} (no error, empty name).
func knownForgedDesc(c *cli.Ctx, r *emit.Rng) error {
	w := emit.NewWriter(c.Out, "C09", "known-forged-desc")
	setScheme(false)
	for i := 0; i < 6; i++ {
		pedantic := r.Bool()
		withOther := r.Bool()
		arr, out, ids := gatherOrdered(pedantic, func(rc *recorder) []prometheus.Metric {
			var ms []prometheus.Metric
			x := rc.newRec(false)
			m := &dto.Metric{}
			setPayload(m, 1, x.uid)
			if r.Bool() {
				m.Label = []*dto.LabelPair{lp("a", "1")}
			}
			ms = append(ms, &forgedMetric{r: rc, x: x, d: &prometheus.Desc{}, m: m})
			if withOther {
				y := rc.newRec(false)
				m2 := &dto.Metric{}
				setPayload(m2, 1, y.uid)
				ms = append(ms, &advMetric{r: rc, x: y, d: prometheus.NewDesc("ok", "h", nil, nil), content: m2})
			}
			return ms
		})
		term := emit.Tup("0", "0", emit.B(pedantic), ids, arr, familiesTerm(out.mfs), kindsTerm(out.kinds))
		w.Add(term, true, fmt.Sprintf("families:%d", len(out.mfs)))
	}
	return w.Flush()
}

func runC09(c *cli.Ctx) error {
	r := emit.NewRng(c.Seed)
	if err := advStream(c, r.Fork(), "adv", 700*c.Scale, false); err != nil {
		return err
	}
	if err := advStream(c, r.Fork(), "malformed", 300*c.Scale, true); err != nil {
		return err
	}
	if err := builtinStream(c, r.Fork(), 300*c.Scale); err != nil {
		return err
	}
	if err := mergeStream(c, r.Fork(), 400*c.Scale); err != nil {
		return err
	}
	if err := wideStream(c, r.Fork()); err != nil {
		return err
	}
	if err := tsStream(c, r.Fork()); err != nil {
		return err
	}
	if err := valueStream(c, r.Fork()); err != nil {
		return err
	}
	if err := boundaryStream(c, r.Fork()); err != nil {
		return err
	}
	if err := stackedStream(c, r.Fork()); err != nil {
		return err
	}
	if err := manyErrorsStream(c, r.Fork()); err != nil {
		return err
	}
	if err := reentrantStream(c, r.Fork()); err != nil {
		return err
	}
	if err := knownMultiPayload(c, r.Fork()); err != nil {
		return err
	}
	return knownForgedDesc(c, r.Fork())
}
