package main

import (
	"bytes"
	"compress/gzip"
	"errors"
	"fmt"
	"io"
	"log"
	"math"
	"net/http"
	"net/http/httptest"
	"runtime"
	"strings"
	"sync"
	"sync/atomic"
	"time"

	kzstd "github.com/klauspost/compress/zstd"
	"github.com/prometheus/client_golang/prometheus"
	"github.com/prometheus/client_golang/prometheus/promhttp"
	_ "github.com/prometheus/client_golang/prometheus/promhttp/zstd"
	dto "github.com/prometheus/client_model/go"
	"github.com/prometheus/common/expfmt"
	"google.golang.org/protobuf/proto"
	"google.golang.org/protobuf/types/known/timestamppb"

	"verifharness/internal/cli"
	"verifharness/internal/emit"
)

// C11: the metrics handler serves exactly what was gathered, in the negotiated encoding.
// Streams: parse (header.ParseAccept + NegotiateContentEncoding), req (single requests, recorder),
// server (single requests through a real httptest server), sched (scripted concurrent schedules
// against a blocking gatherer), stress (free-running concurrent requests), malformed (byte soup headers).

func main() { cli.Main("C11", runC11) }

// ---------------------------------------------------------------- Accept-Encoding grammar

var codings = []string{"gzip", "gzip", "zstd", "zstd", "identity", "*", "*", "br", "deflate", "x-gzip", "GZIP", "gzip/x", "zs td", "", "g\"zip", "compress"}

func genWeight(r *emit.Rng) string {
	digits := func(n int, all byte) string {
		b := make([]byte, n)
		for i := range b {
			if all != 0 {
				b[i] = all
			} else {
				b[i] = byte('0' + r.Intn(10))
			}
		}
		return string(b)
	}
	switch r.Intn(30) {
	case 0, 1, 2, 3:
		return ""
	case 4, 5, 6:
		return ";q=0"
	case 7:
		return ";q=1"
	case 8, 9:
		return ";q=0.5"
	case 10:
		return ";q=0.000"
	case 11:
		return ";q=1.000"
	case 12:
		return ";q=0.001"
	case 13:
		return "; q=0." + digits(1+r.Intn(3), 0)
	case 14:
		return " ;  q=0." + digits(1+r.Intn(3), 0)
	case 15:
		return ";q = 0.5"
	case 16:
		return ";Q=0.5"
	case 17:
		return ";q="
	case 18:
		return ";q=2"
	case 19:
		return ";q=1." + digits(1+r.Intn(3), 0)
	case 20:
		return ";q=0." + digits(17+r.Intn(5), 0) // around the int64 overflow of d (10^19) and n
	case 21:
		return ";q=0." + digits(64+r.Intn(3), '0') // d wraps to 0, n = 0: 0/0
	case 22:
		return ";q=0." + digits(64+r.Intn(3), 0) // d wraps to 0: +-Inf
	case 23:
		return ";q=" + []string{"0", "1"}[r.Intn(2)] + "." + digits(19+r.Intn(3), '9')
	case 24:
		return ";q=0.5;level=1"
	case 25:
		return ";level=1"
	case 26:
		return ";q=0."
	case 27:
		return ";q=-1"
	case 28:
		return ";q=0,5"
	default:
		return ";q=0." + digits(1+r.Intn(3), 0)
	}
}

func genAEValue(r *emit.Rng) string {
	n := r.Intn(5)
	if r.Chance(1, 12) {
		n = 0
	}
	var sb strings.Builder
	if r.Chance(1, 15) {
		sb.WriteString(" ")
	}
	for i := 0; i < n; i++ {
		if i > 0 {
			sb.WriteString([]string{",", ", ", " , ", ",\t", ",,", ";", " "}[r.Intn(5+r.Intn(3))])
		}
		sb.WriteString(codings[r.Intn(len(codings))])
		sb.WriteString(genWeight(r))
	}
	if r.Chance(1, 15) {
		sb.WriteString([]string{" ", ",", ";"}[r.Intn(3)])
	}
	return sb.String()
}

// long Accept-Encoding headers: 9-20 entries over one or several header lines, the decisive entry late
// (a q=0 refusal after an earlier wildcard, or the only acceptable coding at the end)
func genLongAE(r *emit.Rng) []string {
	n := 9 + r.Intn(12)
	fillers := []string{"br", "deflate", "compress", "x-gzip", "x-compress", "lzma", "bzip2", "snappy", "xz", "lz4", "sdch", "exi", "pack200-gzip"}
	qs := []string{"", ";q=0.1", ";q=0.5", ";q=0.9", ";q=1", ";q=0"}
	entries := make([]string, n)
	for i := range entries {
		entries[i] = fillers[r.Intn(len(fillers))] + qs[r.Intn(len(qs))]
	}
	target := []string{"gzip", "zstd"}[r.Intn(2)]
	late := 8 + r.Intn(n-8) // index >= 8: the ninth entry or later
	switch r.Intn(4) {
	case 0, 1: // wildcard early, explicit refusal late
		entries[r.Intn(8)] = "*" + []string{"", ";q=0.5", ";q=0.2"}[r.Intn(3)]
		entries[late] = target + ";q=0"
	case 2: // the only acceptable coding comes late
		for i := range entries {
			if r.Chance(1, 2) {
				entries[i] = fillers[r.Intn(len(fillers))] + ";q=0"
			}
		}
		entries[late] = target + []string{"", ";q=0.7"}[r.Intn(2)]
	default: // early low preference, late wildcard refusal and a late better coding
		entries[r.Intn(8)] = "gzip;q=0.2"
		entries[late] = "zstd;q=0.9"
		if late+1 < n {
			entries[late+1] = "*;q=0"
		}
	}
	lines := 1 + r.Intn(3)
	if lines == 1 {
		return []string{strings.Join(entries, []string{",", ", "}[r.Intn(2)])}
	}
	var out []string
	per := (n + lines - 1) / lines
	for i := 0; i < n; i += per {
		j := i + per
		if j > n {
			j = n
		}
		out = append(out, strings.Join(entries[i:j], ", "))
	}
	return out
}

// header values for Accept-Encoding: nil = header absent
func genAE(r *emit.Rng) []string {
	if r.Chance(1, 10) {
		return genLongAE(r)
	}
	switch r.Intn(14) {
	case 0:
		return nil
	case 12, 13: // an explicit entry next to a wildcard, either order: the explicit one decides
		qs := []string{"", ";q=0", ";q=0", ";q=0.3", ";q=0.5", ";q=1", ";q=0.000", ";q=0.001"}
		e := []string{"gzip", "zstd", "identity", "br"}[r.Intn(4)] + qs[r.Intn(len(qs))]
		w := "*" + qs[r.Intn(len(qs))]
		parts := []string{e, w}
		if r.Bool() {
			parts = []string{w, e}
		}
		if r.Chance(1, 3) {
			parts = append(parts, []string{"gzip", "zstd", "deflate"}[r.Intn(3)]+qs[r.Intn(len(qs))])
		}
		if r.Chance(1, 4) {
			return parts // as separate header lines
		}
		return []string{strings.Join(parts, []string{",", ", "}[r.Intn(2)])}
	case 1:
		return []string{genAEValue(r), genAEValue(r)}
	case 2:
		return []string{"gzip"}
	case 3:
		return []string{[]string{"gzip;q=0, *;q=0.5", "*;q=0.5, gzip;q=0", "*;q=0, gzip", "gzip;q=0", "*;q=0", "identity;q=0, *;q=0", "zstd, gzip", "gzip, zstd", "zstd;q=0.1, gzip;q=0.9"}[r.Intn(9)]}
	default:
		return []string{genAEValue(r)}
	}
}

func genBytesValue(r *emit.Rng, serverSafe bool) string {
	n := r.Intn(24)
	b := make([]byte, n)
	alphabet := []byte("gzipstd*;q=01.,  \t/identy")
	for i := range b {
		switch {
		case r.Chance(3, 4):
			b[i] = alphabet[r.Intn(len(alphabet))]
		case serverSafe:
			b[i] = byte(33 + r.Intn(94))
		default:
			b[i] = byte(r.Intn(256))
		}
	}
	return string(b)
}

var offerPool = []string{"identity", "gzip", "zstd", "br", "", "*", "deflate"}

func genOffers(r *emit.Rng) []string {
	switch r.Intn(8) {
	case 0, 1:
		return nil
	case 2:
		return []string{"gzip"}
	case 3:
		return []string{"zstd", "gzip"}
	case 4:
		return []string{"identity", "gzip", "zstd"}
	}
	n := 1 + r.Intn(4)
	var out []string
	for i := 0; i < n; i++ {
		out = append(out, offerPool[r.Intn(len(offerPool))])
	}
	return out
}

// ---------------------------------------------------------------- families

var strPool = []string{"", "plain", "with space", "quo\"te", "back\\slash", "new\nline", "tab\tchar", "unicode é ✓", "{brace}", "a=b,c", "#hash", "\\n literal"}

func genFloat(r *emit.Rng) float64 {
	if r.Chance(1, 3) {
		return []float64{math.NaN(), math.Inf(1), math.Inf(-1), 0, math.Copysign(0, -1), 1e-300, math.MaxFloat64, 1.5, -2.25, 1e21}[r.Intn(10)]
	}
	return r.AnyFloat()
}

func genLabels(r *emit.Rng, k int) []*dto.LabelPair {
	var out []*dto.LabelPair
	for i := 0; i < k; i++ {
		out = append(out, &dto.LabelPair{Name: proto.String(fmt.Sprintf("l%d", i)), Value: proto.String(strPool[r.Intn(len(strPool))])})
	}
	return out
}

func genExemplar(r *emit.Rng) *dto.Exemplar {
	e := &dto.Exemplar{Label: []*dto.LabelPair{{Name: proto.String("trace_id"), Value: proto.String(strPool[r.Intn(len(strPool))])}}, Value: proto.Float64(genFloat(r))}
	if r.Bool() {
		e.Timestamp = &timestamppb.Timestamp{Seconds: int64(r.Intn(2000000000)), Nanos: int32(r.Intn(1000) * 1000000)}
	}
	return e
}

func genFamily(r *emit.Rng, idx int) *dto.MetricFamily {
	kind := r.Intn(7)
	name := fmt.Sprintf("m%02d_%s", idx, []string{"requests_total", "temp", "thing", "latency", "size_bytes", "native", "created_total"}[kind])
	mf := &dto.MetricFamily{Name: proto.String(name)}
	if !r.Chance(1, 6) {
		mf.Help = proto.String(strPool[r.Intn(len(strPool))])
	}
	nm := 1 + r.Intn(3)
	nl := r.Intn(3)
	for j := 0; j < nm; j++ {
		m := &dto.Metric{Label: genLabels(r, nl)}
		if nl > 0 { // keep the label sets of one family distinct
			m.Label[0].Value = proto.String(fmt.Sprintf("%d-%s", j, m.Label[0].GetValue()))
		} else if j > 0 {
			break
		}
		if r.Chance(1, 4) {
			m.TimestampMs = proto.Int64(int64(r.Intn(2000000000))*1000 - 1000000000)
		}
		ct := &timestamppb.Timestamp{Seconds: int64(1600000000 + r.Intn(1000)), Nanos: int32(r.Intn(1000) * 1000)}
		switch kind {
		case 0, 6:
			mf.Type = dto.MetricType_COUNTER.Enum()
			m.Counter = &dto.Counter{Value: proto.Float64(genFloat(r))}
			if r.Bool() {
				m.Counter.Exemplar = genExemplar(r)
			}
			if kind == 6 || r.Bool() {
				m.Counter.CreatedTimestamp = ct
			}
		case 1:
			mf.Type = dto.MetricType_GAUGE.Enum()
			m.Gauge = &dto.Gauge{Value: proto.Float64(genFloat(r))}
		case 2:
			mf.Type = dto.MetricType_UNTYPED.Enum()
			m.Untyped = &dto.Untyped{Value: proto.Float64(genFloat(r))}
		case 3:
			mf.Type = dto.MetricType_SUMMARY.Enum()
			s := &dto.Summary{SampleCount: proto.Uint64(uint64(r.Intn(1000))), SampleSum: proto.Float64(genFloat(r))}
			for _, q := range []float64{0.5, 0.9, 0.99}[:r.Intn(4)] {
				s.Quantile = append(s.Quantile, &dto.Quantile{Quantile: proto.Float64(q), Value: proto.Float64(genFloat(r))})
			}
			if r.Bool() {
				s.CreatedTimestamp = ct
			}
			m.Summary = s
		case 4:
			mf.Type = dto.MetricType_HISTOGRAM.Enum()
			h := &dto.Histogram{SampleCount: proto.Uint64(uint64(r.Intn(1000))), SampleSum: proto.Float64(genFloat(r))}
			cum := uint64(0)
			for _, ub := range []float64{0.1, 1, 2.5, 10}[:r.Intn(5)] {
				cum += uint64(r.Intn(10))
				b := &dto.Bucket{CumulativeCount: proto.Uint64(cum), UpperBound: proto.Float64(ub)}
				if r.Chance(1, 3) {
					b.Exemplar = genExemplar(r)
				}
				h.Bucket = append(h.Bucket, b)
			}
			if r.Bool() {
				h.CreatedTimestamp = ct
			}
			m.Histogram = h
		case 5:
			mf.Type = dto.MetricType_HISTOGRAM.Enum()
			h := &dto.Histogram{SampleCount: proto.Uint64(uint64(r.Intn(1000))), SampleSum: proto.Float64(genFloat(r)),
				Schema: proto.Int32(int32(r.Intn(13) - 4)), ZeroThreshold: proto.Float64(math.Ldexp(1, -128)), ZeroCount: proto.Uint64(uint64(r.Intn(5)))}
			h.PositiveSpan = []*dto.BucketSpan{{Offset: proto.Int32(int32(r.Intn(9) - 4)), Length: proto.Uint32(2)}, {Offset: proto.Int32(int32(1 + r.Intn(3))), Length: proto.Uint32(1)}}
			h.PositiveDelta = []int64{int64(1 + r.Intn(5)), int64(r.Intn(5) - 2), int64(r.Intn(3))}
			if r.Bool() {
				h.NegativeSpan = []*dto.BucketSpan{{Offset: proto.Int32(0), Length: proto.Uint32(1)}}
				h.NegativeDelta = []int64{int64(1 + r.Intn(4))}
			}
			if r.Bool() {
				h.Exemplars = []*dto.Exemplar{genExemplar(r)}
			}
			if r.Bool() { // classic buckets alongside the native ones
				h.Bucket = []*dto.Bucket{{CumulativeCount: proto.Uint64(3), UpperBound: proto.Float64(1)}}
			}
			m.Histogram = h
		}
		mf.Metric = append(mf.Metric, m)
	}
	return mf
}

// a family every text encoder refuses before writing anything (no metrics); protobuf encoders accept it
func genBrokenFamily(idx int) *dto.MetricFamily {
	return &dto.MetricFamily{Name: proto.String(fmt.Sprintf("m%02d_empty", idx)), Type: dto.MetricType_GAUGE.Enum(), Help: proto.String("no metrics")}
}

// ---------------------------------------------------------------- scripted gatherer

type scriptG struct {
	fams      []*dto.MetricFamily
	err       error
	gathers   int32
	dones     int32
	cur, peak int32
	wipe      bool                // done() resets the families, as a caching gatherer may
	real      prometheus.Gatherer // when set, Gather is answered by a real prometheus.Registry
	// blocking mode (sched/stress)
	block   bool
	yield   int
	entered chan int
	mu      sync.Mutex
	pending *blockedCall // set by the scheduler before it starts a request
}

type blockedCall struct {
	release chan struct{}
	doneCh  chan struct{} // closed by done() of this gather (transactional gatherers only)
	fail    bool
}

func (g *scriptG) enter() {
	c := atomic.AddInt32(&g.cur, 1)
	for {
		p := atomic.LoadInt32(&g.peak)
		if c <= p || atomic.CompareAndSwapInt32(&g.peak, p, c) {
			break
		}
	}
}

func (g *scriptG) gatherCommon() ([]*dto.MetricFamily, error) {
	fams, err, _ := g.gatherCall()
	return fams, err
}

func (g *scriptG) gatherCall() ([]*dto.MetricFamily, error, *blockedCall) {
	var mine *blockedCall
	atomic.AddInt32(&g.gathers, 1)
	g.enter()
	defer atomic.AddInt32(&g.cur, -1)
	err := g.err
	if g.block {
		g.mu.Lock()
		call := g.pending
		g.pending = nil
		g.mu.Unlock()
		if call != nil {
			mine = call
			g.entered <- 1
			<-call.release
			if call.fail {
				err = errors.New("scripted failure")
			}
		}
	}
	for i := 0; i < g.yield; i++ {
		runtime.Gosched()
	}
	if g.real != nil {
		fams, err := g.real.Gather()
		return fams, err, mine
	}
	return g.fams, err, mine
}

// a collector that fails completely: a real Registry then returns an empty, non-nil slice and an error
type failingCollector struct{ desc *prometheus.Desc }

func (f failingCollector) Describe(ch chan<- *prometheus.Desc) { ch <- f.desc }
func (f failingCollector) Collect(ch chan<- prometheus.Metric) {
	ch <- prometheus.NewInvalidMetric(f.desc, errors.New("collector broke"))
}

type plainG struct{ g *scriptG }

func (p plainG) Gather() ([]*dto.MetricFamily, error) { return p.g.gatherCommon() }

type transG struct{ g *scriptG }

func (t transG) Gather() ([]*dto.MetricFamily, func(), error) {
	fams, err, call := t.g.gatherCall()
	return fams, func() {
		atomic.AddInt32(&t.g.dones, 1)
		if call != nil && call.doneCh != nil {
			close(call.doneCh)
		}
		if t.g.wipe {
			for _, mf := range fams {
				mf.Reset()
			}
		}
	}, err
}

// ---------------------------------------------------------------- one request

type reqCase struct {
	policy      int
	disable     bool
	offered     []string
	ae          []string // nil: header absent
	accept      string
	hasAccept   bool
	zstd        int // 0 absent, 1 real, 2 failing
	fams        []*dto.MetricFamily
	gerr        error
	limit       int
	prefill     int
	openMetrics bool
	created     bool
	registry    int // 0 none, 1 fresh, 2 shared with an earlier handler (AlreadyRegistered path)
	transact    bool
	server      bool
	timeout     bool   // HandlerOpts.Timeout of an hour: the handler runs inside http.TimeoutHandler, which never fires
	pair        string // directed option-interaction case, for the histogram
	emptyShape  int    // nothing gathered: 0 nil slice, 1 empty non-nil slice, 2 a real Registry whose only collector fails
}

var realZstd = promhttp.VerifZstdWriter()

func setZstd(state int) {
	switch state {
	case 0:
		promhttp.VerifSetZstdWriter(nil)
	case 1:
		promhttp.VerifSetZstdWriter(realZstd)
	default:
		promhttp.VerifSetZstdWriter(func(io.Writer) (io.Writer, func(), error) {
			return nil, func() {}, errors.New("scripted zstd failure")
		})
	}
}

func errCounters(reg *prometheus.Registry) (g, e int64) {
	mfs, _ := reg.Gather()
	for _, mf := range mfs {
		if mf.GetName() != "promhttp_metric_handler_errors_total" {
			continue
		}
		for _, m := range mf.Metric {
			for _, l := range m.Label {
				if l.GetName() == "cause" && l.GetValue() == "gathering" {
					g = int64(m.GetCounter().GetValue())
				}
				if l.GetName() == "cause" && l.GetValue() == "encoding" {
					e = int64(m.GetCounter().GetValue())
				}
			}
		}
	}
	return
}

func newEncoder(w io.Writer, ct expfmt.Format, created bool) expfmt.Encoder {
	if created {
		return expfmt.NewEncoder(w, ct, expfmt.WithCreatedLines())
	}
	return expfmt.NewEncoder(w, ct)
}

type reqResult struct {
	term       string
	nontrivial bool
	tags       []string
	selfcheck  string
}

// runs one request through the real handler and renders the case
func runRequest(c *reqCase) reqResult {
	setZstd(c.zstd)
	defer setZstd(1)
	ref := make([]*dto.MetricFamily, len(c.fams))
	for i, mf := range c.fams {
		ref[i] = proto.Clone(mf).(*dto.MetricFamily)
	}
	g := &scriptG{fams: c.fams, err: c.gerr, wipe: c.transact, entered: make(chan int, 64)}
	if len(c.fams) == 0 {
		switch c.emptyShape {
		case 1:
			g.fams = []*dto.MetricFamily{}
		case 2:
			if c.gerr != nil {
				rr := prometheus.NewRegistry()
				rr.MustRegister(failingCollector{prometheus.NewDesc("broken_metric", "always fails", nil, nil)})
				_, c.gerr = rr.Gather() // the error text the handler will report
				g.real = rr
			}
		default:
			g.fams = nil
		}
	}
	opts := promhttp.HandlerOpts{
		ErrorHandling:                       promhttp.HandlerErrorHandling(c.policy),
		DisableCompression:                  c.disable,
		MaxRequestsInFlight:                 c.limit,
		EnableOpenMetrics:                   c.openMetrics,
		EnableOpenMetricsTextCreatedSamples: c.created,
		ErrorLog:                            log.New(io.Discard, "", 0),
	}
	if c.timeout {
		opts.Timeout = time.Hour
	}
	for _, o := range c.offered {
		opts.OfferedCompressions = append(opts.OfferedCompressions, promhttp.Compression(o))
	}
	var reg *prometheus.Registry
	if c.registry > 0 {
		reg = prometheus.NewRegistry()
		opts.Registry = reg
		if c.registry == 2 {
			_ = promhttp.HandlerFor(prometheus.NewRegistry(), opts) // registers the counter first
		}
	}
	var inner http.Handler
	if c.transact {
		inner = promhttp.HandlerForTransactional(transG{g}, opts)
	} else {
		inner = promhttp.HandlerFor(plainG{g}, opts)
	}
	var seenAE []string
	var ct expfmt.Format
	h := http.HandlerFunc(func(w http.ResponseWriter, r *http.Request) {
		if r.Header.Get("X-Verif-Observed") == "1" {
			seenAE = append([]string(nil), r.Header["Accept-Encoding"]...)
			if c.openMetrics {
				ct = expfmt.NegotiateIncludingOpenMetrics(r.Header)
			} else {
				ct = expfmt.Negotiate(r.Header)
			}
		}
		inner.ServeHTTP(w, r)
	})

	// requests already holding the semaphore when the observed one arrives
	g.block = true
	var held []*blockedCall
	var heldDone []chan struct{}
	for k := 0; k < c.prefill; k++ {
		call := &blockedCall{release: make(chan struct{})}
		g.mu.Lock()
		g.pending = call
		g.mu.Unlock()
		done := make(chan struct{})
		go func() {
			defer close(done)
			defer func() { recover() }()
			req := httptest.NewRequest("GET", "/metrics", nil)
			h.ServeHTTP(httptest.NewRecorder(), req)
		}()
		select {
		case <-g.entered:
			held = append(held, call)
			heldDone = append(heldDone, done)
		case <-done: // rejected (cannot happen while prefill <= limit)
			g.mu.Lock()
			g.pending = nil
			g.mu.Unlock()
		}
	}
	inflight := len(held)
	g0, d0 := atomic.LoadInt32(&g.gathers), atomic.LoadInt32(&g.dones)
	var cg0, ce0 int64
	if reg != nil {
		cg0, ce0 = errCounters(reg)
	}

	var status int
	var hdr http.Header
	var body []byte
	panicked := false
	if c.server {
		srv := httptest.NewUnstartedServer(h)
		srv.Config.ErrorLog = log.New(io.Discard, "", 0)
		srv.Start()
		req, _ := http.NewRequest("GET", srv.URL+"/metrics", nil)
		req.Header.Set("X-Verif-Observed", "1")
		if c.ae != nil {
			req.Header["Accept-Encoding"] = c.ae
		}
		if c.hasAccept {
			req.Header.Set("Accept", c.accept)
		}
		tr := &http.Transport{DisableCompression: true}
		resp, err := (&http.Client{Transport: tr}).Do(req)
		if err != nil {
			panicked = true
		} else {
			status = resp.StatusCode
			hdr = resp.Header
			body, err = io.ReadAll(resp.Body)
			if err != nil {
				panicked = true
			}
			resp.Body.Close()
		}
		tr.CloseIdleConnections()
		srv.Close()
	} else {
		req := httptest.NewRequest("GET", "/metrics", nil)
		req.Header.Set("X-Verif-Observed", "1")
		if c.ae != nil {
			req.Header["Accept-Encoding"] = c.ae
		}
		if c.hasAccept {
			req.Header.Set("Accept", c.accept)
		}
		rec := httptest.NewRecorder()
		func() {
			defer func() {
				if recover() != nil {
					panicked = true
				}
			}()
			h.ServeHTTP(rec, req)
		}()
		status = rec.Code
		hdr = rec.Header()
		body = rec.Body.Bytes()
	}
	gathers := int(atomic.LoadInt32(&g.gathers) - g0)
	dones := int(atomic.LoadInt32(&g.dones) - d0)
	if !c.transact {
		dones = gathers // the adapter's done() is a no-op and cannot be observed
	}
	counters := emit.None()
	if reg != nil {
		cg, ce := errCounters(reg)
		counters = emit.Some(emit.Tup(emit.Z(cg-cg0), emit.Z(ce-ce0)))
	}
	for i, call := range held {
		close(call.release)
		<-heldDone[i]
	}

	// ---- reference encodings through the same library (external oracle) ----
	res := reqResult{}
	chunks := make([][]byte, len(ref))
	encfail := make([]bool, len(ref))
	var full bytes.Buffer
	fullEnc := newEncoder(&full, ct, c.created)
	for i, mf := range ref {
		var b bytes.Buffer
		err := newEncoder(&b, ct, c.created).Encode(mf)
		if err != nil {
			encfail[i] = true
			if b.Len() != 0 {
				res.selfcheck = "a refused family left bytes behind"
			}
			continue
		}
		chunks[i] = b.Bytes()
		_ = fullEnc.Encode(mf)
	}
	var trailer bytes.Buffer
	if cl, ok := newEncoder(&trailer, ct, c.created).(expfmt.Closer); ok {
		_ = cl.Close()
	}
	if cl, ok := fullEnc.(expfmt.Closer); ok {
		_ = cl.Close()
	}
	var concat []byte
	for _, ch := range chunks {
		concat = append(concat, ch...)
	}
	concat = append(concat, trailer.Bytes()...)
	if !bytes.Equal(concat, full.Bytes()) {
		res.selfcheck = "encoder output is not the concatenation of per-family encodings"
	}

	// ---- observables ----
	cencHdr, hasCenc := "", false
	if v, ok := hdr["Content-Encoding"]; ok && len(v) > 0 {
		cencHdr, hasCenc = v[0], true
	}
	ctHdr := hdr.Get("Content-Type")
	plain := false
	decompOK := false
	complete := false
	var chunkIdx []string
	if !panicked {
		switch status {
		case 500:
			want := "An error has occurred while serving metrics:\n\n"
			if c.gerr != nil {
				want += c.gerr.Error()
			}
			plain = ctHdr == "text/plain; charset=utf-8" && string(body) == want+"\n"
			if !plain { // anything else in the body is reported as foreign bytes
				chunkIdx = append(chunkIdx, "-1")
			}
		case 503:
			plain = ctHdr == "text/plain; charset=utf-8" &&
				string(body) == fmt.Sprintf("Limit of concurrent requests reached (%d), try again later.\n", c.limit)
		default:
			var dec []byte
			var err error
			switch {
			case !hasCenc:
				dec = body
			case cencHdr == "gzip":
				var zr *gzip.Reader
				zr, err = gzip.NewReader(bytes.NewReader(body))
				if err == nil {
					dec, err = io.ReadAll(zr)
				}
			case cencHdr == "zstd":
				var zr *kzstd.Decoder
				zr, err = kzstd.NewReader(bytes.NewReader(body))
				if err == nil {
					dec, err = io.ReadAll(zr)
					zr.Close()
				}
			default:
				err = errors.New("unknown content encoding")
			}
			decompOK = err == nil
			if decompOK {
				p := 0
				for {
					rest := dec[p:]
					if bytes.Equal(rest, trailer.Bytes()) {
						complete = true
						break
					}
					found := -1
					for i, ch := range chunks {
						if len(ch) > 0 && bytes.HasPrefix(rest, ch) {
							found = i
							break
						}
					}
					if found < 0 {
						if len(rest) > 0 {
							chunkIdx = append(chunkIdx, "-1")
						}
						break
					}
					chunkIdx = append(chunkIdx, emit.I(found))
					p += len(chunks[found])
				}
				// the codec hypothesis decode(encode fs) = fs, checked where a decoder exists
				if complete && !roundTrips(dec, ct, ref, chunkIdx) {
					decompOK = false
					res.selfcheck = "decoded body does not parse back to the gathered families"
				}
			}
		}
	}
	var mfs []string
	anyEncFail := false
	for i := range ref {
		mfs = append(mfs, emit.Tup(emit.I(i), emit.B(encfail[i])))
		anyEncFail = anyEncFail || encfail[i]
	}
	cenc := emit.None()
	if hasCenc {
		cenc = emit.Some(emit.S(cencHdr))
	}
	aeIn := seenAE
	impl := emit.Tup(emit.I(status), emit.S(ctHdr), cenc, emit.B(plain), emit.B(decompOK), emit.L(chunkIdx), emit.B(complete),
		counters, emit.I(gathers), emit.I(dones), emit.B(panicked))
	if panicked { // nothing but the panic, the counters and the call counts is compared
		impl = emit.Tup(emit.I(0), emit.S(""), emit.None(), emit.B(false), emit.B(false), emit.L(nil), emit.B(false),
			counters, emit.I(gathers), emit.I(dones), emit.B(true))
	}
	res.term = emit.C(1, emit.I(c.policy), emit.B(c.disable), emit.SL(c.offered), emit.SL(aeIn), emit.I(c.zstd), emit.S(string(ct)),
		emit.L(mfs), emit.B(c.gerr != nil), emit.B(false), emit.I(c.limit), emit.I(inflight), emit.B(trailer.Len() > 0), emit.B(reg != nil), impl)
	res.nontrivial = c.gerr != nil || hasCenc || anyEncFail || status == 503
	res.tags = []string{
		fmt.Sprintf("policy:%d", c.policy), fmt.Sprintf("status:%d", status), "cenc:" + map[bool]string{true: cencHdr, false: "none"}[hasCenc],
		fmt.Sprintf("format:%d", ct.FormatType()), fmt.Sprintf("zstd-state:%d", c.zstd), famTag(len(ref)),
	}
	if c.gerr != nil {
		res.tags = append(res.tags, map[bool]string{true: "gather:partial", false: "gather:failed"}[len(ref) > 0])
		if len(ref) == 0 {
			res.tags = append(res.tags, "nothing-gathered:"+[]string{"nil-slice", "empty-slice", "real-registry"}[c.emptyShape])
		}
	}
	if anyEncFail {
		res.tags = append(res.tags, "encode-failure")
	}
	if panicked {
		res.tags = append(res.tags, "panicked")
	}
	if c.disable {
		res.tags = append(res.tags, "compression-disabled")
	}
	if nEntries := strings.Count(strings.Join(aeIn, ","), ",") + 1; nEntries >= 9 {
		res.tags = append(res.tags, "accept-encoding-entries>=9")
	}
	if c.server {
		res.tags = append(res.tags, "via-server")
	}
	if c.transact {
		res.tags = append(res.tags, "transactional")
	}
	if c.prefill > 0 {
		res.tags = append(res.tags, "inflight>0")
	}
	if c.timeout {
		res.tags = append(res.tags, fmt.Sprintf("timeout-1h+policy:%d", c.policy))
	}
	if c.pair != "" {
		res.tags = append(res.tags, "pair:"+c.pair)
	}
	return res
}

// parse the decoded body back where the library has a decoder and compare with the gathered families
func roundTrips(dec []byte, ct expfmt.Format, ref []*dto.MetricFamily, idx []string) bool {
	var want []*dto.MetricFamily
	for _, s := range idx {
		var i int
		fmt.Sscanf(s, "%d", &i)
		if i < 0 || i >= len(ref) {
			return true
		}
		want = append(want, ref[i])
	}
	switch ct.FormatType() {
	case expfmt.TypeProtoDelim:
		d := expfmt.NewDecoder(bytes.NewReader(dec), ct)
		for _, w := range want {
			var got dto.MetricFamily
			if err := d.Decode(&got); err != nil || !proto.Equal(&got, w) {
				return false
			}
		}
		var extra dto.MetricFamily
		return d.Decode(&extra) == io.EOF
	case expfmt.TypeTextPlain:
		var p expfmt.TextParser
		got, err := p.TextToMetricFamilies(bytes.NewReader(dec))
		if err != nil || len(got) != len(want) {
			return false
		}
		for _, w := range want {
			gf, ok := got[w.GetName()]
			if !ok || gf.GetType() != w.GetType() || len(gf.Metric) != len(w.Metric) {
				return false
			}
			if w.Help != nil && gf.GetHelp() != w.GetHelp() {
				return false
			}
			for j, m := range w.Metric {
				gm := gf.Metric[j]
				if len(gm.Label) != len(m.Label) {
					return false
				}
				for k, l := range m.Label {
					if gm.Label[k].GetName() != l.GetName() || gm.Label[k].GetValue() != l.GetValue() {
						return false
					}
				}
				var a, b float64
				switch w.GetType() {
				case dto.MetricType_COUNTER:
					a, b = gm.GetCounter().GetValue(), m.GetCounter().GetValue()
				case dto.MetricType_GAUGE:
					a, b = gm.GetGauge().GetValue(), m.GetGauge().GetValue()
				case dto.MetricType_UNTYPED:
					a, b = gm.GetUntyped().GetValue(), m.GetUntyped().GetValue()
				}
				if !(a == b || (a != a && b != b)) {
					return false
				}
			}
		}
	}
	return true
}

var accepts = []string{
	"*/*", "text/plain", "text/plain;version=0.0.4", "text/plain;version=1.0.0;escaping=allow-utf-8",
	"application/openmetrics-text", "application/openmetrics-text;version=1.0.0", "application/openmetrics-text; version=0.0.1",
	"application/openmetrics-text;version=1.0.0,text/plain;version=0.0.4;q=0.5,*/*;q=0.1",
	"application/vnd.google.protobuf;proto=io.prometheus.client.MetricFamily;encoding=delimited",
	"application/vnd.google.protobuf;proto=io.prometheus.client.MetricFamily;encoding=text",
	"application/vnd.google.protobuf;proto=io.prometheus.client.MetricFamily;encoding=compact-text",
	"application/vnd.google.protobuf;proto=io.prometheus.client.MetricFamily;encoding=delimited;q=0.7,text/plain;q=0.3",
	"application/json", "garbage;;", "",
	"image/png, image/jpeg;q=0.9, image/gif;q=0.8, text/html;q=0.7, application/xml;q=0.6, application/json;q=0.5, text/css;q=0.4, text/csv;q=0.3, application/openmetrics-text;version=1.0.0;q=0.95, text/plain;version=0.0.4;q=0.2",
	"a/b;q=0.1, c/d;q=0.1, e/f;q=0.1, g/h;q=0.1, i/j;q=0.1, k/l;q=0.1, m/n;q=0.1, o/p;q=0.1, q/r;q=0.1, application/vnd.google.protobuf;proto=io.prometheus.client.MetricFamily;encoding=delimited",
	"a/b, c/d, e/f, g/h, i/j, k/l, m/n, o/p, q/r, s/t, u/v, text/plain;version=0.0.4;q=0.5, application/openmetrics-text;version=0.0.1;q=0.6",
}

var plausibleAE = []string{"gzip", "zstd", "gzip, deflate, br", "gzip, deflate, br, zstd", "zstd;q=1.0, gzip;q=0.8", "gzip;q=1.0, zstd;q=0.8", "*",
	"identity", "gzip;q=0.5, zstd;q=0.5", "zstd;q=0.5, gzip;q=0.5", "*;q=0.1, gzip;q=0", "*;q=0.3, zstd;q=0", "br, *;q=0.2", "identity;q=0, gzip",
	"gzip;q=0, *;q=0.1", "zstd;q=0, *", "gzip;q=0.001", "zstd;q=0.000, gzip;q=0.001", "deflate, gzip;q=0.9, identity;q=1", "x-gzip, gzip"}

func famTag(n int) string {
	if n >= 63 {
		return "families:63-300"
	}
	return fmt.Sprintf("families:%d", n)
}

func genReqCase(r *emit.Rng, server bool) *reqCase {
	c := &reqCase{server: server}
	c.policy = []int{0, 0, 0, 1, 1, 1, 2, 2, 3}[r.Intn(9)]
	c.disable = r.Chance(1, 8)
	c.offered = genOffers(r)
	if server {
		switch r.Intn(6) {
		case 0:
			c.ae = nil
		case 1:
			c.ae = []string{genBytesValue(r, true)}
		default:
			c.ae = genAE(r)
		}
	} else {
		c.ae = genAE(r)
	}
	if r.Chance(2, 5) {
		c.ae = []string{plausibleAE[r.Intn(len(plausibleAE))]}
	}
	if r.Chance(1, 12) {
		c.ae = genLongAE(r)
	}
	if r.Chance(5, 6) {
		c.hasAccept = true
		c.accept = accepts[r.Intn(len(accepts))]
	}
	c.zstd = []int{1, 1, 1, 0, 0, 2}[r.Intn(6)]
	n := []int{0, 1, 1, 2, 3, 5, 8}[r.Intn(7)]
	many := r.Chance(1, 10) // many families in one response (periodic work in the encode loop), with and without Timeout
	if many {
		n = []int{64, 65, 100, 300, 63, 128, 129}[r.Intn(7)]
	}
	for i := 0; i < n; i++ {
		if r.Chance(1, 9) {
			c.fams = append(c.fams, genBrokenFamily(i))
		} else {
			c.fams = append(c.fams, genFamily(r, i))
		}
	}
	switch r.Intn(5) {
	case 0:
		c.gerr = errors.New("collect failed: " + strPool[r.Intn(len(strPool))])
	case 1:
		c.gerr = prometheus.MultiError{errors.New("first"), errors.New("second error\nwith a line break")}
		if r.Bool() {
			c.fams = nil
		}
	}
	c.emptyShape = r.Intn(3)
	c.timeout = r.Chance(1, 4)
	if many {
		c.timeout = r.Bool()
	}
	switch r.Intn(16) {
	case 0, 1: // DisableCompression x OfferedCompressions: disabling wins whatever is offered and accepted
		c.pair = "disable+offers"
		c.disable = true
		c.offered = [][]string{{"gzip"}, {"zstd", "gzip"}, {"identity", "gzip", "zstd"}, {"zstd"}}[r.Intn(4)]
		c.ae = []string{[]string{"gzip", "zstd", "gzip, zstd", "*"}[r.Intn(4)]}
	case 2, 3: // EnableOpenMetrics x compression: OpenMetrics body (with its EOF trailer) inside gzip/zstd
		c.pair = "openmetrics+compression"
		c.openMetrics = true
		c.disable = false
		c.hasAccept = true
		c.accept = []string{"application/openmetrics-text;version=1.0.0", "application/openmetrics-text; version=0.0.1", "application/openmetrics-text;version=1.0.0,text/plain;version=0.0.4;q=0.5,*/*;q=0.1"}[r.Intn(3)]
		c.ae = []string{[]string{"gzip", "zstd", "zstd, gzip;q=0.5", "gzip;q=0.9, zstd;q=0.1"}[r.Intn(4)]}
		c.zstd = 1
		if r.Bool() {
			c.offered = nil
		}
	case 4: // ErrorHandling x Timeout: every policy inside the TimeoutHandler, failing gather
		c.pair = "policy+timeout"
		c.timeout = true
		if c.gerr == nil {
			c.gerr = errors.New("failed inside the timeout handler")
		}
	}
	if r.Chance(1, 8) { // directed: a total failure in each shape, every policy, with and without compression
		c.fams = nil
		c.gerr = errors.New("everything failed")
		c.policy = []int{0, 1, 1, 1, 2}[r.Intn(5)]
		if r.Bool() {
			c.ae = []string{[]string{"gzip", "zstd", "gzip, zstd"}[r.Intn(3)]}
			c.disable = false
		}
	}
	c.limit = []int{0, 0, -1, 1, 2, 3}[r.Intn(6)]
	if c.limit > 0 && !server && r.Chance(1, 3) {
		c.prefill = r.Intn(c.limit + 1)
	}
	if om := r.Chance(2, 3); c.pair != "openmetrics+compression" {
		c.openMetrics = om
	}
	c.created = r.Chance(1, 3)
	c.registry = []int{0, 1, 1, 1, 2}[r.Intn(5)]
	c.transact = r.Chance(4, 5)
	if server && c.limit > 0 {
		c.prefill = 0
	}
	return c
}

// ---------------------------------------------------------------- concurrent schedules

type schedResult struct {
	term string
	tags []string
	fail string
	skip bool // a wall-clock race made the run inconclusive; the case is not emitted
}

// tmode: 0 no Timeout, 1 Timeout of an hour (never fires), 2 Timeout of 10ms that fires for every request that is
// let in before its gather is released (the driver waits for the timeout answer; no other wall-clock dependence)
func runSchedule(r *emit.Rng, limit, threads, steps int, withPanics bool, tmode int) schedResult {
	setZstd(1)
	g := &scriptG{fams: []*dto.MetricFamily{genFamily(r, 0)}, block: true, entered: make(chan int, 64)}
	policy := promhttp.HTTPErrorOnError
	if withPanics {
		policy = promhttp.PanicOnError
	}
	opts := promhttp.HandlerOpts{MaxRequestsInFlight: limit, ErrorHandling: policy}
	switch tmode {
	case 1:
		opts.Timeout = time.Hour
	case 2:
		opts.Timeout = 10 * time.Millisecond
	}
	limitBody := fmt.Sprintf("Limit of concurrent requests reached (%d), try again later.\n", limit)
	timeoutBody := fmt.Sprintf("Exceeded configured timeout of %v.\n", opts.Timeout)
	h := promhttp.HandlerForTransactional(transG{g}, opts)
	const (
		rPanic = iota
		rOK
		rLimit
		rTimeout
		rOther
	)
	type thr struct {
		call     *blockedCall
		done     chan int
		running  bool
		started  bool
		timedOut bool
	}
	ths := make([]*thr, threads)
	for i := range ths {
		ths[i] = &thr{}
	}
	var evs, outs []string
	n503 := 0
	res := schedResult{}
	base := runtime.NumGoroutine()
	// goroutines the schedule legitimately keeps alive right now
	expected := func() int {
		n := base
		for _, th := range ths {
			switch {
			case th.running && th.timedOut:
				n++ // the wrapped handler function, still gathering
			case th.running && tmode > 0:
				n += 2
			case th.running:
				n++
			}
		}
		return n
	}
	settle := func() {
		for i := 0; i < 200000 && runtime.NumGoroutine() > expected(); i++ {
			runtime.Gosched()
			if i > 1000 {
				time.Sleep(10 * time.Microsecond)
			}
		}
		if runtime.NumGoroutine() > expected() {
			res.skip = true
		}
	}
	var timedOut func(t int, emitEvent bool)
	start := func(t int) {
		th := ths[t]
		evs = append(evs, emit.C(0, emit.I(t)))
		if th.started {
			outs = append(outs, "0")
			return
		}
		th.started = true
		th.call = &blockedCall{release: make(chan struct{}), doneCh: make(chan struct{})}
		th.done = make(chan int, 1)
		g.mu.Lock()
		g.pending = th.call
		g.mu.Unlock()
		go func() {
			rec := httptest.NewRecorder()
			defer func() {
				if recover() != nil {
					th.done <- rPanic
					return
				}
				switch {
				case rec.Code == 200:
					th.done <- rOK
				case rec.Code == 503 && rec.Body.String() == limitBody:
					th.done <- rLimit
				case rec.Code == 503 && tmode > 0 && rec.Body.String() == timeoutBody:
					th.done <- rTimeout
				default:
					th.done <- rOther
				}
			}()
			h.ServeHTTP(rec, httptest.NewRequest("GET", "/metrics", nil))
		}()
		select {
		case <-g.entered:
			th.running = true
			outs = append(outs, "1")
		case code := <-th.done:
			switch code {
			case rLimit:
				g.mu.Lock()
				g.pending = nil
				g.mu.Unlock()
				n503++
				outs = append(outs, "2")
			case rTimeout:
				// the timeout fired before the gather was even entered (a stalled machine): wait for the gather
				select {
				case <-g.entered:
					th.running = true
					th.timedOut = true
					outs = append(outs, "1")
					evs = append(evs, emit.C(2, emit.I(t)))
					outs = append(outs, "3")
				case <-time.After(5 * time.Second):
					res.skip = true
					outs = append(outs, "0")
				}
			default:
				g.mu.Lock()
				g.pending = nil
				g.mu.Unlock()
				res.fail = fmt.Sprintf("request %d finished with result %d without gathering", t, code)
				outs = append(outs, "9")
			}
		}
	}
	timedOut = func(t int, emitEvent bool) {
		th := ths[t]
		evs = append(evs, emit.C(2, emit.I(t)))
		if !th.running {
			outs = append(outs, "0")
			return
		}
		code := <-th.done // the TimeoutHandler answers while the gather is still blocked
		th.timedOut = true
		if code == rTimeout {
			outs = append(outs, "3")
		} else {
			res.fail = fmt.Sprintf("request %d: wanted the timeout answer, got result %d", t, code)
			outs = append(outs, "9")
		}
	}
	end := func(t int, p bool) {
		th := ths[t]
		if th.running && tmode == 2 && !th.timedOut {
			timedOut(t, true)
		}
		evs = append(evs, emit.C(1, emit.I(t), emit.B(p)))
		outs = append(outs, "0")
		if !th.running {
			return
		}
		th.call.fail = p
		close(th.call.release)
		if th.timedOut {
			<-th.call.doneCh // done() of the background gather
			th.running = false
			settle() // its deferred semaphore release runs right after done()
			return
		}
		code := <-th.done
		th.running = false
		if (p && code != rPanic) || (!p && code != rOK) {
			res.fail = fmt.Sprintf("request %d ended with result %d (panic wanted: %v)", t, code, p)
		}
	}
	for s := 0; s < steps && !res.skip; s++ {
		t := r.Intn(threads)
		switch {
		case r.Chance(3, 5):
			start(t)
		case tmode == 2 && r.Chance(1, 2):
			if !(ths[t].running && ths[t].timedOut) { // a request times out once
				timedOut(t, true)
			}
		default:
			end(t, withPanics && r.Chance(1, 3))
		}
	}
	for t := range ths { // drain
		if ths[t].running {
			end(t, false)
		}
	}
	res.term = emit.C(2, emit.I(limit), emit.L(evs), emit.L(outs), emit.I(int(atomic.LoadInt32(&g.peak))),
		emit.I(int(atomic.LoadInt32(&g.gathers))), emit.I(int(atomic.LoadInt32(&g.dones))), emit.I(n503))
	res.tags = []string{fmt.Sprintf("limit:%d", limit), fmt.Sprintf("rejected:%v", n503 > 0), fmt.Sprintf("panics:%v", withPanics),
		"timeout:" + []string{"none", "1h-never-fires", "10ms-fires"}[tmode]}
	return res
}

// a ResponseWriter whose 503 header write parks until released (a slow client of a rejected request)
type parkWriter struct {
	hdr     http.Header
	code    int
	body    bytes.Buffer
	parked  chan int
	release chan struct{}
}

func (p *parkWriter) Header() http.Header { return p.hdr }
func (p *parkWriter) WriteHeader(c int) {
	if p.code == 0 {
		p.code = c
	}
	if c == 503 {
		p.parked <- c
		<-p.release
	}
}
func (p *parkWriter) Write(b []byte) (int, error) {
	if p.code == 0 {
		p.code = 200
	}
	return p.body.Write(b)
}

// directed: fill the limit, reject B and keep it parked inside its 503 write, let one gather finish, then send C:
// fewer than [limit] gathers run, so C must be served. Emitted as an ordinary schedule case.
func runParkedRejection(r *emit.Rng, limit int) schedResult {
	setZstd(1)
	res := schedResult{}
	fam := genFamily(r, 0)
	var want bytes.Buffer
	_ = expfmt.NewEncoder(&want, expfmt.NewFormat(expfmt.TypeTextPlain)).Encode(fam)
	g := &scriptG{fams: []*dto.MetricFamily{fam}, block: true, entered: make(chan int, 64)}
	h := promhttp.HandlerForTransactional(transG{g}, promhttp.HandlerOpts{MaxRequestsInFlight: limit})
	watchdog := func() <-chan time.Time { return time.After(5 * time.Second) }
	var evs, outs []string
	n503 := 0
	type run struct {
		call *blockedCall
		rec  *httptest.ResponseRecorder
		done chan struct{}
	}
	startRec := func(t int) (*run, int) { // 1 let in, 2 answered without gathering, 9 watchdog
		evs = append(evs, emit.C(0, emit.I(t)))
		x := &run{call: &blockedCall{release: make(chan struct{})}, rec: httptest.NewRecorder(), done: make(chan struct{})}
		g.mu.Lock()
		g.pending = x.call
		g.mu.Unlock()
		go func() {
			defer close(x.done)
			defer func() { recover() }()
			h.ServeHTTP(x.rec, httptest.NewRequest("GET", "/metrics", nil))
		}()
		select {
		case <-g.entered:
			return x, 1
		case <-x.done:
			g.mu.Lock()
			g.pending = nil
			g.mu.Unlock()
			return x, 2
		case <-watchdog():
			return x, 9
		}
	}
	finish := func(t int, x *run) {
		evs = append(evs, emit.C(1, emit.I(t), emit.B(false)))
		outs = append(outs, "0")
		close(x.call.release)
		select {
		case <-x.done:
		case <-watchdog():
			res.fail = "a released request did not finish"
		}
	}
	var running []*run
	for t := 0; t < limit; t++ {
		x, o := startRec(t)
		outs = append(outs, emit.I(o))
		if o != 1 {
			res.fail = "could not fill the limit"
		}
		running = append(running, x)
	}
	// B: rejected, parked in its 503 write
	bw := &parkWriter{hdr: http.Header{}, parked: make(chan int, 1), release: make(chan struct{})}
	bDone := make(chan struct{})
	evs = append(evs, emit.C(0, emit.I(limit)))
	go func() {
		defer close(bDone)
		defer func() { recover() }()
		h.ServeHTTP(bw, httptest.NewRequest("GET", "/metrics", nil))
	}()
	select {
	case <-bw.parked:
		outs = append(outs, "2")
		n503++
	case <-g.entered:
		outs = append(outs, "1")
		res.fail = "the excess request was let in"
	case <-bDone:
		outs = append(outs, "9")
		res.fail = "the excess request ended without a 503"
	case <-watchdog():
		outs = append(outs, "9")
		res.fail = "the excess request hangs"
	}
	// one gather finishes completely
	if res.fail == "" {
		finish(0, running[0])
		// C arrives while B is still parked: limit-1 gathers run
		x, o := startRec(limit + 1)
		outs = append(outs, emit.I(o))
		switch o {
		case 1:
			finish(limit+1, x)
			if x.rec.Code != 200 || !bytes.Equal(x.rec.Body.Bytes(), want.Bytes()) {
				res.fail = "request C was let in but not served what was gathered"
			}
		case 2:
			n503++
		default:
			res.fail = "request C hangs"
		}
		for t := 1; t < limit; t++ {
			finish(t, running[t])
		}
	}
	close(bw.release)
	select {
	case <-bDone:
		if res.fail == "" && (bw.code != 503 || bw.body.String() != fmt.Sprintf("Limit of concurrent requests reached (%d), try again later.\n", limit)) {
			res.fail = "request B did not get the limit 503"
		}
	case <-watchdog():
		res.fail = "request B hangs after release"
	}
	res.term = emit.C(2, emit.I(limit), emit.L(evs), emit.L(outs), emit.I(int(atomic.LoadInt32(&g.peak))),
		emit.I(int(atomic.LoadInt32(&g.gathers))), emit.I(int(atomic.LoadInt32(&g.dones))), emit.I(n503))
	res.tags = []string{fmt.Sprintf("limit:%d", limit), "parked-rejection"}
	return res
}

func runStress(r *emit.Rng, limit, reqs int) (string, []string) {
	setZstd(1)
	g := &scriptG{fams: []*dto.MetricFamily{genFamily(r, 0), genFamily(r, 1)}, yield: 1 + r.Intn(20)}
	h := promhttp.HandlerForTransactional(transG{g}, promhttp.HandlerOpts{MaxRequestsInFlight: limit})
	var wg sync.WaitGroup
	gate := make(chan struct{})
	var n200, n503, other int32
	for i := 0; i < reqs; i++ {
		wg.Add(1)
		go func() {
			defer wg.Done()
			<-gate
			rec := httptest.NewRecorder()
			req := httptest.NewRequest("GET", "/metrics", nil)
			req.Header.Set("Accept-Encoding", "gzip")
			h.ServeHTTP(rec, req)
			switch rec.Code {
			case 200:
				atomic.AddInt32(&n200, 1)
			case 503:
				atomic.AddInt32(&n503, 1)
			default:
				atomic.AddInt32(&other, 1)
			}
		}()
	}
	close(gate)
	wg.Wait()
	term := emit.C(3, emit.I(limit), emit.I(reqs), emit.I(int(n200)), emit.I(int(n503)+int(other)*1000), emit.I(int(g.peak)),
		emit.I(int(g.gathers)), emit.I(int(g.dones)))
	return term, []string{fmt.Sprintf("limit:%d", limit), fmt.Sprintf("rejected:%v", n503 > 0)}
}

// ---------------------------------------------------------------- streams

func parseCase(vals []string, offers []string) (string, bool) {
	h := http.Header{}
	if vals != nil {
		h["Accept-Encoding"] = vals
	}
	specs := promhttp.VerifParseAccept(h, "Accept-Encoding")
	var ss []string
	weighted := false
	for _, s := range specs {
		ss = append(ss, emit.Tup(emit.S(s.Value), emit.F(s.Q)))
		if s.Q != 1 || s.Value == "*" {
			weighted = true
		}
	}
	req := &http.Request{Header: h}
	sel := promhttp.VerifNegotiateContentEncoding(req, offers)
	return emit.C(0, emit.SL(vals), emit.SL(offers), emit.L(ss), emit.S(sel)), weighted
}

func runC11(c *cli.Ctx) error {
	r := emit.NewRng(c.Seed)
	var direct []map[string]interface{}

	// ---- parse: ParseAccept + NegotiateContentEncoding on grammar-generated values ----
	w := emit.NewWriter(c.Out, "C11", "parse")
	fixed := [][]string{nil, {""}, {"gzip"}, {"gzip;q=0, *;q=0.5"}, {"*;q=0.5, gzip;q=0"}, {"*;q=0"}, {"identity;q=0"}, {"gzip;q=0.000"},
		{"gzip;q=1.000"}, {"gzip;q=0." + strings.Repeat("0", 64)}, {"gzip;q=0." + strings.Repeat("0", 63) + "1"}, {"gzip;q=0.9999999999999999999"},
		{"gzip;q=0.99999999999999999999, zstd"}, {" gzip"}, {"gzip", "zstd;q=0.3"}, {"gzip;q=0", "gzip;q=1"}, {"gzip;q=1, gzip;q=0"}}
	for _, v := range fixed {
		for _, offers := range [][]string{{"identity", "gzip", "zstd"}, {"gzip"}, {"zstd", "gzip"}, nil} {
			t, nt := parseCase(v, offers)
			w.Add(t, nt, "fixed")
		}
	}
	for i := 0; i < 1500*c.Scale; i++ {
		v := genAE(r)
		offers := genOffers(r)
		if offers == nil && r.Bool() {
			offers = []string{"identity", "gzip", "zstd"}
		}
		t, nt := parseCase(v, offers)
		tags := []string{fmt.Sprintf("values:%d", len(v)), fmt.Sprintf("offers:%d", len(offers))}
		if strings.Count(strings.Join(v, ","), ",") >= 8 {
			tags = append(tags, "entries>=9")
		}
		w.Add(t, nt, tags...)
	}
	if err := w.Flush(); err != nil {
		return err
	}

	// ---- malformed: byte soup ----
	w = emit.NewWriter(c.Out, "C11", "malformed")
	for i := 0; i < 500*c.Scale; i++ {
		v := []string{genBytesValue(r, false)}
		if r.Chance(1, 5) {
			v = append(v, genBytesValue(r, false))
		}
		t, nt := parseCase(v, []string{"identity", "gzip", "zstd"})
		w.Add(t, nt, "bytes")
	}
	if err := w.Flush(); err != nil {
		return err
	}

	// ---- req: single requests on a recorder ----
	w = emit.NewWriter(c.Out, "C11", "req")
	for i := 0; i < 700*c.Scale; i++ {
		rc := genReqCase(r, false)
		res := runRequest(rc)
		if res.selfcheck != "" {
			direct = append(direct, map[string]interface{}{"index": w.Len(), "what": res.selfcheck})
		}
		w.Add(res.term, res.nontrivial, res.tags...)
	}
	w.Extra["direct_failures"] = direct
	if err := w.Flush(); err != nil {
		return err
	}

	// ---- server: single requests through a real HTTP server and client ----
	w = emit.NewWriter(c.Out, "C11", "server")
	direct = nil
	for i := 0; i < 120*c.Scale; i++ {
		rc := genReqCase(r, true)
		res := runRequest(rc)
		if res.selfcheck != "" {
			direct = append(direct, map[string]interface{}{"index": w.Len(), "what": res.selfcheck})
		}
		w.Add(res.term, res.nontrivial, res.tags...)
	}
	w.Extra["direct_failures"] = direct
	if err := w.Flush(); err != nil {
		return err
	}

	// ---- sched: scripted schedules against a blocking gatherer ----
	w = emit.NewWriter(c.Out, "C11", "sched")
	direct = nil
	for i := 0; i < 150*c.Scale; i++ {
		limit := []int{1, 1, 2, 3, 4, 0, -1}[r.Intn(7)]
		tmode := []int{0, 0, 0, 1, 1, 2}[r.Intn(6)]
		if i < 6*c.Scale { // the option interaction Timeout x MaxRequestsInFlight, small limits
			tmode, limit = 2, 1+i%2
		}
		nsteps := 4 + r.Intn(24)
		if tmode == 2 {
			nsteps = 4 + r.Intn(10)
		}
		res := runSchedule(r, limit, 2+r.Intn(6), nsteps, r.Chance(1, 3), tmode)
		if res.skip {
			w.Tag("inconclusive-timing", 1)
			continue
		}
		if res.fail != "" {
			direct = append(direct, map[string]interface{}{"index": w.Len(), "what": res.fail})
		}
		w.Add(res.term, true, res.tags...)
	}
	for i := 0; i < 6; i++ { // a rejected request parked in its 503 write must not occupy a slot
		res := runParkedRejection(r, 1+i%3)
		if res.fail != "" {
			direct = append(direct, map[string]interface{}{"index": w.Len(), "what": res.fail})
		}
		w.Add(res.term, true, res.tags...)
	}
	w.Extra["direct_failures"] = direct
	if err := w.Flush(); err != nil {
		return err
	}

	// ---- multi: 2-3 handlers on different registries (one possibly without) in one process; each registry's
	// exposed error counter must equal its own handler's failures, per cause (absolute values) ----
	w = emit.NewWriter(c.Out, "C11", "multi")
	for i := 0; i < 60*c.Scale; i++ {
		setZstd(1)
		nh := 2 + r.Intn(2)
		type hnd struct {
			h    http.Handler
			g    *scriptG
			reg  *prometheus.Registry
			g0   int64
			e0   int64
			ownG int64
			ownE int64
		}
		var hs []*hnd
		noneAt := -1
		if r.Bool() {
			noneAt = r.Intn(nh)
		}
		for k := 0; k < nh; k++ {
			x := &hnd{g: &scriptG{entered: make(chan int, 1)}}
			opts := promhttp.HandlerOpts{ErrorHandling: promhttp.ContinueOnError}
			if k != noneAt {
				x.reg = prometheus.NewRegistry()
				opts.Registry = x.reg
			}
			if r.Bool() {
				x.h = promhttp.HandlerForTransactional(transG{x.g}, opts)
			} else {
				x.h = promhttp.HandlerFor(plainG{x.g}, opts)
			}
			hs = append(hs, x)
		}
		anyFail := false
		for q := 0; q < 1+r.Intn(8); q++ {
			x := hs[r.Intn(nh)]
			x.g.fams = []*dto.MetricFamily{genFamily(r, 0)}
			broken := 0
			if r.Chance(1, 3) {
				broken = 1 + r.Intn(2)
				for b := 0; b < broken; b++ {
					x.g.fams = append(x.g.fams, genBrokenFamily(1+b))
				}
			}
			x.g.err = nil
			if r.Chance(1, 2) {
				x.g.err = errors.New("partial failure")
				x.ownG++
			}
			x.ownE += int64(broken) // text format: every family without metrics is refused by the encoder
			anyFail = anyFail || broken > 0 || x.g.err != nil
			rec := httptest.NewRecorder()
			x.h.ServeHTTP(rec, httptest.NewRequest("GET", "/metrics", nil))
		}
		var items []string
		for _, x := range hs {
			obs := emit.None()
			if x.reg != nil {
				cg, ce := errCounters(x.reg)
				obs = emit.Some(emit.Tup(emit.Z(cg), emit.Z(ce)))
			}
			items = append(items, emit.Tup(emit.Z(x.ownG), emit.Z(x.ownE), obs))
		}
		w.Add(emit.C(4, emit.L(items)), anyFail, fmt.Sprintf("handlers:%d", nh), fmt.Sprintf("one-without-registry:%v", noneAt >= 0))
	}
	if err := w.Flush(); err != nil {
		return err
	}

	// ---- stress: free-running concurrency, specification only ----
	w = emit.NewWriter(c.Out, "C11", "stress")
	for i := 0; i < 40*c.Scale; i++ {
		limit := []int{1, 2, 3, 8, 0}[r.Intn(5)]
		term, tags := runStress(r, limit, 2+r.Intn(30))
		w.Add(term, true, tags...)
	}
	if err := w.Flush(); err != nil {
		return err
	}
	return nil
}
