package main

import (
	"fmt"
	"math"
	"sort"

	"github.com/prometheus/client_golang/prometheus"
	dto "github.com/prometheus/client_model/go"

	"verifharness/internal/cli"
	"verifharness/internal/emit"
)

// C03: classic buckets follow le semantics.
// case := (bounds, ops, impl) ; op := OObs v | OWrite ; impl := IPanic | IOk (list wout)
// wout := (count, sum, list (bound, cum))

func main() { cli.Main("C03", runC03) }

func c03Layout(r *emit.Rng) ([]float64, string) {
	switch r.Intn(12) {
	case 0:
		if r.Bool() {
			return []float64{}, "layout:empty-non-nil(default)" // a slice of length zero means the default buckets too
		}
		return nil, "layout:empty(default)"
	case 1: // linear
		n := 1 + r.Intn(60)
		return prometheus.LinearBuckets(float64(r.Intn(21)-10), float64(1+r.Intn(5))/4, n), "layout:linear"
	case 2: // exponential
		n := 1 + r.Intn(40)
		return prometheus.ExponentialBuckets(math.Ldexp(1, r.Intn(20)-10), 1+float64(1+r.Intn(8))/4, n), "layout:exponential"
	case 3: // around the 35 cut-off
		n := 33 + r.Intn(5)
		return prometheus.LinearBuckets(-float64(r.Intn(20)), 0.5, n), "layout:cutoff34-37"
	case 4: // big
		n := 100 + r.Intn(300)
		bs := make([]float64, n)
		x := -float64(r.Intn(1000))
		for i := range bs {
			x += float64(1+r.Intn(16)) / 8
			bs[i] = x
		}
		return bs, "layout:big"
	case 5: // trailing +Inf
		n := 1 + r.Intn(45)
		bs := prometheus.LinearBuckets(float64(r.Intn(7)-3), 1, n)
		return append(bs, math.Inf(1)), "layout:trailing-inf"
	case 6: // invalid: not increasing / duplicates / inf in the middle / NaN
		n := 2 + r.Intn(40)
		bs := prometheus.LinearBuckets(0, 1, n)
		i := r.Intn(n - 1)
		switch r.Intn(8) {
		case 5: // the only ordering violation involves a trailing +Inf
			return append(bs[:1+r.Intn(n-1)], math.Inf(1), math.Inf(1)), "layout:invalid"
		case 6:
			return []float64{math.Inf(1), math.Inf(1)}, "layout:invalid"
		case 7:
			return append(bs[:r.Intn(3)], math.NaN(), math.Inf(1)), "layout:invalid"
		case 0:
			bs[i+1] = bs[i]
		case 1:
			bs[i], bs[i+1] = bs[i+1], bs[i]
		case 2:
			bs[i] = math.Inf(1)
		case 3:
			bs[i] = math.NaN()
		case 4:
			bs[i+1] = math.NaN()
		}
		return bs, "layout:invalid"
	case 7: // extreme magnitudes, subnormals, signed zeros
		pool := []float64{-math.MaxFloat64, -1e300, -1, -math.SmallestNonzeroFloat64, math.Copysign(0, -1), 0, math.SmallestNonzeroFloat64,
			math.Ldexp(1, -1022), 1e-300, 1, 1e300, math.MaxFloat64, math.Inf(1), math.Inf(-1)}
		var bs []float64
		for _, p := range pool {
			if r.Chance(1, 2) {
				bs = append(bs, p)
			}
		}
		if len(bs) == 0 {
			bs = []float64{0}
		}
		return bs, "layout:extreme"
	case 8: // adjacent floats
		x := r.AnyFloat()
		if x != x || math.IsInf(x, 0) {
			x = 1
		}
		n := 1 + r.Intn(50)
		bs := make([]float64, n)
		for i := range bs {
			bs[i] = x
			x = emit.Up(x)
		}
		return bs, "layout:adjacent-ulps"
	case 9: // single bound; the lone +Inf (an explicitly empty layout after trimming), -Inf and NaN are legal corner cases
		if r.Chance(1, 2) {
			return []float64{[]float64{math.Inf(1), math.Inf(-1), math.NaN(), 0, math.Copysign(0, -1), math.MaxFloat64}[r.Intn(6)]}, "layout:single-special"
		}
		return []float64{r.AnyFloat()}, "layout:single"
	default: // random sorted
		n := 1 + r.Intn(70)
		bs := make([]float64, 0, n)
		for i := 0; i < n; i++ {
			f := r.AnyFloat()
			if f == f {
				bs = append(bs, f)
			}
		}
		sort.Float64s(bs)
		// dedupe mostly
		out := bs[:0]
		for i, b := range bs {
			if i == 0 || b != bs[i-1] || r.Chance(1, 30) {
				out = append(out, b)
			}
		}
		return out, "layout:random-sorted"
	}
}

func c03Obs(r *emit.Rng, bs []float64) float64 {
	if len(bs) > 0 && r.Chance(3, 5) {
		b := bs[r.Intn(len(bs))]
		if b == b {
			switch r.Intn(3) {
			case 0:
				return b
			case 1:
				return emit.Up(b)
			default:
				return emit.Down(b)
			}
		}
	}
	return r.AnyFloat()
}

type c03Write struct {
	count uint64
	sum   float64
	bk    [][2]uint64 // bound bits, cum
}

const c03Sentinel = 12345.678

var c03CallerSliceWritten, c03Calls, c03Hybrid, c03ViaVec, c03InfBucketMismatch int

func c03RunImpl(bs []float64, ops []float64, isWrite []bool) (panicked bool, outs []c03Write) {
	var h prometheus.Histogram
	var in, backing []float64
	func() {
		defer func() {
			if e := recover(); e != nil {
				panicked = true
			}
		}()
		if bs != nil {
			// the layout is handed over as a sub-slice with spare capacity (sentinels behind it): the caller's
			// array must never be written to, neither inside the layout nor behind it
			backing = make([]float64, len(bs)+3)
			copy(backing, bs)
			for k := len(bs); k < len(backing); k++ {
				backing[k] = c03Sentinel
			}
			in = backing[:len(bs)] // non-nil even when empty
		}
		opts := prometheus.HistogramOpts{Name: "h", Help: "h", Buckets: in}
		c03Calls++
		if len(bs) > 0 && !math.IsInf(bs[0], 1) && c03Calls%3 == 0 { // (with native buckets a layout that is empty once +Inf is stripped means no classic buckets at all)
			// classic buckets keep their le semantics when native buckets are maintained next to them, also while the
			// native side hits its bucket limit (resolution halving / zero-bucket widening swap and merge the counts)
			opts.NativeHistogramBucketFactor = 1.1
			opts.NativeHistogramMaxBucketNumber = 3
			if c03Calls%2 == 0 {
				opts.NativeHistogramMaxZeroThreshold = 1
			}
			c03Hybrid++
		}
		if c03Calls%4 == 1 {
			// the same layout through a vector: every child follows the vector's layout exactly as a plain histogram would
			h = prometheus.NewHistogramVec(opts, []string{"l"}).WithLabelValues("x").(prometheus.Histogram)
			c03ViaVec++
		} else {
			h = prometheus.NewHistogram(opts)
		}
	}()
	withExemplars := c03Calls%5 == 2
	defer func() {
		for k := range backing {
			want := c03Sentinel
			if k < len(bs) {
				want = bs[k]
			}
			if math.Float64bits(backing[k]) != math.Float64bits(want) {
				c03CallerSliceWritten++
				break
			}
		}
	}()
	if panicked {
		return
	}
	for i := range ops {
		if isWrite[i] {
			var m dto.Metric
			if err := h.Write(&m); err != nil {
				panic(err)
			}
			w := c03Write{count: m.Histogram.GetSampleCount(), sum: m.Histogram.GetSampleSum()}
			for _, b := range m.Histogram.Bucket {
				ub := b.GetUpperBound()
				bits := math.Float64bits(ub)
				if ub != ub {
					bits = 0x7FF8000000000001
				}
				if withExemplars && math.IsInf(ub, 1) && b.Exemplar != nil {
					// the explicit +Inf bucket (present only as the carrier of an exemplar) is the implicit one made
					// visible: it counts every observation
					if b.GetCumulativeCount() != m.Histogram.GetSampleCount() {
						c03InfBucketMismatch++
					}
					continue
				}
				w.bk = append(w.bk, [2]uint64{bits, b.GetCumulativeCount()})
			}
			outs = append(outs, w)
			// the collected result belongs to the caller, who may modify it in place (e.g. fold scrapes together):
			// that must not influence any later collection
			for _, b := range m.Histogram.Bucket {
				if b.CumulativeCount != nil {
					*b.CumulativeCount += 7
				}
				if b.UpperBound != nil {
					*b.UpperBound = -1
				}
			}
			if m.Histogram.SampleCount != nil {
				*m.Histogram.SampleCount += 3
			}
		} else if withExemplars {
			h.(prometheus.ExemplarObserver).ObserveWithExemplar(ops[i], prometheus.Labels{"trace": "t"})
		} else {
			h.Observe(ops[i])
		}
	}
	return
}

func runC03(c *cli.Ctx) error {
	r := emit.NewRng(c.Seed)
	w := emit.NewWriter(c.Out, "C03", "seq")
	n := 300 * c.Scale
	for i := 0; i < n; i++ {
		bs, tag := c03Layout(r)
		nops := r.Intn(40)
		if r.Chance(1, 10) {
			nops = 100 + r.Intn(200)
		}
		ops := make([]float64, nops+1)
		isW := make([]bool, nops+1)
		nobs, nwr := 0, 0
		for j := 0; j < nops; j++ {
			if r.Chance(1, 6) {
				isW[j] = true
				nwr++
			} else {
				ops[j] = c03Obs(r, bs)
				nobs++
			}
		}
		isW[nops] = true // always end with a Write
		p, outs := c03RunImpl(bs, ops, isW)
		opT := make([]string, len(ops))
		for j := range ops {
			if isW[j] {
				opT[j] = emit.C(1)
			} else {
				opT[j] = emit.C(0, emit.F(ops[j]))
			}
		}
		var impl string
		if p {
			impl = emit.C(0)
		} else {
			ws := make([]string, len(outs))
			for k, o := range outs {
				bk := make([]string, len(o.bk))
				for q, b := range o.bk {
					bk[q] = emit.Pair(emit.U(b[0]), emit.U(b[1]))
				}
				ws[k] = emit.Tup(emit.U(o.count), emit.F(o.sum), emit.L(bk))
			}
			impl = emit.C(1, emit.L(ws))
		}
		tags := []string{tag}
		if p {
			tags = append(tags, "result:panic")
		} else {
			tags = append(tags, "result:ok")
		}
		if len(bs) >= 35 {
			tags = append(tags, "path:binary-search")
		} else {
			tags = append(tags, "path:linear")
		}
		if nwr > 0 {
			tags = append(tags, "interleaved-writes")
		}
		w.Add(emit.Tup(emit.FL(bs), emit.L(opT), impl), nobs >= 2 && !p, tags...)
	}
	w.Extra["runs_with_native_buckets_and_bucket_limit_next_to_the_classic_ones"] = c03Hybrid
	w.Extra["runs_through_a_HistogramVec_child"] = c03ViaVec
	if c03InfBucketMismatch > 0 {
		w.Extra["direct_failures"] = []map[string]interface{}{{"index": -1, "what": fmt.Sprintf("in %d collections the explicit +Inf bucket (exemplar carrier) did not count every observation (cumulative count != sample count)", c03InfBucketMismatch)}}
	} else if c03CallerSliceWritten > 0 {
		w.Extra["direct_failures"] = []map[string]interface{}{{"index": -1, "what": fmt.Sprintf("in %d cases the caller's Buckets array was written to (inside the layout or in its spare capacity)", c03CallerSliceWritten)}}
	}
	return w.Flush()
}
