package main

import (
	"encoding/json"
	"fmt"
	"math"
	"os"
	"os/exec"
	"regexp"
	"runtime"
	"runtime/metrics"
	"sort"
	"strconv"
	"strings"
	"sync"
	"syscall"
	"time"

	"github.com/prometheus/client_golang/prometheus"
	"github.com/prometheus/client_golang/prometheus/collectors"
	dto "github.com/prometheus/client_model/go"

	"verifharness/internal/cli"
	"verifharness/internal/emit"
)

// C18: runtime collectors are self-consistent and re-bucket without losing counts.
// Streams (wire formats in coq/theories/Run/C18_run.v):
//   hist       synthetic runtime histograms of runtime shape through RuntimeMetricsBucketsForUnit,
//              newBatchHistogram, update, Write (real code via the shim)
//   malformed  the same pipeline on inputs that are not of runtime shape (model equality only)
//   rules      matchRuntimeMetricsRules over metrics.All() for random rule lists
//   names      RuntimeMetricsToProm on the installed runtime's descriptions and synthetic ones
//   layout     sampleBuf[i] against rmExposedMetrics[i] of real collectors
//   collectors pedantic registration + concurrent gathering of the real Go and process collectors
//              (no model: violations are direct failures)

func main() {
	if os.Getenv("VERIF_C18_UNPRIV_HELPER") != "" {
		unprivHelper()
		return
	}
	cli.Main("C18", runC18)
}

var unitNames = []string{"bytes", "seconds", "objects"}

type upd struct {
	counts []uint64
	sum    float64
}

type wr struct {
	count uint64
	sum   float64
	bk    [][2]uint64
}

func bitsEqual(a, b []float64) bool {
	if len(a) != len(b) {
		return false
	}
	for i := range a {
		if math.Float64bits(a[i]) != math.Float64bits(b[i]) {
			return false
		}
	}
	return true
}

// runHist runs the real pipeline. The code under test sees ONE boundary slice `in` (as it sees the runtime's
// own, shared, slice): the re-bucketing is called twice on it, then the histogram is built and updated with it.
// unchanged: `in` is still bit-identical to the private copy ib afterwards; same: both calls returned the same.
// After every update the source histogram's Counts are overwritten in place, as the next metrics.Read does with
// the storage behind a *Float64Histogram: Write must expose the counts as they were at update time.
// gathered: the histogram, registered with a pedantic registry, is gathered without error and with the same count.
func runHist(unit string, ib []float64, hasSum bool, ups []upd) (panicked bool, hb []float64, outs []wr, unchanged, same, gathered bool) {
	defer func() {
		if e := recover(); e != nil {
			panicked = true
		}
	}()
	in := append([]float64{}, ib...)
	red := prometheus.VerifC18BucketsForUnit(in, unit)
	first := append([]float64{}, red...)
	second := prometheus.VerifC18BucketsForUnit(in, unit)
	same = bitsEqual(first, second)
	h := prometheus.VerifC18NewBatchHistogram(red, hasSum)
	hb = h.Buckets()
	for _, u := range ups {
		his := &metrics.Float64Histogram{Counts: append([]uint64{}, u.counts...), Buckets: in}
		h.Update(his, u.sum)
		for k := range his.Counts { // the runtime refills the same storage
			his.Counts[k] = his.Counts[k]*3 + uint64(k) + 7
		}
		var m dto.Metric
		if err := h.Write(&m); err != nil {
			panic(err)
		}
		w := wr{count: m.Histogram.GetSampleCount(), sum: m.Histogram.GetSampleSum()}
		for _, b := range m.Histogram.Bucket {
			ub := b.GetUpperBound()
			bits := math.Float64bits(ub)
			if ub != ub {
				bits = 0x7FF8000000000001
			}
			w.bk = append(w.bk, [2]uint64{bits, b.GetCumulativeCount()})
		}
		outs = append(outs, w)
	}
	unchanged = bitsEqual(in, ib)
	reg := prometheus.NewPedanticRegistry()
	if err := reg.Register(h.Collector()); err == nil {
		if mfs, err := reg.Gather(); err == nil && len(mfs) == 1 && len(mfs[0].Metric) == 1 && mfs[0].Metric[0].Histogram != nil {
			gathered = len(outs) == 0 || mfs[0].Metric[0].Histogram.GetSampleCount() == outs[len(outs)-1].count
		}
	}
	return
}

func histTerm(unit int, ib []float64, hasSum bool, ups []upd, p bool, hb []float64, outs []wr, unchanged, same, gathered bool) string {
	us := make([]string, len(ups))
	for i, u := range ups {
		cs := make([]string, len(u.counts))
		for j, c := range u.counts {
			cs[j] = emit.U(c)
		}
		us[i] = emit.Pair(emit.L(cs), emit.F(u.sum))
	}
	impl := emit.C(0)
	if !p {
		ws := make([]string, len(outs))
		for k, o := range outs {
			bk := make([]string, len(o.bk))
			for q, b := range o.bk {
				bk[q] = emit.Pair(emit.U(b[0]), emit.U(b[1]))
			}
			ws[k] = emit.Tup(emit.U(o.count), emit.F(o.sum), emit.L(bk))
		}
		impl = emit.C(1, emit.FL(hb), emit.L(ws), emit.B(unchanged), emit.B(same), emit.B(gathered))
	}
	return emit.C(0, emit.I(unit), emit.FL(ib), emit.B(hasSum), emit.L(us), impl)
}

// real bucket layouts of the installed runtime
func realLayouts() [][]float64 {
	var out [][]float64
	var ss []metrics.Sample
	for _, d := range metrics.All() {
		if d.Kind == metrics.KindFloat64Histogram {
			ss = append(ss, metrics.Sample{Name: d.Name})
		}
	}
	metrics.Read(ss)
	for _, s := range ss {
		out = append(out, append([]float64{}, s.Value.Float64Histogram().Buckets...))
	}
	return out
}

func finite(x float64) bool { return x == x && !math.IsInf(x, 0) }

// next boundary above x, aimed at the skip predicate of reBucketExp for the given base
func nextBoundary(r *emit.Rng, x, base float64) float64 {
	var t float64
	if x > 0 {
		t = x * base
	} else if x < 0 {
		t = x / base
	} else {
		t = math.Ldexp(1, r.Intn(40)-30)
	}
	var y float64
	switch r.Intn(9) {
	case 0:
		y = t
	case 1:
		y = emit.Down(t)
	case 2:
		y = emit.Up(t)
	case 3:
		y = emit.Up(x)
	case 4: // a fraction of the way to the target
		y = x + (t-x)*r.Float01()
	case 5: // beyond the target
		if x > 0 {
			y = t * (1 + 3*r.Float01())
		} else {
			y = t / (1 + 3*r.Float01())
		}
	case 6: // jump across zero
		if x < 0 {
			y = []float64{0, math.Copysign(0, -1), math.SmallestNonzeroFloat64, -x, 1e-9}[r.Intn(5)]
		} else {
			y = t
		}
	case 7: // small linear step
		y = x + math.Abs(x)*float64(1+r.Intn(8))/16
	default:
		y = x + (t-x)*float64(1+r.Intn(4))/4
	}
	if !(y > x) || !finite(y) {
		y = emit.Up(x)
	}
	return y
}

var startPool = []float64{-math.MaxFloat64, -1e300, -1e9, -1024, -1000, -100, -10, -8, -2, -1, -0.5, -0.001, -1e-9, -math.SmallestNonzeroFloat64,
	math.Copysign(0, -1), 0, math.SmallestNonzeroFloat64, math.Ldexp(1, -1022), 1e-300, 1e-9, 6.4e-8, 1e-6, 0.001, 0.01, 0.1, 0.5, 0.9, 1, 1.5, 2, 8, 10, 16, 1000, 1024, 1e9, 1e300}

// finite strictly increasing boundaries
func genFinite(r *emit.Rng, unit int, real [][]float64) ([]float64, string) {
	base := 2.0
	if unit == 1 || (unit == 2 && r.Bool()) {
		base = 10
	}
	switch r.Intn(12) {
	case 0: // real runtime layout (stripped of its infinities), sometimes scaled / shifted
		l := real[r.Intn(len(real))]
		var fs []float64
		for _, b := range l {
			if finite(b) {
				fs = append(fs, b)
			}
		}
		if len(fs) > 0 {
			switch r.Intn(3) {
			case 1:
				k := math.Ldexp(1, r.Intn(41)-20)
				for i := range fs {
					fs[i] *= k
				}
			case 2:
				// mirror to negative values
				n := len(fs)
				ms := make([]float64, 0, n)
				for i := n - 1; i >= 0; i-- {
					if fs[i] != 0 {
						ms = append(ms, -fs[i])
					}
				}
				fs = ms
			}
			if len(fs) > 0 {
				return fs, "layout:real-runtime"
			}
		}
		return []float64{0, 1}, "layout:real-runtime"
	case 1: // single finite boundary
		x := startPool[r.Intn(len(startPool))]
		if r.Chance(1, 3) {
			x = []float64{1, emit.Down(1), emit.Up(1)}[r.Intn(3)]
		}
		return []float64{x}, "layout:single"
	case 2: // around one second
		var fs []float64
		x := []float64{0, 1e-9, 0.001, 0.1, 0.5, 0.9}[r.Intn(6)]
		for len(fs) < 2+r.Intn(12) {
			fs = append(fs, x)
			x = nextBoundary(r, x, 10)
			if r.Chance(1, 3) && x < 1 {
				c := []float64{emit.Down(1), 1, emit.Up(1)}[r.Intn(3)]
				if c > fs[len(fs)-1] {
					x = c
				}
			}
		}
		return fs, "layout:around-one"
	case 3: // adjacent floats
		x := startPool[r.Intn(len(startPool))]
		n := 1 + r.Intn(20)
		fs := make([]float64, 0, n)
		for i := 0; i < n && finite(x); i++ {
			fs = append(fs, x)
			x = emit.Up(x)
		}
		return fs, "layout:adjacent-ulps"
	case 4: // extremes
		pool := []float64{-math.MaxFloat64, emit.Up(-math.MaxFloat64), -1e300, -1, -math.Ldexp(1, -1022), -math.SmallestNonzeroFloat64, 0,
			math.SmallestNonzeroFloat64, math.Ldexp(1, -1022), 1e-300, 1, emit.Down(math.MaxFloat64 / 2), math.MaxFloat64 / 2, 1e308, emit.Down(math.MaxFloat64), math.MaxFloat64}
		var fs []float64
		for _, p := range pool {
			if r.Chance(1, 2) {
				fs = append(fs, p)
			}
		}
		if len(fs) == 0 {
			fs = []float64{0}
		}
		return fs, "layout:extreme"
	case 5: // random sorted distinct
		n := 1 + r.Intn(40)
		var fs []float64
		for i := 0; i < n; i++ {
			f := r.AnyFloat()
			if finite(f) {
				fs = append(fs, f)
			}
		}
		if len(fs) == 0 {
			fs = []float64{1}
		}
		sort.Float64s(fs)
		out := fs[:1]
		for _, f := range fs[1:] {
			if f > out[len(out)-1] {
				out = append(out, f)
			}
		}
		return out, "layout:random-sorted"
	case 7, 8: // perfectly exponential: every boundary is the previous one times the base (nothing to merge),
		// running from below to well above one second
		x := []float64{1e-9, 1e-6, 0.001, 0.01, 0.1, 0.5, 1, 2, 10, math.Ldexp(1, -20), math.Ldexp(1, -3)}[r.Intn(11)]
		if base == 2 {
			x = math.Ldexp(1, r.Intn(40)-30)
		}
		n := 3 + r.Intn(24)
		fs := make([]float64, 0, n)
		for i := 0; i < n && finite(x); i++ {
			fs = append(fs, x)
			x *= base
		}
		return fs, "layout:exact-exponential"
	case 6: // negative values approaching zero, then positive
		x := -math.Pow(base, float64(1+r.Intn(12)))
		n := 2 + r.Intn(40)
		fs := make([]float64, 0, n)
		for i := 0; i < n; i++ {
			fs = append(fs, x)
			x = nextBoundary(r, x, base)
		}
		return fs, "layout:negative-to-positive"
	default: // exponential with sub-buckets, boundaries aimed at bucket*base
		x := startPool[r.Intn(len(startPool))]
		if r.Chance(1, 2) {
			x = math.Pow(base, float64(r.Intn(30)-15))
		}
		n := 2 + r.Intn(60)
		fs := make([]float64, 0, n)
		for i := 0; i < n && finite(x); i++ {
			fs = append(fs, x)
			x = nextBoundary(r, x, base)
		}
		return fs, "layout:exp-directed"
	}
}

func genCounts(r *emit.Rng, n int, prev []uint64) []uint64 {
	cs := make([]uint64, n)
	mode := r.Intn(6)
	for i := range cs {
		switch mode {
		case 0: // sparse
			if r.Chance(1, 4) {
				cs[i] = uint64(1 + r.Intn(1000))
			}
		case 1:
			cs[i] = uint64(r.Intn(10))
		case 2: // large, may wrap in total
			cs[i] = []uint64{0, 1, 1 << 32, 1<<53 + 1, 1 << 62, 1 << 63, math.MaxUint64, math.MaxUint64 - 1, r.U64()}[r.Intn(9)]
		case 3: // one hot
			if i == 0 {
				cs[r.Intn(n)] = 1 + r.U64()%1000000
			}
		case 4: // all distinct powers of two: every subset sum is different
			cs[i] = 1 << uint(i%62)
		default:
			cs[i] = r.U64() % (1 << 40)
		}
		if prev != nil && i < len(prev) && mode != 2 {
			cs[i] += prev[i] // cumulative like the runtime
		}
	}
	return cs
}

func shapeOK(ib []float64) bool {
	if len(ib) < 2 || !math.IsInf(ib[len(ib)-1], 1) {
		return false
	}
	for i := 1; i < len(ib); i++ {
		if !(ib[i-1] < ib[i]) {
			return false
		}
	}
	return true
}

func survives(unit int, ib []float64) bool {
	i := 0
	if len(ib) > 0 && math.IsInf(ib[0], -1) {
		i = 1
	}
	if i >= len(ib) || !finite(ib[i]) {
		return false
	}
	return unit != 1 || ib[i] <= 1
}

func streamHist(c *cli.Ctx, r *emit.Rng) error {
	w := emit.NewWriter(c.Out, "C18", "hist")
	real := realLayouts()
	if len(real) == 0 {
		real = [][]float64{{0, 1, 2, math.Inf(1)}}
	}
	n := 1500 * c.Scale
	for i := 0; i < n; i++ {
		unit := r.Intn(3)
		fs, tag := genFinite(r, unit, real)
		var ib []float64
		negInf := r.Chance(2, 5)
		if negInf {
			ib = append(ib, math.Inf(-1))
		}
		ib = append(ib, fs...)
		ib = append(ib, math.Inf(1))
		if r.Chance(1, 60) { // no finite boundary at all: precondition fails, the code panics
			ib = ib[:0]
			if negInf {
				ib = append(ib, math.Inf(-1))
			}
			ib = append(ib, math.Inf(1))
			tag = "layout:no-finite"
		}
		hasSum := r.Chance(1, 3)
		nu := 1 + r.Intn(3)
		ups := make([]upd, nu)
		var prev []uint64
		for k := range ups {
			ups[k] = upd{counts: genCounts(r, len(ib)-1, prev), sum: r.AnyFloat()}
			prev = ups[k].counts
		}
		p, hb, outs, unch, same, gath := runHist(unitNames[unit], ib, hasSum, ups)
		pre := shapeOK(ib) && survives(unit, ib)
		tags := []string{tag, "unit:" + unitNames[unit]}
		if negInf {
			tags = append(tags, "neg-inf-first")
		}
		if pre {
			tags = append(tags, "precondition:holds")
		} else {
			tags = append(tags, "precondition:fails")
		}
		if p {
			tags = append(tags, "result:panic")
		} else {
			tags = append(tags, "result:ok")
			if len(hb) < len(fs)+1 {
				tags = append(tags, "reduced:some-dropped")
			} else {
				tags = append(tags, "reduced:none-dropped")
			}
		}
		if hasSum {
			tags = append(tags, "has-sum")
		}
		if !p && len(hb) >= 2 && hb[1] <= 0 {
			tags = append(tags, "first-upper-bound:non-positive")
		}
		if !p && len(hb) == len(fs)+1 && unit != 2 {
			tags = append(tags, "reduced:nothing-merged-by-reBucketExp")
		}
		nz := 0
		for _, cnt := range ups[0].counts {
			if cnt != 0 {
				nz++
			}
		}
		w.Add(histTerm(unit, ib, hasSum, ups, p, hb, outs, unch, same, gath), pre && !p && len(fs) >= 3 && nz >= 2, tags...)
	}
	return w.Flush()
}

func streamMalformed(c *cli.Ctx, r *emit.Rng) error {
	w := emit.NewWriter(c.Out, "C18", "malformed")
	real := realLayouts()
	if len(real) == 0 {
		real = [][]float64{{0, 1, 2, math.Inf(1)}}
	}
	n := 400 * c.Scale
	for i := 0; i < n; i++ {
		unit := r.Intn(3)
		fs, _ := genFinite(r, unit, real)
		ib := append([]float64{}, fs...)
		if r.Chance(1, 2) {
			ib = append([]float64{math.Inf(-1)}, ib...)
		}
		ib = append(ib, math.Inf(1))
		ncounts := len(ib) - 1
		var tag string
		k := r.Intn(len(ib))
		switch r.Intn(11) {
		case 0:
			ib = ib[:len(ib)-1]
			tag = "bad:no-pinf-last"
			ncounts = len(ib) - 1
		case 1:
			ib[k] = math.NaN()
			tag = "bad:nan"
		case 2:
			ib[k] = math.Inf(1)
			tag = "bad:pinf-inside"
		case 3:
			ib[k] = math.Inf(-1)
			tag = "bad:ninf-inside"
		case 4:
			if k+1 < len(ib) {
				ib[k+1] = ib[k]
			}
			tag = "bad:duplicate"
		case 5:
			if k+1 < len(ib) {
				ib[k], ib[k+1] = ib[k+1], ib[k]
			}
			tag = "bad:swapped"
		case 6:
			ib = nil
			ncounts = r.Intn(3)
			tag = "bad:empty"
		case 7:
			ib = []float64{math.Inf(-1)}
			ncounts = r.Intn(3)
			tag = "bad:only-ninf"
		case 8:
			ncounts += 1 + r.Intn(3)
			tag = "bad:too-many-counts"
		case 9:
			ncounts -= 1 + r.Intn(2)
			tag = "bad:too-few-counts"
		default:
			ib = append(ib, math.Inf(1))
			ncounts = len(ib) - 1
			tag = "bad:two-pinf"
		}
		if ncounts < 0 {
			ncounts = 0
		}
		hasSum := r.Chance(1, 3)
		ups := make([]upd, 1+r.Intn(2))
		for q := range ups {
			ups[q] = upd{counts: genCounts(r, ncounts, nil), sum: r.AnyFloat()}
		}
		p, hb, outs, unch, same, gath := runHist(unitNames[unit], ib, hasSum, ups)
		tags := []string{tag, "unit:" + unitNames[unit]}
		if p {
			tags = append(tags, "result:panic")
		} else {
			tags = append(tags, "result:ok")
		}
		w.Add(histTerm(unit, ib, hasSum, ups, p, hb, outs, unch, same, gath), false, tags...)
	}
	return w.Flush()
}

// ---------------------------------------------------------------------------------------------

var rulePool = []string{"/.*", `^/gc/.*`, `^/memory/.*`, `^/sched/.*`, `^/godebug/.*`, `^/cpu/.*`, `^/sync/.*`, `:bytes$`, `:seconds$`,
	`:objects$`, "heap", "classes", "^$", "no-such-metric", `/gc/gogc:percent|/gc/gomemlimit:bytes|/sched/gomaxprocs:threads`, `^/gc/heap/.*-by-size:bytes$`, `total`, `^/sched/latencies:seconds$`, `^/gc/pauses:seconds$`}

func genRules(r *emit.Rng, all []metrics.Description) (srcs []string, deny []bool) {
	n := r.Intn(7)
	for i := 0; i < n; i++ {
		var s string
		if r.Chance(1, 4) {
			s = "^" + regexp.QuoteMeta(all[r.Intn(len(all))].Name) + "$"
		} else {
			s = rulePool[r.Intn(len(rulePool))]
		}
		srcs = append(srcs, s)
		deny = append(deny, r.Chance(2, 5))
	}
	return
}

func streamRules(c *cli.Ctx, r *emit.Rng) error {
	w := emit.NewWriter(c.Out, "C18", "rules")
	all := metrics.All()
	n := 150 * c.Scale
	for i := 0; i < n; i++ {
		srcs, deny := genRules(r, all)
		ms := make([]*regexp.Regexp, len(srcs))
		for k, s := range srcs {
			ms[k] = regexp.MustCompile(s)
		}
		got := prometheus.VerifC18MatchRules(ms, deny)
		inc := map[string]bool{}
		for _, g := range got {
			inc[g] = true
		}
		// order: got must be a duplicate-free subsequence of metrics.All()
		ord := len(inc) == len(got)
		pos := 0
		for _, g := range got {
			for pos < len(all) && all[pos].Name != g {
				pos++
			}
			if pos == len(all) {
				ord = false
				break
			}
			pos++
		}
		names := make([]string, len(all))
		nAllowed := 0
		for k, d := range all {
			rs := make([]string, len(ms))
			for q, m := range ms {
				rs[q] = emit.Pair(emit.B(m.MatchString(d.Name)), emit.B(deny[q]))
			}
			names[k] = emit.Pair(emit.L(rs), emit.B(inc[d.Name]))
			if inc[d.Name] {
				nAllowed++
			}
		}
		tags := []string{fmt.Sprintf("rules:%d", len(srcs))}
		switch {
		case nAllowed == 0:
			tags = append(tags, "exposed:none")
		case nAllowed == len(all):
			tags = append(tags, "exposed:all")
		default:
			tags = append(tags, "exposed:some")
		}
		w.Add(emit.C(1, emit.L(names), emit.B(ord)), len(srcs) >= 2 && nAllowed > 0 && nAllowed < len(all), tags...)
	}
	return w.Flush()
}

func kindZ(k metrics.ValueKind) int { return int(k) }

func streamNames(c *cli.Ctx, r *emit.Rng) error {
	w := emit.NewWriter(c.Out, "C18", "names")
	add := func(d metrics.Description, tag string) {
		fq, ok := prometheus.VerifC18ToProm(&d)
		w.Add(emit.C(2, emit.S(d.Name), emit.B(d.Cumulative), emit.I(kindZ(d.Kind)), emit.S(fq), emit.B(ok)), true, tag,
			fmt.Sprintf("kind:%d", kindZ(d.Kind)), fmt.Sprintf("valid:%v", ok))
	}
	for _, d := range metrics.All() {
		add(d, "source:runtime")
	}
	segs := []string{"gc", "heap", "allocs-by-size", "cpu", "classes", "gc-cycles", "a", "b9", "x_y", "Z", "mark-assist-time", "9lives", "caf\xc3\xa9", "sp ace"}
	units := []string{"bytes", "seconds", "objects", "cpu-seconds", "gc-cycles", "bytes/second", "cpu-seconds*bytes", "percent", "events", "a-b/c*d", "un it", ""}
	n := 300 * c.Scale
	for i := 0; i < n; i++ {
		ns := 2 + r.Intn(4)
		var sb strings.Builder
		for k := 0; k < ns; k++ {
			sb.WriteString("/")
			sb.WriteString(segs[r.Intn(len(segs))])
		}
		sb.WriteString(":")
		sb.WriteString(units[r.Intn(len(units))])
		d := metrics.Description{Name: sb.String(), Cumulative: r.Bool(), Kind: metrics.ValueKind(r.Intn(5))}
		add(d, "source:synthetic")
	}
	return w.Flush()
}

// ---------------------------------------------------------------------------------------------

type combo struct {
	what     string
	srcs     []string
	deny     []bool
	memOff   bool
	oldFlags int // -1 unused, else WithGoCollections(flags)
}

func sliceOf[T any](x ...T) []T { return x }

func newGo(cb combo) prometheus.Collector {
	// the option type lives in an internal package: let inference name it
	args := sliceOf(collectors.WithGoCollectorMemStatsMetricsDisabled())[:0]
	if cb.oldFlags >= 0 {
		//nolint:staticcheck
		args = append(args, collectors.WithGoCollections(collectors.GoCollectionOption(cb.oldFlags)))
		return collectors.NewGoCollector(args...)
	}
	// consecutive allow / deny runs are passed as one option call each, in order
	i := 0
	for i < len(cb.srcs) {
		j := i
		for j < len(cb.srcs) && cb.deny[j] == cb.deny[i] {
			j++
		}
		if cb.deny[i] {
			var ms []*regexp.Regexp
			for _, s := range cb.srcs[i:j] {
				ms = append(ms, regexp.MustCompile(s))
			}
			args = append(args, collectors.WithoutGoCollectorRuntimeMetrics(ms...))
		} else {
			var rs []collectors.GoRuntimeMetricsRule
			for _, s := range cb.srcs[i:j] {
				rs = append(rs, collectors.GoRuntimeMetricsRule{Matcher: regexp.MustCompile(s)})
			}
			args = append(args, collectors.WithGoCollectorRuntimeMetrics(rs...))
		}
		i = j
	}
	if cb.memOff {
		args = append(args, collectors.WithGoCollectorMemStatsMetricsDisabled())
	}
	return collectors.NewGoCollector(args...)
}

func streamLayout(c *cli.Ctx, r *emit.Rng) error {
	w := emit.NewWriter(c.Out, "C18", "layout")
	all := metrics.All()
	byName := map[string]metrics.Description{}
	for _, d := range all {
		byName[d.Name] = d
	}
	var direct []map[string]interface{}
	n := 40 * c.Scale
	for i := 0; i < n; i++ {
		cb := genCombo(r, all, i)
		col := newGo(cb)
		sn, fq, stale, ok := prometheus.VerifC18Layout(col)
		if len(stale) > 0 {
			direct = append(direct, map[string]interface{}{"index": i, "what": fmt.Sprintf("sampleMap entries %q do not point into the sample buffer: %s", stale, cb.what)})
		}
		if !ok {
			direct = append(direct, map[string]interface{}{"index": i, "what": "NewGoCollector did not return a *goCollector: " + cb.what})
			continue
		}
		seen := map[string]bool{}
		for _, s := range sn {
			if seen[s] {
				direct = append(direct, map[string]interface{}{"index": i, "what": "sample buffer holds " + s + " twice: " + cb.what})
			}
			seen[s] = true
		}
		if len(fq) > len(sn) {
			direct = append(direct, map[string]interface{}{"index": i, "what": "more exposed metrics than samples: " + cb.what})
			continue
		}
		items := make([]string, len(fq))
		for k := range fq {
			d := byName[sn[k]]
			items[k] = emit.Tup(emit.S(sn[k]), emit.B(d.Cumulative), emit.I(kindZ(d.Kind)), emit.S(fq[k]))
		}
		w.Add(emit.C(3, emit.L(items)), len(fq) >= 2, fmt.Sprintf("exposed:%d", bucketCount(len(fq))))
	}
	if len(direct) > 0 {
		w.Extra["direct_failures"] = direct
	}
	return w.Flush()
}

func bucketCount(n int) int {
	switch {
	case n == 0:
		return 0
	case n < 10:
		return 1
	case n < 40:
		return 10
	default:
		return 40
	}
}

func genCombo(r *emit.Rng, all []metrics.Description, i int) combo {
	cb := combo{oldFlags: -1}
	switch {
	case i == 0:
		cb.what = "defaults"
	case i == 1:
		cb.srcs, cb.deny = []string{"/.*"}, []bool{false}
	case i == 2:
		cb.srcs, cb.deny, cb.memOff = []string{"/.*"}, []bool{false}, true
	case i == 3:
		cb.memOff = true
	case i == 4:
		cb.srcs, cb.deny = []string{"/.*", "/.*"}, []bool{false, true}
	case i < 9:
		cb.oldFlags = i - 5
	default:
		cb.srcs, cb.deny = genRules(r, all)
		cb.memOff = r.Bool()
	}
	cb.what = fmt.Sprintf("rules=%q deny=%v memstatsDisabled=%v oldFlags=%d", cb.srcs, cb.deny, cb.memOff, cb.oldFlags)
	return cb
}

func mkCombo(srcs []string, deny []bool, memOff bool) combo {
	cb := combo{srcs: srcs, deny: deny, memOff: memOff, oldFlags: -1}
	cb.what = fmt.Sprintf("rules=%q deny=%v memstatsDisabled=%v oldFlags=%d", cb.srcs, cb.deny, cb.memOff, cb.oldFlags)
	return cb
}

func exact(name string) string { return "^" + regexp.QuoteMeta(name) + "$" }

// the exact-sum companions NewGoCollector knows (defaultGoCollectorOptions)
var sumCompanion = map[string]string{
	"/gc/heap/allocs-by-size:bytes": "/gc/heap/allocs:bytes",
	"/gc/heap/frees-by-size:bytes":  "/gc/heap/frees:bytes",
}

// systematicCombos: rule sets over INDIVIDUAL runtime/metrics names, each with both MemStats settings:
// every name alone; every pair of histogram metrics; histograms with / without their exact-sum companion
// (and with the other histogram's companion); allow-all or allow-group minus one individual name.
// The size of the sample buffer (exposed + companions + MemStats sources) differs between these.
func systematicCombos(all []metrics.Description) []combo {
	var out []combo
	both := func(srcs []string, deny []bool) {
		out = append(out, mkCombo(srcs, deny, false), mkCombo(srcs, deny, true))
	}
	var hists []string
	for _, d := range all {
		both([]string{exact(d.Name)}, []bool{false})
		if d.Kind == metrics.KindFloat64Histogram {
			hists = append(hists, d.Name)
		}
	}
	for i := range hists {
		for j := i + 1; j < len(hists); j++ {
			both([]string{exact(hists[i]), exact(hists[j])}, []bool{false, false})
		}
	}
	var comps []string
	for _, h := range hists {
		if c, ok := sumCompanion[h]; ok {
			comps = append(comps, c)
		}
	}
	sort.Strings(comps)
	for _, h := range hists {
		for _, c := range comps {
			both([]string{exact(h), exact(c)}, []bool{false, false})
			both([]string{"/.*", exact(c)}, []bool{false, true})
			both([]string{`^/gc/heap/.*`, exact(c)}, []bool{false, true})
		}
		both([]string{"/.*", exact(h)}, []bool{false, true})
		both([]string{exact(h), exact(h)}, []bool{false, true})
	}
	if len(comps) > 0 {
		var srcs []string
		var deny []bool
		for h := range sumCompanion {
			srcs, deny = append(srcs, exact(h)), append(deny, false)
		}
		sort.Strings(srcs)
		both(srcs, deny)
		both(append(append([]string{}, srcs...), comps...), append(append([]bool{}, deny...), make([]bool, len(comps))...))
	}
	return out
}

// expected exposure of a runtime metric name under the collector's rule list (default rule first)
func expectExposed(cb combo, name string) bool {
	srcs := append([]string{`/gc/gogc:percent|/gc/gomemlimit:bytes|/sched/gomaxprocs:threads`}, cb.srcs...)
	deny := append([]bool{false}, cb.deny...)
	if cb.oldFlags >= 0 && cb.oldFlags&2 != 0 {
		srcs, deny = append(srcs, "/.*"), append(deny, false)
	}
	exposed := false
	for i, s := range srcs {
		if regexp.MustCompile(s).MatchString(name) {
			exposed = !deny[i]
		}
	}
	return exposed
}

type snap struct {
	counters map[string]float64 // family{labels} -> value (counters, histogram/summary sample counts and cumulative buckets)
	names    []string
}

func takeSnap(mfs []*dto.MetricFamily) (snap, string) {
	s := snap{counters: map[string]float64{}}
	seen := map[string]bool{}
	for _, mf := range mfs {
		nm := mf.GetName()
		if seen[nm] {
			return s, "metric family " + nm + " appears twice in one gather"
		}
		seen[nm] = true
		s.names = append(s.names, nm)
		for _, m := range mf.Metric {
			var lb strings.Builder
			for _, lp := range m.Label {
				lb.WriteString(lp.GetName() + "=" + lp.GetValue() + ",")
			}
			key := nm + "{" + lb.String() + "}"
			switch mf.GetType() {
			case dto.MetricType_COUNTER:
				s.counters[key] = m.Counter.GetValue()
			case dto.MetricType_HISTOGRAM:
				s.counters[key+"#count"] = float64(m.Histogram.GetSampleCount())
				last := uint64(0)
				for _, b := range m.Histogram.Bucket {
					if b.GetCumulativeCount() < last {
						return s, fmt.Sprintf("%s: cumulative bucket counts decrease within one histogram", key)
					}
					last = b.GetCumulativeCount()
					s.counters[fmt.Sprintf("%s#le=%x", key, math.Float64bits(b.GetUpperBound()))] = float64(b.GetCumulativeCount())
				}
				if last > m.Histogram.GetSampleCount() {
					return s, fmt.Sprintf("%s: a cumulative bucket count exceeds the sample count", key)
				}
			case dto.MetricType_SUMMARY:
				s.counters[key+"#count"] = float64(m.Summary.GetSampleCount())
			}
		}
	}
	return s, ""
}

func decreased(a, b snap) string {
	for k, v := range a.counters {
		if w, ok := b.counters[k]; ok && w < v {
			return fmt.Sprintf("%s decreased between gathers: %v -> %v", k, v, w)
		}
	}
	return ""
}

// collectRecovered runs Describe and Collect of the collector in this goroutine; a panic is returned as text.
func collectRecovered(col prometheus.Collector) (what string) {
	defer func() {
		if e := recover(); e != nil {
			what = fmt.Sprintf("panic in Collect: %v", e)
		}
	}()
	ch := make(chan prometheus.Metric, 64)
	done := make(chan struct{})
	go func() {
		for range ch {
		}
		close(done)
	}()
	func() {
		defer close(ch)
		col.Collect(ch)
	}()
	<-done
	return ""
}

// register with a pedantic registry and gather concurrently; returns failures and the family names seen
func exercise(col prometheus.Collector, goroutines, rounds int) (fails []string, names map[string]bool, reg *prometheus.Registry) {
	names = map[string]bool{}
	reg = prometheus.NewPedanticRegistry()
	if err := reg.Register(col); err != nil {
		return []string{"Register on a pedantic registry failed: " + err.Error()}, names, reg
	}
	var mu sync.Mutex
	var wg sync.WaitGroup
	// pre-flight: Collect called directly and concurrently, so that a panic is caught here (inside Gather it
	// would be raised in a goroutine of the registry and take the driver down)
	for g := 0; g < goroutines; g++ {
		wg.Add(1)
		go func() {
			defer wg.Done()
			for k := 0; k < 2; k++ {
				if p := collectRecovered(col); p != "" {
					mu.Lock()
					fails = append(fails, p)
					mu.Unlock()
					return
				}
			}
		}()
	}
	wg.Wait()
	if len(fails) > 0 {
		return fails, names, reg
	}
	all := make([][]snap, goroutines)
	for g := 0; g < goroutines; g++ {
		wg.Add(1)
		go func(g int) {
			defer wg.Done()
			defer func() {
				if e := recover(); e != nil {
					mu.Lock()
					fails = append(fails, fmt.Sprintf("panic while gathering: %v", e))
					mu.Unlock()
				}
			}()
			var prev *snap
			for k := 0; k < rounds; k++ {
				if k%2 == 1 {
					runtime.GC() // move the GC counters and pause histograms
				}
				mfs, err := reg.Gather()
				if err != nil {
					mu.Lock()
					fails = append(fails, "Gather failed: "+err.Error())
					mu.Unlock()
					return
				}
				s, bad := takeSnap(mfs)
				if bad == "" && prev != nil {
					bad = decreased(*prev, s)
				}
				if bad != "" {
					mu.Lock()
					fails = append(fails, bad)
					mu.Unlock()
				}
				all[g] = append(all[g], s)
				prev = &all[g][len(all[g])-1]
			}
		}(g)
	}
	wg.Wait()
	// one more gather after everything: nothing may be below any earlier value
	mfs, err := reg.Gather()
	if err != nil {
		fails = append(fails, "final Gather failed: "+err.Error())
		return fails, names, reg
	}
	final, bad := takeSnap(mfs)
	if bad != "" {
		fails = append(fails, bad)
	}
	for g := range all {
		for _, s := range all[g] {
			if d := decreased(s, final); d != "" {
				fails = append(fails, "final gather: "+d)
			}
			for _, n := range s.names {
				names[n] = true
			}
		}
	}
	for _, n := range final.names {
		names[n] = true
	}
	// re-registration after Unregister must work as well
	if !reg.Unregister(col) {
		fails = append(fails, "Unregister returned false")
	} else if err := reg.Register(col); err != nil {
		fails = append(fails, "second Register failed: "+err.Error())
	}
	return
}

// bracket: an exposed exact cumulative runtime metric (uint64 counters, histogram totals) must lie between the
// runtime's own value read just before and just after the gather: nothing lost, nothing invented.
func bracket(reg *prometheus.Registry, all []metrics.Description, derived map[string]string) (fails []string) {
	var ss []metrics.Sample
	for _, d := range all {
		if _, ok := derived[d.Name]; !ok {
			continue
		}
		if (d.Kind == metrics.KindUint64 && d.Cumulative) || d.Kind == metrics.KindFloat64Histogram {
			ss = append(ss, metrics.Sample{Name: d.Name})
		}
	}
	read := func() map[string]float64 {
		out := map[string]float64{}
		metrics.Read(ss)
		for _, s := range ss {
			switch s.Value.Kind() {
			case metrics.KindUint64:
				out[derived[s.Name]] = float64(s.Value.Uint64())
			case metrics.KindFloat64Histogram:
				t := uint64(0)
				for _, c := range s.Value.Float64Histogram().Counts {
					t += c
				}
				out[derived[s.Name]] = float64(t)
			}
		}
		return out
	}
	runtime.GC()
	lo := read()
	mfs, err := reg.Gather()
	hi := read()
	if err != nil {
		return []string{"bracketing Gather failed: " + err.Error()}
	}
	for _, mf := range mfs {
		l, ok := lo[mf.GetName()]
		if !ok || len(mf.Metric) != 1 {
			continue
		}
		var v float64
		switch mf.GetType() {
		case dto.MetricType_COUNTER:
			v = mf.Metric[0].Counter.GetValue()
		case dto.MetricType_HISTOGRAM:
			v = float64(mf.Metric[0].Histogram.GetSampleCount())
		default:
			continue
		}
		if v < l || v > hi[mf.GetName()] {
			fails = append(fails, fmt.Sprintf("%s = %v is outside what the runtime reported around the gather [%v, %v]", mf.GetName(), v, l, hi[mf.GetName()]))
		}
	}
	return
}

func streamCollectors(c *cli.Ctx, r *emit.Rng) error {
	w := emit.NewWriter(c.Out, "C18", "collectors")
	w.Extra["no_model"] = true
	all := metrics.All()
	var direct []map[string]interface{}
	fail := func(i int, what string) {
		if len(direct) < 40 {
			direct = append(direct, map[string]interface{}{"index": i, "what": what})
		}
	}
	derived := map[string]string{} // runtime name -> fq (valid ones)
	for _, d := range all {
		d := d
		if fq, ok := prometheus.VerifC18ToProm(&d); ok {
			derived[d.Name] = fq
		}
	}
	sys := systematicCombos(all)
	n := len(sys) + 60*c.Scale
	for i := 0; i < n; i++ {
		var cb combo
		if i < len(sys) {
			cb = sys[i]
		} else {
			cb = genCombo(r, all, i-len(sys))
		}
		col := newGo(cb)
		if sn, _, stale, ok := prometheus.VerifC18Layout(col); ok && len(stale) > 0 {
			fail(i, fmt.Sprintf("Go collector [%s]: sampleMap entries %q do not point into the sample buffer (%d samples)", cb.what, stale, len(sn)))
		}
		rounds := 4
		if i < len(sys) {
			rounds = 2
		}
		fails, names, reg := exercise(col, 4, rounds)
		if len(fails) == 0 {
			// reported only when it repeats: the runtime's own counters are read in separate calls
			if b := bracket(reg, all, derived); len(b) > 0 {
				if b2 := bracket(reg, all, derived); len(b2) > 0 {
					fails = append(fails, b2...)
				}
			}
		}
		for _, f := range fails {
			fail(i, "Go collector ["+cb.what+"]: "+f)
		}
		nexp := 0
		if len(fails) == 0 {
			for rm, fq := range derived {
				want := expectExposed(cb, rm)
				if want {
					nexp++
				}
				if want != names[fq] {
					fail(i, fmt.Sprintf("Go collector [%s]: runtime metric %s (as %s) exposed=%v, the rules say %v", cb.what, rm, fq, names[fq], want))
				}
			}
			nms := 0
			for nm := range names {
				if strings.HasPrefix(nm, "go_memstats_") {
					nms++
				}
			}
			memOff := cb.memOff || (cb.oldFlags >= 0 && cb.oldFlags&1 == 0)
			if memOff && nms > 1 || !memOff && nms < 20 {
				fail(i, fmt.Sprintf("Go collector [%s]: %d go_memstats_ families with MemStats metrics disabled=%v", cb.what, nms, memOff))
			}
			for _, base := range []string{"go_goroutines", "go_threads", "go_gc_duration_seconds", "go_info"} {
				if !names[base] {
					fail(i, "Go collector ["+cb.what+"]: base metric "+base+" missing")
				}
			}
		}
		tags := []string{"collector:go", fmt.Sprintf("rules:%d", len(cb.srcs)), fmt.Sprintf("memstats-disabled:%v", cb.memOff)}
		if cb.oldFlags >= 0 {
			tags = append(tags, "deprecated-flags")
		}
		if i < len(sys) {
			tags = append(tags, "rules:individual-names")
		} else {
			tags = append(tags, "rules:random")
		}
		w.Add(emit.Tup(emit.I(0), emit.SL(cb.srcs), emit.L(boolsT(cb.deny)), emit.B(cb.memOff), emit.I(cb.oldFlags)), nexp >= 4, tags...)
	}
	// process collector
	np := 8 * c.Scale
	for i := 0; i < np; i++ {
		opts := collectors.ProcessCollectorOpts{}
		what := "defaults"
		switch i % 4 {
		case 1:
			opts.Namespace = "verif"
			what = "namespace"
		case 2:
			opts.ReportErrors = true
			what = "report-errors"
		case 3:
			opts.Namespace, opts.ReportErrors = "ns2", true
			what = "namespace+report-errors"
		}
		col := collectors.NewProcessCollector(opts)
		fails, names, _ := exercise(col, 4, 4)
		for _, f := range fails {
			if opts.ReportErrors && strings.Contains(f, "Gather failed") && !pedanticComplaint(f) {
				continue // an unreadable /proc file reported on request; not a consistency failure
			}
			fail(n+i, "process collector ["+what+"]: "+f)
		}
		pfx := "process_"
		if opts.Namespace != "" {
			pfx = opts.Namespace + "_process_"
		}
		if len(fails) == 0 && !names[pfx+"cpu_seconds_total"] {
			fail(n+i, "process collector ["+what+"]: "+pfx+"cpu_seconds_total missing")
		}
		w.Add(emit.Tup(emit.I(1), emit.S(what)), len(names) >= 4, "collector:process", "opts:"+what)
	}
	// process collector watching a child that dies and is not reaped
	nz := 3 * c.Scale
	inconcl := map[string]int{}
	for i := 0; i < nz; i++ {
		opts := collectors.ProcessCollectorOpts{}
		what := "zombie-child"
		if i%3 == 1 {
			opts.Namespace = "verif"
			what = "zombie-child+namespace"
		}
		fails, inc := zombieCase(opts)
		for _, f := range fails {
			fail(n+np+i, "process collector ["+what+"]: "+f)
		}
		tag := "zombie:conclusive"
		if inc != "" {
			tag = "zombie:inconclusive:" + inc
			inconcl[inc]++
		}
		w.Add(emit.Tup(emit.I(2), emit.S(what), emit.I(i)), inc == "", "collector:process", tag)
	}
	// process collector running unprivileged and watching a foreign process: one Desc-bound reading fails
	{
		fails, inc := unprivCase()
		for _, f := range fails {
			fail(n+np+nz, "process collector [unprivileged, foreign pid]: "+f)
		}
		tag := "partial-failure:conclusive"
		if inc != "" {
			tag = "partial-failure:inconclusive:" + inc
			inconcl[inc]++
		}
		w.Add(emit.Tup(emit.I(3), emit.S("unprivileged-foreign-pid")), inc == "", "collector:process", tag)
	}
	if len(inconcl) > 0 {
		w.Extra["inconclusive"] = inconcl
	}
	if len(direct) > 0 {
		w.Extra["direct_failures"] = direct
	}
	return w.Flush()
}

func procState(pid int) string {
	b, err := os.ReadFile(fmt.Sprintf("/proc/%d/stat", pid))
	if err != nil {
		return ""
	}
	t := string(b)
	i := strings.LastIndex(t, ")")
	if i < 0 || i+2 >= len(t) {
		return ""
	}
	return t[i+2 : i+3]
}

// zombieCase: a process collector (errors not reported: the mix-in mode) watches a child through PidFn. After
// the first gather the child is killed and not reaped, so /proc/<pid>/stat stays readable while
// /proc/<pid>/net/netstat does not: a fault in the middle of processCollect. Two more gathers must succeed
// and no counter present in two gathers may decrease. inconclusive != "" when the fault cannot be produced here.
func zombieCase(opts collectors.ProcessCollectorOpts) (fails []string, inconclusive string) {
	sleep, err := exec.LookPath("sleep")
	if err != nil {
		return nil, "no-sleep-binary"
	}
	cmd := exec.Command(sleep, "60")
	if err := cmd.Start(); err != nil {
		return nil, "cannot-start-child"
	}
	pid := cmd.Process.Pid
	defer cmd.Wait()
	defer cmd.Process.Kill()
	opts.PidFn = func() (int, error) { return pid, nil }
	col := collectors.NewProcessCollector(opts)
	reg := prometheus.NewPedanticRegistry()
	if err := reg.Register(col); err != nil {
		return []string{"Register on a pedantic registry failed: " + err.Error()}, ""
	}
	gather := func(what string) (snap, bool) {
		if p := collectRecovered(col); p != "" {
			fails = append(fails, what+": "+p)
			return snap{}, false
		}
		mfs, err := reg.Gather()
		if err != nil {
			fails = append(fails, what+": Gather failed: "+err.Error())
			return snap{}, false
		}
		sn, bad := takeSnap(mfs)
		if bad != "" {
			fails = append(fails, what+": "+bad)
		}
		return sn, true
	}
	before, ok := gather("gather of the live child")
	if !ok {
		return fails, ""
	}
	net := 0.0
	for k, v := range before.counters {
		if strings.Contains(k, "network_") {
			net += v
		}
	}
	cmd.Process.Kill()
	deadline := time.Now().Add(5 * time.Second)
	for procState(pid) != "Z" {
		if time.Now().After(deadline) {
			return fails, "child-did-not-become-a-zombie"
		}
		time.Sleep(2 * time.Millisecond)
	}
	if _, err := os.ReadFile(fmt.Sprintf("/proc/%d/net/netstat", pid)); err == nil {
		inconclusive = "netstat-of-a-zombie-still-readable"
	} else if net == 0 {
		inconclusive = "no-network-traffic-accounted"
	}
	prev := before
	for round := 2; round <= 3; round++ {
		what := fmt.Sprintf("gather %d (child is a zombie)", round)
		sn, ok := gather(what)
		if !ok {
			return fails, inconclusive
		}
		if d := decreased(before, sn); d != "" {
			fails = append(fails, what+": "+d)
		} else if d := decreased(prev, sn); d != "" {
			fails = append(fails, what+": "+d)
		}
		prev = sn
	}
	return fails, inconclusive
}

// ---- partial failure of ONE reading (a Desc-bound error) -------------------------------------------------
// The driver re-executes itself as a helper that drops to an unprivileged uid and watches the (root-owned)
// zombie child of the driver through PidFn: /proc/<pid>/stat and limits stay readable, listing /proc/<pid>/fd
// fails with EACCES (and net/netstat is gone, an error without Desc), i.e. of the Desc-bound readings only open-fds fails. The helper reports what it saw as JSON on stdout; the driver's
// own credentials never change.
type unprivReport struct {
	Inconclusive string   `json:"inconclusive"`
	Fails        []string `json:"fails"`
}

func unprivHelper() {
	rep := unprivReport{}
	defer func() {
		b, _ := json.Marshal(rep)
		os.Stdout.Write(b)
	}()
	target, err := strconv.Atoi(os.Getenv("VERIF_C18_UNPRIV_HELPER"))
	if err != nil {
		rep.Inconclusive = "bad-target-pid"
		return
	}
	if os.Getuid() != 0 {
		rep.Inconclusive = "driver-not-root"
		return
	}
	if err := syscall.Setgroups(nil); err != nil {
		rep.Inconclusive = "setgroups-failed"
		return
	}
	if err := syscall.Setgid(65534); err != nil {
		rep.Inconclusive = "setgid-failed"
		return
	}
	if err := syscall.Setuid(65534); err != nil {
		rep.Inconclusive = "setuid-failed"
		return
	}
	if _, err := os.ReadDir(fmt.Sprintf("/proc/%d/fd", target)); err == nil {
		rep.Inconclusive = "fd-directory-of-a-foreign-process-readable"
		return
	}
	if _, err := os.ReadFile(fmt.Sprintf("/proc/%d/stat", target)); err != nil {
		rep.Inconclusive = "stat-of-a-foreign-process-unreadable"
		return
	}
	pidFn := func() (int, error) { return target, nil }
	for _, ns := range []string{"", "verif"} {
		pfx := "process_"
		if ns != "" {
			pfx = ns + "_process_"
		}
		col := collectors.NewProcessCollector(collectors.ProcessCollectorOpts{PidFn: pidFn, Namespace: ns})
		reg := prometheus.NewPedanticRegistry()
		if err := reg.Register(col); err != nil {
			rep.Fails = append(rep.Fails, "Register on a pedantic registry failed: "+err.Error())
			continue
		}
		for i := 1; i <= 2; i++ {
			if p := collectRecovered(col); p != "" {
				rep.Fails = append(rep.Fails, p)
				break
			}
			mfs, err := reg.Gather()
			if err != nil {
				rep.Fails = append(rep.Fails, fmt.Sprintf("ReportErrors=false, only the open-fds reading fails (EACCES): Gather #%d failed instead of leaving the metric out: %v", i, err))
				break
			}
			names := map[string]bool{}
			for _, mf := range mfs {
				names[mf.GetName()] = true
			}
			if names[pfx+"open_fds"] {
				rep.Inconclusive = "open-fds-reading-did-not-fail"
			}
			for _, n := range []string{"cpu_seconds_total", "max_fds", "virtual_memory_bytes"} {
				if !names[pfx+n] {
					rep.Fails = append(rep.Fails, fmt.Sprintf("ReportErrors=false: %s%s missing although its reading succeeds", pfx, n))
				}
			}
		}
	}
	reg2 := prometheus.NewPedanticRegistry()
	if err := reg2.Register(collectors.NewProcessCollector(collectors.ProcessCollectorOpts{PidFn: pidFn, ReportErrors: true})); err != nil {
		rep.Fails = append(rep.Fails, "ReportErrors=true: Register failed: "+err.Error())
	} else if _, err := reg2.Gather(); err == nil && rep.Inconclusive == "" {
		rep.Fails = append(rep.Fails, "ReportErrors=true: the failed open-fds reading was not reported by Gather")
	}
}

func unprivCase() (fails []string, inconclusive string) {
	if os.Getuid() != 0 {
		return nil, "driver-not-root"
	}
	exe, err := os.Executable()
	if err != nil {
		return nil, "no-executable-path"
	}
	// a root-owned zombie: stat and limits stay world-readable, the fd directory is empty for stat (so the
	// fast path of procfs does not apply) and may not be listed by another user
	sleep, err := exec.LookPath("sleep")
	if err != nil {
		return nil, "no-sleep-binary"
	}
	child := exec.Command(sleep, "60")
	if err := child.Start(); err != nil {
		return nil, "cannot-start-child"
	}
	defer child.Wait()
	child.Process.Kill()
	deadline := time.Now().Add(5 * time.Second)
	for procState(child.Process.Pid) != "Z" {
		if time.Now().After(deadline) {
			return nil, "child-did-not-become-a-zombie"
		}
		time.Sleep(2 * time.Millisecond)
	}
	cmd := exec.Command(exe)
	cmd.Env = append(os.Environ(), fmt.Sprintf("VERIF_C18_UNPRIV_HELPER=%d", child.Process.Pid))
	done := make(chan struct{})
	var out []byte
	go func() { out, err = cmd.Output(); close(done) }()
	select {
	case <-done:
	case <-time.After(60 * time.Second):
		if cmd.Process != nil {
			cmd.Process.Kill()
		}
		<-done
		return []string{"unprivileged helper did not finish within 60 s (Gather hangs?)"}, ""
	}
	var rep unprivReport
	if jerr := json.Unmarshal(out, &rep); jerr != nil {
		if err != nil {
			return []string{fmt.Sprintf("unprivileged helper died: %v (a panic inside Gather?) output=%q", err, string(out))}, ""
		}
		return nil, "helper-output-unreadable"
	}
	return rep.Fails, rep.Inconclusive
}

func pedanticComplaint(s string) bool {
	for _, p := range []string{"collected before", "not a described", "is not described", "has help", "inconsistent", "was collected", "duplicate", "unknown Desc", "label names", "does not match"} {
		if strings.Contains(s, p) {
			return true
		}
	}
	return false
}

func boolsT(bs []bool) []string {
	out := make([]string, len(bs))
	for i, b := range bs {
		out[i] = emit.B(b)
	}
	return out
}

func runC18(c *cli.Ctx) error {
	r := emit.NewRng(c.Seed)
	for _, f := range []func(*cli.Ctx, *emit.Rng) error{streamHist, streamMalformed, streamRules, streamNames, streamLayout, streamCollectors} {
		if err := f(c, r.Fork()); err != nil {
			return err
		}
	}
	return nil
}
