package main

// C02: every histogram/summary scrape is a consistent point-in-time snapshot.
// Built with overlay_sched.json (instrumented histogram.go / summary.go).

import (
	"fmt"
	"math"
	"sync"
	"sync/atomic"
	"time"

	"github.com/prometheus/client_golang/prometheus"
	"github.com/prometheus/client_golang/prometheus/vsched"
	dto "github.com/prometheus/client_model/go"

	"verifharness/internal/cli"
	"verifharness/internal/emit"
	"verifharness/internal/schedx"
)

func main() { cli.Main("C02", runC02) }

type op struct {
	write bool
	v     float64
	ex    bool // ObserveWithExemplar (same shared operations as Observe; the exemplar store is an independent atomic.Value)
	exk   int  // exemplar labels: 0 valid, 1 nil (documented: works like Observe), 2 invalid (documented panic AFTER the observation is counted)
}

type callRec struct {
	tid, idx int
	ret      string
	inv, res int64
}

type target interface {
	Observe(float64)
	Write(*dto.Metric) error
}

func mkTarget(summary bool, bounds []float64, hybrid ...bool) target {
	if len(hybrid) > 0 && hybrid[0] && !summary {
		// classic and native buckets together, with a bucket limit that the distinct powers of two exceed at once:
		// the limit strategies (resolution halving) swap and merge the hot and cold counts, too - every scrape must
		// still be a consistent snapshot of the classic part
		return prometheus.NewHistogram(prometheus.HistogramOpts{Name: "h", Buckets: bounds,
			NativeHistogramBucketFactor: 1.1, NativeHistogramMaxBucketNumber: 3}).(target)
	}
	if summary {
		return prometheus.NewSummary(prometheus.SummaryOpts{Name: "s"}).(target) // no objectives => noObjectivesSummary
	}
	return prometheus.NewHistogram(prometheus.HistogramOpts{Name: "h", Buckets: bounds}).(target)
}

// A collected result belongs to the caller: later observations and collections must not change it. Every
// Write output of a run is retained with its text form and re-read when the run is over.
var (
	keptMu    sync.Mutex
	kept      []*dto.Metric
	keptText  []string
	aliasing  int
	aliasWhat string
)

func keep(m *dto.Metric) {
	keptMu.Lock()
	kept = append(kept, m)
	keptText = append(keptText, m.String())
	keptMu.Unlock()
}

func recheckKept() {
	keptMu.Lock()
	for i, m := range kept {
		if now := m.String(); now != keptText[i] {
			aliasing++
			aliasWhat = "was: " + keptText[i] + " now: " + now
		}
	}
	kept, keptText = nil, nil
	keptMu.Unlock()
}

func doOp(t target, o op) string {
	if !o.write {
		if eo, ok := t.(prometheus.ExemplarObserver); ok && o.ex {
			switch o.exk {
			case 1:
				eo.ObserveWithExemplar(o.v, nil)
			case 2:
				func() { // the caller recovers the documented panic (as net/http does): the observation stays counted
					defer func() { recover() }()
					eo.ObserveWithExemplar(o.v, prometheus.Labels{"__reserved": "x"})
				}()
			default:
				eo.ObserveWithExemplar(o.v, prometheus.Labels{"id": "x"})
			}
		} else {
			t.Observe(o.v)
		}
		return emit.C(0)
	}
	m := new(dto.Metric)
	if err := t.Write(m); err != nil {
		return emit.C(9)
	}
	keep(m)
	if m.Summary != nil {
		return emit.C(1, emit.Tup(emit.U(m.Summary.GetSampleCount()), emit.F(m.Summary.GetSampleSum()), emit.L(nil), emit.L(nil)))
	}
	// finite buckets, and separately the explicit +Inf bucket (only present when it carries an exemplar)
	var cum, inf []string
	for _, b := range m.Histogram.Bucket {
		if math.IsInf(b.GetUpperBound(), 1) {
			inf = append(inf, emit.U(b.GetCumulativeCount()))
		} else {
			cum = append(cum, emit.U(b.GetCumulativeCount()))
		}
	}
	return emit.C(1, emit.Tup(emit.U(m.Histogram.GetSampleCount()), emit.F(m.Histogram.GetSampleSum()), emit.L(cum), emit.L(inf)))
}

func progsSx(progs [][]op) string {
	ps := make([]string, len(progs))
	for i, p := range progs {
		os := make([]string, len(p))
		for j, o := range p {
			if o.write {
				os[j] = emit.C(1)
			} else {
				os[j] = emit.C(0, emit.F(o.v))
			}
		}
		ps[i] = emit.L(os)
	}
	return emit.L(ps)
}

func callsSx(all []callRec) string {
	cs := make([]string, len(all))
	for i, c := range all {
		cs[i] = emit.Tup(emit.I(c.tid), emit.I(c.idx), c.ret, emit.Z(c.inv), emit.Z(c.res))
	}
	return emit.L(cs)
}

func genProgs(r *emit.Rng, nthreads, maxOps int) [][]op {
	progs := make([][]op, nthreads)
	next := 0
	for t := range progs {
		n := 1 + r.Intn(maxOps)
		for i := 0; i < n; i++ {
			if r.Chance(2, 5) {
				progs[t] = append(progs[t], op{write: true})
			} else {
				progs[t] = append(progs[t], op{v: math.Ldexp(1, next), ex: r.Chance(1, 3), exk: []int{0, 0, 1, 2}[r.Intn(4)]}) // distinct powers of two identify the observation
				next++
			}
		}
	}
	// at least one writer and one observer
	progs[0][len(progs[0])-1] = op{write: true}
	if !progs[1][0].write {
		return progs
	}
	progs[1][0] = op{v: math.Ldexp(1, next)}
	return progs
}

func runC02(c *cli.Ctx) error {
	r := emit.NewRng(c.Seed)
	layouts := [][]float64{{4}, {2, 16}, {1, 8, 64}}
	for _, summary := range []bool{false, true} {
		name := "hist-sched"
		kind := 0
		if summary {
			name = "summary-sched"
			kind = 1
		}
		w := emit.NewWriter(c.Out, "C02", name)
		schedules, programs, exhaustive, spins := 0, 0, 0, 0
		budget := 1200 * c.Scale
		for schedules < budget {
			nthreads := 2 + r.Intn(2)
			progs := genProgs(r, nthreads, 2)
			bounds := layouts[r.Intn(len(layouts))]
			if summary {
				bounds = nil
			}
			programs++
			var recs [][]callRec
			mk := func() []func() {
				t := mkTarget(summary, bounds)
				recs = make([][]callRec, len(progs))
				bodies := make([]func(), len(progs))
				for ti := range progs {
					ti := ti
					bodies[ti] = func() {
						for i, o := range progs[ti] {
							inv := vsched.Now()
							ret := doOp(t, o)
							recs[ti] = append(recs[ti], callRec{tid: ti, idx: i, ret: ret, inv: inv, res: vsched.Now()})
						}
					}
				}
				return bodies
			}
			visit := func(res vsched.Result) {
				recheckKept()
				var all []callRec
				for _, rr := range recs {
					all = append(all, rr...)
				}
				sched, tr := schedx.TraceSx(res.Trace, true)
				tags := []string{fmt.Sprintf("threads:%d", nthreads), fmt.Sprintf("bounds:%d", len(bounds))}
				for _, s := range res.Trace {
					if s.Label == "spin" {
						tags = append(tags, "collector-spins-on-in-flight-observer")
						spins++
						break
					}
				}
				w.Add(emit.Tup(emit.I(kind), emit.FL(bounds), progsSx(progs), sched, tr, callsSx(all), emit.I(schedx.Flags(res))), len(res.Trace) >= 8, tags...)
			}
			// a DFS prefix (systematic) plus random schedules (diverse) per program
			n, complete := schedx.Explore(mk, 40, 5000, visit)
			schedules += n
			if complete {
				exhaustive++
			}
			for k := 0; k < 20; k++ {
				visit(schedx.Random(mk, r, 5000))
				schedules++
			}
		}
		w.Extra["programs"] = programs
		w.Extra["programs_explored_exhaustively"] = exhaustive
		w.Extra["schedules"] = schedules
		w.Extra["schedules_with_spin"] = spins
		if aliasing > 0 {
			w.Extra["direct_failures"] = []map[string]interface{}{{"index": -1, "what": fmt.Sprintf("%d collected results changed after a later observation/collection (a Write output shares state with the metric): %s", aliasing, aliasWhat)}}
			aliasing = 0
		}
		if err := w.Flush(); err != nil {
			return err
		}
	}
	// ---- stress with real goroutines (wrappers are pass-throughs), logical clock; history checker only
	for _, summary := range []bool{false, true} {
		name := "hist-stress"
		kind := 2
		if summary {
			name = "summary-stress"
			kind = 3
		}
		w := emit.NewWriter(c.Out, "C02", name)
		for it := 0; it < 40*c.Scale; it++ {
			nthreads := 4 + r.Intn(3)
			progs := genProgs(r, nthreads, 6)
			bounds := layouts[r.Intn(len(layouts))]
			if summary {
				bounds = nil
			}
			hybrid := !summary && it%2 == 1
			t := mkTarget(summary, bounds, hybrid)
			var clock int64
			recs := make([][]callRec, nthreads)
			var wg sync.WaitGroup
			start := make(chan struct{})
			for ti := range progs {
				ti := ti
				wg.Add(1)
				go func() {
					defer wg.Done()
					<-start
					for i, o := range progs[ti] {
						inv := atomic.AddInt64(&clock, 1)
						ret := doOp(t, o)
						res := atomic.AddInt64(&clock, 1)
						recs[ti] = append(recs[ti], callRec{tid: ti, idx: i, ret: ret, inv: inv, res: res})
					}
				}()
			}
			close(start)
			done := make(chan struct{})
			go func() { wg.Wait(); close(done) }()
			flags := 0
			select {
			case <-done:
			case <-time.After(20 * time.Second):
				flags = 8 // a call never returned: deadlock / livelock
			}
			var all []callRec
			if flags == 0 {
				for _, rr := range recs {
					all = append(all, rr...)
				}
				recheckKept()
			}
			w.Add(emit.Tup(emit.I(kind), emit.FL(bounds), progsSx(progs), emit.L(nil), emit.L(nil), callsSx(all), emit.I(flags)), true, fmt.Sprintf("threads:%d", nthreads), fmt.Sprintf("classic+native-with-bucket-limit:%v", hybrid))
			if flags != 0 {
				w.Extra["stopped_after_hang_at_run"] = it
				break
			}
		}
		if aliasing > 0 {
			w.Extra["direct_failures"] = []map[string]interface{}{{"index": -1, "what": fmt.Sprintf("%d collected results changed after a later observation/collection (a Write output shares state with the metric): %s", aliasing, aliasWhat)}}
			aliasing = 0
		}
		if err := w.Flush(); err != nil {
			return err
		}
	}
	return nil
}
