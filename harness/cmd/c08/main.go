package main

import (
	"errors"
	"fmt"
	"sort"
	"strings"

	"github.com/prometheus/client_golang/prometheus"

	"verifharness/internal/cli"
	"verifharness/internal/emit"
)

// C08: Registration enforces descriptor uniqueness and consistency, atomically.
// Wire format: see coq/theories/Run/C08_run.v.

func main() { cli.Main("C08", runC08) }

type rawDesc struct {
	invalid bool // NewInvalidDesc
	fq      string
	help    string
	vars    []string
	consts  map[string]string
}

func (d rawDesc) clone() rawDesc {
	n := rawDesc{invalid: d.invalid, fq: d.fq, help: d.help, vars: append([]string(nil), d.vars...), consts: map[string]string{}}
	for k, v := range d.consts {
		n.consts[k] = v
	}
	return n
}

func sortedKeys(m map[string]string) []string {
	ks := make([]string, 0, len(m))
	for k := range m {
		ks = append(ks, k)
	}
	sort.Strings(ks)
	return ks
}

func emitPairs(m map[string]string) string {
	var it []string
	for _, k := range sortedKeys(m) {
		it = append(it, emit.Pair(emit.S(k), emit.S(m[k])))
	}
	return emit.L(it)
}

func (d rawDesc) term() string {
	if d.invalid {
		return emit.C(0)
	}
	return emit.C(1, emit.S(d.fq), emit.S(d.help), emit.SL(d.vars), emitPairs(d.consts))
}

func (d rawDesc) build() *prometheus.Desc {
	if d.invalid {
		return prometheus.NewInvalidDesc(errors.New("driver: invalid"))
	}
	return prometheus.NewDesc(d.fq, d.help, d.vars, prometheus.Labels(d.consts))
}

// coll emits its descriptors in the given order, duplicates included.
type coll struct {
	raws  []rawDesc
	descs []*prometheus.Desc
}

func newColl(raws []rawDesc) *coll {
	c := &coll{raws: raws}
	for _, r := range raws {
		c.descs = append(c.descs, r.build())
	}
	return c
}

func (c *coll) Describe(ch chan<- *prometheus.Desc) {
	for _, d := range c.descs {
		ch <- d
	}
}

// Collect: one gauge per distinct descriptor (by name and const label values).
func (c *coll) Collect(ch chan<- prometheus.Metric) {
	seen := map[string]bool{}
	for i, r := range c.raws {
		if r.invalid {
			continue
		}
		key := r.fq
		for _, k := range sortedKeys(r.consts) {
			key += "\xff" + r.consts[k]
		}
		if seen[key] {
			continue
		}
		seen[key] = true
		vals := make([]string, len(r.vars))
		for j := range vals {
			vals[j] = "v"
		}
		m, err := prometheus.NewConstMetric(c.descs[i], prometheus.GaugeValue, 1, vals...)
		if err == nil {
			ch <- m
		}
	}
}

type wrapper struct {
	prefix string
	labels map[string]string
}

type op struct {
	kind int // 0 register, 1 unregister, 2 gather, 3 MustRegister(cs...)
	ws   []wrapper
	c    int
	must bool
	cs   []int
}

type c08Case struct {
	colls    [][]rawDesc
	ops      []op
	pedantic bool
}

func classify(err error, colls []*coll) (int, int) {
	if err == nil {
		return 0, 0
	}
	var are prometheus.AlreadyRegisteredError
	if errors.As(err, &are) {
		for i, c := range colls {
			if are.ExistingCollector == prometheus.Collector(c) {
				return 1, i
			}
		}
		return 1, -1
	}
	msg := err.Error()
	switch {
	case strings.Contains(msg, " is invalid: "):
		return 2, 0
	case strings.Contains(msg, "already exists with the same fully-qualified name and const label values"):
		return 3, 0
	case strings.Contains(msg, "has different label names or a different help string"),
		strings.Contains(msg, "have inconsistent label names or help strings"):
		return 4, 0
	}
	return 5, 0
}

// execute runs the case on the real registry; returns the case term and the result kinds seen.
func execute(cs c08Case) (string, map[int]int, int) {
	var reg *prometheus.Registry
	if cs.pedantic {
		reg = prometheus.NewPedanticRegistry()
	} else {
		reg = prometheus.NewRegistry()
	}
	colls := make([]*coll, len(cs.colls))
	collTerms := make([]string, len(cs.colls))
	for i, raws := range cs.colls {
		colls[i] = newColl(raws)
		ts := make([]string, len(raws))
		for j, r := range raws {
			ts[j] = r.term()
		}
		collTerms[i] = emit.L(ts)
	}
	kinds := map[int]int{}
	unregTrue := 0
	mustPanics := 0
	opTerms := make([]string, len(cs.ops))
	resTerms := make([]string, len(cs.ops))
	for i, o := range cs.ops {
		if o.kind == 2 {
			opTerms[i] = emit.C(2)
			mfs, _ := reg.Gather()
			names := make([]string, 0, len(mfs))
			for _, mf := range mfs {
				names = append(names, mf.GetName())
			}
			sort.Strings(names)
			resTerms[i] = emit.C(2, emit.SL(names))
			continue
		}
		var r prometheus.Registerer = reg
		wts := make([]string, len(o.ws))
		for j := len(o.ws) - 1; j >= 0; j-- {
			w := o.ws[j]
			if len(w.labels) > 0 {
				r = prometheus.WrapRegistererWith(prometheus.Labels(w.labels), r)
			} else {
				r = prometheus.WrapRegistererWithPrefix(w.prefix, r)
			}
		}
		for j, w := range o.ws {
			if len(w.labels) > 0 {
				wts[j] = emit.Pair(emit.S(""), emitPairs(w.labels))
			} else {
				wts[j] = emit.Pair(emit.S(w.prefix), emit.L(nil))
			}
		}
		if o.kind == 3 {
			idx := make([]string, len(o.cs))
			args := make([]prometheus.Collector, len(o.cs))
			for j, c := range o.cs {
				idx[j] = emit.I(c)
				args[j] = colls[c]
			}
			opTerms[i] = emit.C(3, emit.L(wts), emit.L(idx))
			var err error
			func() {
				defer func() {
					if p := recover(); p != nil {
						if e, ok := p.(error); ok {
							err = e
						} else {
							err = fmt.Errorf("panic: %v", p)
						}
					}
				}()
				r.MustRegister(args...)
			}()
			k, a := classify(err, colls)
			kinds[k]++
			if k != 0 {
				mustPanics++
			}
			resTerms[i] = emit.C(0, emit.I(k), emit.I(a))
			continue
		}
		opTerms[i] = emit.C(o.kind, emit.L(wts), emit.I(o.c))
		if o.kind == 0 {
			var err error
			if o.must {
				func() {
					defer func() {
						if p := recover(); p != nil {
							if e, ok := p.(error); ok {
								err = e
							} else {
								err = fmt.Errorf("panic: %v", p)
							}
						}
					}()
					r.MustRegister(colls[o.c])
				}()
			} else {
				err = r.Register(colls[o.c])
			}
			k, a := classify(err, colls)
			kinds[k]++
			resTerms[i] = emit.C(0, emit.I(k), emit.I(a))
		} else {
			b := r.Unregister(colls[o.c])
			if b {
				unregTrue++
			}
			resTerms[i] = emit.C(1, emit.B(b))
		}
	}
	kinds[100] = mustPanics
	return emit.Tup(emit.L(collTerms), emit.L(opTerms), emit.L(resTerms)), kinds, unregTrue
}

// ---------- generators ----------

var (
	goodNames  = []string{"m", "n", "a_m", "m_a", "x:y", "m\xc3\xa9", "a_a_m"}
	goodHelps  = []string{"h", "h2", "", "h\xc3\xa9", "h x"}
	goodLabels = []string{"a", "b", "c", "x", "l\xc3\xa9", "_a"}
	goodValues = []string{"1", "2", "", "v\xc3\xa9", "1 2"}
	prefixes   = []string{"a_", "a_a_", "p", ""}
	// byte strings on both sides of every utf8.ValidString boundary
	utf8Valid   = []string{"\xc2\x80", "\xdf\xbf", "\xe0\xa0\x80", "\xed\x9f\xbf", "\xee\x80\x80", "\xef\xbf\xbd", "\xf0\x90\x80\x80", "\xf4\x8f\xbf\xbf", "\x7f", "a\xe1\x80\x80b"}
	utf8Invalid = []string{"\xc0\x80", "\xc1\xbf", "\xe0\x9f\xbf", "\xed\xa0\x80", "\xf0\x8f\xbf\xbf", "\xf4\x90\x80\x80", "\xf5\x80\x80\x80", "\x80", "\xc2", "\xe1\x80", "\xf1\x80\x80", "\xff", "\xfe", "a\xc2", "\xc2\xc0", "\xe1\x80\x7f", "\xf1\x80\x80\xc0"}
)

func pick(r *emit.Rng, l []string) string { return l[r.Intn(len(l))] }

func genDesc(r *emit.Rng) rawDesc {
	ni := r.Intn(4 + r.Intn(4))
	d := rawDesc{fq: goodNames[ni], help: goodHelps[0], consts: map[string]string{}}
	if r.Chance(1, 6) {
		d.help = pick(r, goodHelps)
	}
	labels := append([]string(nil), goodLabels...)
	nc, nv := ni%3, (ni/2)%3
	if r.Chance(1, 4) {
		// dimensions unrelated to the name
		for i := len(labels) - 1; i > 0; i-- {
			j := r.Intn(i + 1)
			labels[i], labels[j] = labels[j], labels[i]
		}
		nc, nv = r.Intn(3), r.Intn(3)
	}
	for i := 0; i < nc; i++ {
		d.consts[labels[i]] = pick(r, goodValues[:2+r.Intn(4)])
	}
	d.vars = append([]string(nil), labels[nc:nc+nv]...)
	return d
}

// mutate returns a variation of d that is interesting w.r.t. identity / dimensions.
func mutate(r *emit.Rng, d rawDesc) (rawDesc, string) {
	n := d.clone()
	if n.invalid {
		return n, "mut:none"
	}
	x := r.Intn(15)
	if x >= 9 {
		x = (x - 9) / 3 * 2 // 0 (same) or 2 (values) more often
	}
	switch x {
	case 0:
		return n, "mut:same"
	case 1:
		n.help = pick(r, goodHelps)
		return n, "mut:help"
	case 2: // other const values, same dimensions
		for k := range n.consts {
			n.consts[k] = pick(r, goodValues)
		}
		return n, "mut:values"
	case 3: // move a const label to the variable labels
		ks := sortedKeys(n.consts)
		if len(ks) > 0 {
			k := ks[r.Intn(len(ks))]
			delete(n.consts, k)
			n.vars = append(n.vars, k)
		}
		return n, "mut:const-to-var"
	case 4: // move a variable label to the const labels
		if len(n.vars) > 0 {
			i := r.Intn(len(n.vars))
			n.consts[n.vars[i]] = pick(r, goodValues)
			n.vars = append(n.vars[:i:i], n.vars[i+1:]...)
		}
		return n, "mut:var-to-const"
	case 5: // permute variable labels (same set)
		for i := len(n.vars) - 1; i > 0; i-- {
			j := r.Intn(i + 1)
			n.vars[i], n.vars[j] = n.vars[j], n.vars[i]
		}
		return n, "mut:perm-vars"
	case 6: // rename a const label, keeping the value (same id, other dimensions)
		ks := sortedKeys(n.consts)
		if len(ks) > 0 {
			k := ks[r.Intn(len(ks))]
			v := n.consts[k]
			delete(n.consts, k)
			nk := pick(r, goodLabels)
			if _, ok := n.consts[nk]; !ok {
				n.consts[nk] = v
			} else {
				n.consts[k] = v
			}
		}
		return n, "mut:rename-const"
	case 7:
		n.fq = pick(r, goodNames)
		return n, "mut:name"
	default: // add a label
		l := pick(r, goodLabels)
		if _, ok := n.consts[l]; !ok {
			if r.Bool() {
				n.consts[l] = pick(r, goodValues)
			} else {
				n.vars = append(n.vars, l)
			}
		}
		return n, "mut:add-label"
	}
}

func genMalformed(r *emit.Rng) (rawDesc, string) {
	d := genDesc(r)
	switch r.Intn(12) {
	case 0:
		return rawDesc{invalid: true}, "bad:NewInvalidDesc"
	case 1:
		d.fq = ""
		return d, "bad:empty-name"
	case 2:
		d.fq = pick(r, utf8Invalid)
		return d, "bad:name-utf8"
	case 3:
		d.fq = pick(r, utf8Valid)
		return d, "edge:name-utf8-valid"
	case 4:
		d.consts[pick(r, []string{"", "__r", "__"})] = "1"
		return d, "bad:const-label-name"
	case 5:
		d.consts[pick(r, utf8Invalid)] = "1"
		return d, "bad:const-label-utf8"
	case 6:
		d.consts["a"] = pick(r, utf8Invalid)
		delVar(&d, "a")
		return d, "bad:const-value-utf8"
	case 7:
		d.vars = append(d.vars, pick(r, []string{"", "__r", "__", utf8Invalid[r.Intn(len(utf8Invalid))]}))
		return d, "bad:var-label-name"
	case 8: // duplicate between const and variable labels, or within the variable labels
		if r.Bool() || len(d.vars) == 0 {
			d.consts["a"] = "1"
			d.vars = append(d.vars, "a")
		} else {
			d.vars = append(d.vars, d.vars[0])
		}
		return d, "bad:duplicate-label"
	case 9:
		l := pick(r, utf8Valid)
		d.consts[l] = pick(r, utf8Valid)
		return d, "edge:label-utf8-valid"
	case 10:
		d.help = pick(r, []string{"\xfe", "\xc0\x80", "h\x00", "$a"})
		return d, "edge:help-bytes"
	default: // label names that merely look reserved
		d.vars = append(d.vars, pick(r, []string{"_", "_x_", "a__", "_\xc3\xa9"}))
		return d, "edge:label-underscore"
	}
}

func delVar(d *rawDesc, n string) {
	out := d.vars[:0:0]
	for _, v := range d.vars {
		if v != n {
			out = append(out, v)
		}
	}
	d.vars = out
}

func genWrappers(r *emit.Rng, heavy bool) []wrapper {
	p := 10
	if heavy {
		p = 2
	}
	if !r.Chance(1, p) && !heavy || (heavy && r.Chance(1, 5)) {
		return nil
	}
	n := 1
	if r.Chance(1, 3) {
		n = 2
	}
	ws := make([]wrapper, n)
	for i := range ws {
		if r.Bool() {
			ws[i] = wrapper{prefix: pick(r, prefixes)}
		} else {
			ls := map[string]string{}
			ls[pick(r, goodLabels)] = pick(r, goodValues[:2])
			if r.Chance(1, 4) {
				ls[pick(r, goodLabels)] = pick(r, goodValues[:2])
			}
			ws[i] = wrapper{labels: ls}
		}
	}
	return ws
}

// genCase: a few collectors whose descriptor sets overlap, then a sequence of operations.
func genCase(r *emit.Rng, malformed, heavyWrap bool) (c08Case, []string) {
	tags := []string{}
	cs := c08Case{pedantic: r.Chance(1, 3)}
	var pool []rawDesc
	ncoll := 2 + r.Intn(4)
	for i := 0; i < ncoll; i++ {
		nd := r.Intn(5)
		if r.Chance(1, 12) {
			nd = 0
		}
		var ds []rawDesc
		for j := 0; j < nd; j++ {
			var d rawDesc
			switch {
			case malformed && r.Chance(1, 4):
				var t string
				d, t = genMalformed(r)
				tags = append(tags, t)
			case len(pool) > 0 && r.Chance(3, 5):
				var t string
				d, t = mutate(r, pool[r.Intn(len(pool))])
				tags = append(tags, t)
			default:
				d = genDesc(r)
			}
			ds = append(ds, d)
			pool = append(pool, d)
		}
		// duplicates inside the collector
		if len(ds) > 0 && r.Chance(1, 5) {
			ds = append(ds, ds[r.Intn(len(ds))].clone())
			tags = append(tags, "coll:dup-desc")
		}
		// a whole-collector copy of an earlier collector, permuted / with duplicates
		if i > 0 && r.Chance(1, 4) {
			src := cs.colls[r.Intn(i)]
			ds = nil
			for _, d := range src {
				ds = append(ds, d.clone())
			}
			for k := len(ds) - 1; k > 0; k-- {
				j := r.Intn(k + 1)
				ds[k], ds[j] = ds[j], ds[k]
			}
			if len(ds) > 0 && r.Bool() {
				ds = append(ds, ds[r.Intn(len(ds))].clone())
			}
			tags = append(tags, "coll:copy-permuted")
		}
		cs.colls = append(cs.colls, ds)
	}
	nops := 5 + r.Intn(10)
	for i := 0; i < nops; i++ {
		var o op
		switch x := r.Intn(10); {
		case x < 5:
			o = op{kind: 0, c: r.Intn(ncoll), must: r.Chance(1, 4)}
		case x < 8:
			o = op{kind: 1, c: r.Intn(ncoll)}
		case x < 9:
			o = op{kind: 2}
		default: // MustRegister of several collectors at once
			o = op{kind: 3, ws: genWrappers(r, heavyWrap)}
			for k := 2 + r.Intn(3); k > 0; k-- {
				o.cs = append(o.cs, r.Intn(ncoll))
			}
			cs.ops = append(cs.ops, o)
			o = op{kind: 2}
		}
		if o.kind < 2 {
			o.ws = genWrappers(r, heavyWrap)
			// re-use the wrappers of an earlier operation on the same collector so that
			// wrapped Unregister / repeated Register hit
			if i > 0 && r.Chance(1, 2) {
				for k := i - 1; k >= 0; k-- {
					if cs.ops[k].kind < 2 && cs.ops[k].c == o.c {
						o.ws = cs.ops[k].ws
						break
					}
				}
			}
		}
		cs.ops = append(cs.ops, o)
	}
	cs.ops = append(cs.ops, op{kind: 2})
	return cs, tags
}

func addCase(w *emit.Writer, cs c08Case, tags []string) {
	term, kinds, unregTrue := execute(cs)
	names := map[int]string{0: "res:nil", 1: "res:AlreadyRegistered", 2: "res:invalid", 3: "res:duplicate", 4: "res:inconsistent", 5: "res:other"}
	rej := 0
	w.Tag("res:MustRegister-multi-panics", kinds[100])
	delete(kinds, 100)
	for k, n := range kinds {
		w.Tag(names[k], n)
		if k >= 2 {
			rej += n
		}
	}
	w.Tag("res:unregister-true", unregTrue)
	if cs.pedantic {
		tags = append(tags, "registry:pedantic")
	} else {
		tags = append(tags, "registry:plain")
	}
	wrapped := false
	for _, o := range cs.ops {
		if len(o.ws) > 0 {
			wrapped = true
		}
	}
	if wrapped {
		tags = append(tags, "ops:wrapped")
	}
	// de-duplicate tags per case
	seen := map[string]bool{}
	var ts []string
	for _, t := range tags {
		if !seen[t] {
			seen[t] = true
			ts = append(ts, t)
		}
	}
	// non-trivial: at least one acceptance and (a rejection, an AlreadyRegistered or a successful Unregister)
	nontrivial := kinds[0] > 0 && (rej > 0 || kinds[1] > 0 || unregTrue > 0)
	w.Add(term, nontrivial, ts...)
}

func runC08(c *cli.Ctx) error {
	r := emit.NewRng(c.Seed)

	w := emit.NewWriter(c.Out, "C08", "seq")
	for i := 0; i < 500*c.Scale; i++ {
		cs, tags := genCase(r, false, false)
		addCase(w, cs, tags)
	}
	if err := w.Flush(); err != nil {
		return err
	}

	w = emit.NewWriter(c.Out, "C08", "wrap")
	for i := 0; i < 300*c.Scale; i++ {
		cs, tags := genCase(r, false, true)
		addCase(w, cs, tags)
	}
	if err := w.Flush(); err != nil {
		return err
	}

	w = emit.NewWriter(c.Out, "C08", "malformed")
	for i := 0; i < 400*c.Scale; i++ {
		cs, tags := genCase(r, true, r.Chance(1, 3))
		addCase(w, cs, tags)
	}
	if err := w.Flush(); err != nil {
		return err
	}

	// order / multiplicity: B emits a permutation with duplicates of A's descriptors
	w = emit.NewWriter(c.Out, "C08", "perm")
	for i := 0; i < 200*c.Scale; i++ {
		n := 1 + r.Intn(4)
		var a []rawDesc
		for j := 0; j < n; j++ {
			if j > 0 && r.Chance(1, 2) {
				d, _ := mutate(r, a[r.Intn(len(a))])
				a = append(a, d)
			} else {
				a = append(a, genDesc(r))
			}
		}
		b := make([]rawDesc, 0, 2*n)
		for _, d := range a {
			b = append(b, d.clone())
		}
		for k := len(b) - 1; k > 0; k-- {
			j := r.Intn(k + 1)
			b[k], b[j] = b[j], b[k]
		}
		for k := r.Intn(3); k > 0; k-- {
			b = append(b, b[r.Intn(len(b))].clone())
		}
		other := []rawDesc{genDesc(r)}
		ws := genWrappers(r, r.Bool())
		cs := c08Case{pedantic: r.Bool(), colls: [][]rawDesc{a, b, other}}
		first, second := 0, 1
		if r.Bool() {
			first, second = 1, 0
		}
		cs.ops = []op{{kind: 0, c: first, ws: ws}, {kind: 0, c: second, ws: ws}, {kind: 2}, {kind: 0, c: 2},
			{kind: 1, c: second, ws: ws}, {kind: 2}, {kind: 1, c: first, ws: ws}, {kind: 0, c: second, ws: ws}, {kind: 2}}
		addCase(w, cs, []string{"perm"})
	}
	if err := w.Flush(); err != nil {
		return err
	}

	// MustRegister(c1..cn) with a rejected collector that is not the last one: the trailing collectors
	// must stay unregistered (Gather, later Register / Unregister of them)
	w = emit.NewWriter(c.Out, "C08", "must")
	for i := 0; i < 150*c.Scale; i++ {
		a := genDesc(r)
		var bad []rawDesc
		var tag string
		switch r.Intn(4) {
		case 0:
			bad, tag = []rawDesc{{invalid: true}}, "must:invalid"
		case 1:
			bad, tag = []rawDesc{a.clone()}, "must:already-registered"
		case 2:
			d := a.clone()
			d.help += "!"
			for k := range d.consts {
				d.consts[k] += "x"
			}
			bad, tag = []rawDesc{d}, "must:inconsistent"
		default:
			fresh := genDesc(r)
			fresh.fq = "dup_" + fresh.fq
			bad, tag = []rawDesc{a.clone(), fresh}, "must:duplicate"
		}
		t1, t2, lead := genDesc(r), genDesc(r), genDesc(r)
		t1.fq, t2.fq, lead.fq = "t1_"+t1.fq, "t2_"+t2.fq, "lead_"+lead.fq
		cs := c08Case{pedantic: r.Bool(), colls: [][]rawDesc{{a}, bad, {t1}, {t2}, {lead}}}
		ws := genWrappers(r, r.Bool())
		var first op
		if len(ws) > 0 && r.Bool() {
			first = op{kind: 0, c: 0, ws: ws}
		} else {
			first = op{kind: 0, c: 0}
			if tag != "must:invalid" {
				ws = nil // the rejection must come from the collector registered without wrappers
			}
		}
		var list []int
		switch r.Intn(3) {
		case 0:
			list = []int{1, 2}
		case 1:
			list = []int{4, 1, 2, 3}
		default:
			list = []int{1, 2, 3}
		}
		cs.ops = []op{first, {kind: 3, ws: ws, cs: list}, {kind: 2}, {kind: 0, c: 2, ws: ws}, {kind: 1, c: 3, ws: ws},
			{kind: 3, ws: ws, cs: []int{3, 4}}, {kind: 2}, {kind: 1, c: 2, ws: ws}, {kind: 2}}
		addCase(w, cs, []string{tag, fmt.Sprintf("must:len%d", len(list))})
	}
	if err := w.Flush(); err != nil {
		return err
	}

	// long names / const label values sharing a long prefix and differing only near the end
	w = emit.NewWriter(c.Out, "C08", "long")
	lens := []int{50, 100, 120, 125, 126, 127, 128, 129, 130, 135, 200, 250, 254, 255, 256, 257, 260, 300, 500, 511, 512, 513, 1000, 1023, 1024, 1025}
	filler := func(n int) string {
		b := make([]byte, n)
		for k := range b {
			b[k] = "abcdefghij"[k%10]
		}
		return string(b)
	}
	for i := 0; i < 120*c.Scale; i++ {
		n := lens[r.Intn(len(lens))]
		if c.Scale > 1 && r.Chance(1, 10) {
			n = 1 + r.Intn(5000)
		}
		var da, db rawDesc
		mode := r.Intn(4)
		switch mode {
		case 0: // long name, differs in the last byte
			da = rawDesc{fq: "n" + filler(n) + "a", help: "h", consts: map[string]string{}}
			db = rawDesc{fq: "n" + filler(n) + "b", help: "h", consts: map[string]string{}}
		case 1: // long const value, differs in the last byte
			da = rawDesc{fq: "m", help: "h", consts: map[string]string{"a": filler(n) + "1"}}
			db = rawDesc{fq: "m", help: "h", consts: map[string]string{"a": filler(n) + "2"}}
		case 2: // long first value, the second (short) value differs
			da = rawDesc{fq: "m", help: "h", consts: map[string]string{"a": filler(n), "b": "1"}, vars: []string{"x"}}
			db = rawDesc{fq: "m", help: "h", consts: map[string]string{"a": filler(n), "b": "2"}, vars: []string{"x"}}
		default: // long name, short value differs
			da = rawDesc{fq: "n" + filler(n), help: "h", consts: map[string]string{"a": "1"}}
			db = rawDesc{fq: "n" + filler(n), help: "h", consts: map[string]string{"a": "2"}}
		}
		other := genDesc(r)
		cs := c08Case{pedantic: r.Bool(), colls: [][]rawDesc{{da}, {db}, {db.clone(), other}}}
		ws := genWrappers(r, false)
		cs.ops = []op{{kind: 0, c: 0, ws: ws}, {kind: 1, c: 1, ws: ws}, {kind: 2}, {kind: 0, c: 1, ws: ws}, {kind: 0, c: 2, ws: ws}, {kind: 2},
			{kind: 1, c: 0, ws: ws}, {kind: 2}, {kind: 0, c: 0, ws: ws}, {kind: 1, c: 1, ws: ws}, {kind: 2}}
		addCase(w, cs, []string{fmt.Sprintf("long:mode%d", mode), fmt.Sprintf("long:len<=%d", (n/128+1)*128)})
	}
	if err := w.Flush(); err != nil {
		return err
	}

	// const label values permuted between the label names: same name, same dimensions, same multiset of
	// values, different label maps - different descriptors (also when some labels come from a wrapper)
	w = emit.NewWriter(c.Out, "C08", "valperm")
	for i := 0; i < 150*c.Scale; i++ {
		nl := 2 + r.Intn(3)
		names := []string{"src", "dst", "a", "zone"}[:nl]
		vals := []string{"east", "west", "1", ""}[:nl]
		if r.Chance(1, 4) {
			vals[nl-1] = vals[0] // a repeated value: some permutations are the identity
		}
		perm := func(kind int) []string {
			out := append([]string(nil), vals...)
			switch kind {
			case 0: // rotate
				out = append(out[1:], out[0])
			case 1: // swap the first two
				out[0], out[1] = out[1], out[0]
			case 2: // swap first and last
				out[0], out[nl-1] = out[nl-1], out[0]
			default: // random shuffle
				for k := nl - 1; k > 0; k-- {
					j := r.Intn(k + 1)
					out[k], out[j] = out[j], out[k]
				}
			}
			return out
		}
		// nw of the labels (the last ones) are supplied by a label wrapper instead of the descriptor
		nw := 0
		if r.Chance(1, 3) {
			nw = 1 + r.Intn(nl-1)
		}
		mkDesc := func(vs []string) (rawDesc, []wrapper) {
			d := rawDesc{fq: "m", help: "h", consts: map[string]string{}, vars: []string{"l"}}
			wl := map[string]string{}
			for k, n := range names {
				if k >= nl-nw {
					wl[n] = vs[k]
				} else {
					d.consts[n] = vs[k]
				}
			}
			if nw == 0 {
				return d, nil
			}
			return d, []wrapper{{labels: wl}}
		}
		dA, wA := mkDesc(vals)
		dB, wB := mkDesc(perm(r.Intn(4)))
		dC, wC := mkDesc(perm(r.Intn(4)))
		cs := c08Case{pedantic: r.Bool(), colls: [][]rawDesc{{dA}, {dB}, {dC}}}
		cs.ops = []op{{kind: 0, c: 0, ws: wA}, {kind: 1, c: 1, ws: wB}, {kind: 2}, {kind: 0, c: 1, ws: wB}, {kind: 0, c: 2, ws: wC}, {kind: 2},
			{kind: 1, c: 0, ws: wA}, {kind: 2}, {kind: 1, c: 2, ws: wC}, {kind: 0, c: 0, ws: wA}, {kind: 2}}
		addCase(w, cs, []string{fmt.Sprintf("valperm:labels%d", nl), fmt.Sprintf("valperm:wrapped%d", nw)})
	}
	if err := w.Flush(); err != nil {
		return err
	}

	// concatenation ambiguity: the same bytes split differently over name / const values / help / label names
	w = emit.NewWriter(c.Out, "C08", "concat")
	splits := func(s string) [][2]string {
		var out [][2]string
		for i := 1; i <= len(s); i++ {
			out = append(out, [2]string{s[:i], s[i:]})
		}
		return out
	}
	for i := 0; i < 150*c.Scale; i++ {
		var colls [][]rawDesc
		mode := r.Intn(6)
		base := pick(r, []string{"m_a_b", "ab12", "m\xc3\xa9x"})
		// strings a mis-encoded separator could be made of while still being legal inside a value / name
		sepLike := pick(r, []string{"\xc3\xbf", "\xc3\xbf", "\xc3\xbe", "\x00", "\x01", "\x1f", ",", ";", "|", "=", "\"", " ", "\n", "\xef\xbf\xbd", "\xef\xbf\xbf", "\xc3\xbf\xc3\xbf"})
		for k := 0; k < 2+r.Intn(2); k++ {
			var d rawDesc
			switch mode {
			case 0: // name | value
				sp := splits(base)
				x := sp[r.Intn(len(sp))]
				d = rawDesc{fq: x[0], help: "h", consts: map[string]string{"a": x[1]}}
			case 1: // value | value
				sp := splits(base)
				x := sp[r.Intn(len(sp))]
				d = rawDesc{fq: "m", help: "h", consts: map[string]string{"a": x[0], "b": x[1]}}
			case 2: // help | const label name
				sp := splits("hab")
				x := sp[r.Intn(len(sp))]
				d = rawDesc{fq: "m", help: x[0], consts: map[string]string{}}
				if x[1] != "" {
					d.consts[x[1]] = fmt.Sprint(k)
				} else {
					d.consts = map[string]string{}
					d.vars = []string{"v" + fmt.Sprint(k)}
				}
			case 4: // the separator-like string moves between two const values: {a: x S y, b: z} vs {a: x, b: y S z}
				if k%2 == 0 {
					d = rawDesc{fq: "m", help: "h", consts: map[string]string{"a": "x" + sepLike + "y", "b": "z"}}
				} else {
					d = rawDesc{fq: "m", help: "h", consts: map[string]string{"a": "x", "b": "y" + sepLike + "z"}}
				}
			case 5: // ... or between the name and a const value: name m S x {} vs name m {a: x}
				if k%2 == 0 {
					d = rawDesc{fq: "m" + sepLike + "x", help: "h", consts: map[string]string{}}
				} else {
					d = rawDesc{fq: "m", help: "h", consts: map[string]string{"a": "x"}}
				}
			default: // label name | label name, const or variable
				sp := splits("abcd")
				x := sp[r.Intn(len(sp)-1)]
				d = rawDesc{fq: "m", help: "h", consts: map[string]string{x[0]: fmt.Sprint(k)}, vars: []string{x[1]}}
				if r.Bool() {
					d.consts[x[1]] = "z"
					d.vars = nil
				}
			}
			colls = append(colls, []rawDesc{d})
		}
		cs := c08Case{pedantic: r.Bool(), colls: colls}
		for k := range colls {
			cs.ops = append(cs.ops, op{kind: 0, c: k})
		}
		cs.ops = append(cs.ops, op{kind: 2}, op{kind: 1, c: r.Intn(len(colls))}, op{kind: 0, c: r.Intn(len(colls))}, op{kind: 2})
		addCase(w, cs, []string{fmt.Sprintf("concat:mode%d", mode)})
	}
	if err := w.Flush(); err != nil {
		return err
	}

	if err := runSched(c, r); err != nil {
		return err
	}
	// known finding dimhash-0xff: the separator byte inside a help string
	w = emit.NewWriter(c.Out, "C08", "known-dimhash-0xff")
	cs := c08Case{colls: [][]rawDesc{
		{{fq: "m", help: "h", consts: map[string]string{"x": "1"}}},
		{{fq: "m", help: "h\xffx", consts: map[string]string{}}}},
		ops: []op{{kind: 0, c: 0}, {kind: 0, c: 1}, {kind: 2}}}
	addCase(w, cs, []string{"known"})
	if err := w.Flush(); err != nil {
		return err
	}

	// known finding dimhash-dollar: a const label named "$x" against a variable label "x"
	w = emit.NewWriter(c.Out, "C08", "known-dimhash-dollar")
	cs = c08Case{colls: [][]rawDesc{
		{{fq: "m", help: "h", consts: map[string]string{"$x": "1"}}},
		{{fq: "m", help: "h", vars: []string{"x"}, consts: map[string]string{}}}},
		ops: []op{{kind: 0, c: 0}, {kind: 0, c: 1}, {kind: 2}}}
	addCase(w, cs, []string{"known"})
	return w.Flush()
}
