package main

import (
	"fmt"
	"runtime"
	"sort"
	"strings"

	"github.com/prometheus/client_golang/prometheus"
	"github.com/prometheus/client_golang/prometheus/vsched"

	"verifharness/internal/cli"
	"verifharness/internal/emit"
	"verifharness/internal/schedx"
)

// Stream "sched": small concurrent programs on one Registry under the deterministic scheduler
// (registry.go instrumented: every operation on r.mtx is a schedule point; the Describe goroutines run
// unmanaged, vsched.PlainGo, because the caller joins them through descChan within its own step).
// All interleavings of the mutex operations are enumerated (DFS, exhaustive when small) and sampled
// (random); each run is emitted as
//   (4 collectors progs sched trace results times flags)
// see coq/theories/Run/C08_run.v. Times are vsched's step counter read before the invocation and after
// the response, i.e. exactly the machine's clock.

type schedCall struct {
	kind int // 0 Register, 1 Unregister
	c    int
}

// yieldColl is a collector whose Describe yields between descriptors (the Describe phases of
// concurrent calls then really overlap in time).
type yieldColl struct{ *coll }

func (y yieldColl) Describe(ch chan<- *prometheus.Desc) {
	for _, d := range y.descs {
		runtime.Gosched()
		ch <- d
	}
}

// idKey identifies the collector id of a descriptor list: the set of (name, const label values).
func idKey(raws []rawDesc) string {
	set := map[string]bool{}
	for _, r := range raws {
		if r.invalid {
			continue
		}
		k := r.fq
		for _, n := range sortedKeys(r.consts) {
			k += "\xff" + r.consts[n]
		}
		set[k] = true
	}
	ks := make([]string, 0, len(set))
	for k := range set {
		ks = append(ks, k)
	}
	sort.Strings(ks)
	return strings.Join(ks, "\xfe")
}

// schedPool: a few collectors whose descriptors collide in every way the property talks about.
func schedPool(r *emit.Rng) [][]rawDesc {
	x := rawDesc{fq: "x", help: "h", consts: map[string]string{"a": "1"}}
	x2 := rawDesc{fq: "x", help: "h", consts: map[string]string{"a": "2"}}
	xBad := rawDesc{fq: "x", help: "other help", consts: map[string]string{"a": "3"}}
	y := rawDesc{fq: "y", help: "h", consts: map[string]string{}, vars: []string{"l"}}
	z := rawDesc{fq: "z", help: "h", consts: map[string]string{}}
	all := [][]rawDesc{
		{x},            // 0
		{x.clone(), y}, // 1 shares x with 0
		{x.clone()},    // 2 same id set as 0: AlreadyRegistered
		{xBad},         // 3 inconsistent with x
		{x2, z},        // 4 consistent, disjoint from 0
		{y.clone()},    // 5 shares y with 1
		{},             // 6 unchecked
		{{invalid: true}},
	}
	// a random subset of 3-5 collectors, always with two that share a descriptor
	idx := []int{0, 1}
	for _, k := range []int{2, 3, 4, 5, 6, 7} {
		if r.Chance(1, 2) && len(idx) < 5 {
			idx = append(idx, k)
		}
	}
	out := make([][]rawDesc, len(idx))
	for i, k := range idx {
		out[i] = all[k]
	}
	return out
}

// genSchedProgs: 2-3 threads x 1-3 calls. With hot >= 0 most calls are for collector hot, so that several
// threads unregister and re-register the SAME collector.
func genSchedProgs(r *emit.Rng, pool [][]rawDesc, nthreads, maxCalls, hot int) [][]schedCall {
	progs := make([][]schedCall, nthreads)
	for ti := range progs {
		n := 1 + r.Intn(maxCalls)
		for k := 0; k < n; k++ {
			q := schedCall{c: r.Intn(len(pool))}
			if hot >= 0 && r.Chance(2, 3) {
				q.c = hot
			}
			p := 3
			if hot >= 0 {
				p = 2
			}
			if r.Chance(1, p) {
				q.kind = 1
			}
			progs[ti] = append(progs[ti], q)
		}
	}
	return progs
}

func runSchedProgram(w *emit.Writer, r *emit.Rng, pool [][]rawDesc, progs [][]schedCall, maxRuns, nRandom int,
	fixed [][]int, direct *[]map[string]interface{}, tags ...string) (schedules int, complete bool) {
	nthreads := len(progs)
	collTerms := make([]string, len(pool))
	for i, raws := range pool {
		ts := make([]string, len(raws))
		for j, d := range raws {
			ts[j] = d.term()
		}
		collTerms[i] = emit.L(ts)
	}
	ps := make([]string, nthreads)
	ncalls := 0
	for ti := range progs {
		it := make([]string, len(progs[ti]))
		for k, q := range progs[ti] {
			it[k] = emit.C(q.kind, emit.I(q.c))
		}
		ps[ti] = emit.L(it)
		ncalls += len(progs[ti])
	}
	var res, times [][]string
	mk := func() []func() {
		reg := prometheus.NewRegistry()
		colls := make([]*coll, len(pool))
		for i, raws := range pool {
			colls[i] = newColl(raws)
		}
		res = make([][]string, nthreads)
		times = make([][]string, nthreads)
		bodies := make([]func(), nthreads)
		for ti := range progs {
			ti := ti
			bodies[ti] = func() {
				for _, q := range progs[ti] {
					var c prometheus.Collector = colls[q.c]
					if q.c%2 == 1 {
						c = yieldColl{colls[q.c]}
					}
					inv := vsched.Now()
					var out string
					if q.kind == 0 {
						k, a := classifyAny(reg.Register(c), colls)
						out = emit.C(0, emit.I(k), emit.I(a))
					} else {
						out = emit.C(1, emit.B(reg.Unregister(c)))
					}
					times[ti] = append(times[ti], emit.Tup(emit.Z(inv), emit.Z(vsched.Now())))
					res[ti] = append(res[ti], out)
				}
			}
		}
		return bodies
	}
	visit := func(vr vsched.Result) {
		sched, tr := schedx.TraceSx(vr.Trace, true)
		rs := make([]string, nthreads)
		tms := make([]string, nthreads)
		for ti := range progs {
			rs[ti] = emit.L(res[ti])
			tms[ti] = emit.L(times[ti])
		}
		fl := schedx.Flags(vr)
		if fl != 0 {
			*direct = append(*direct, map[string]interface{}{"index": w.Len(),
				"what": fmt.Sprintf("scheduler flags %d (1 deadlock, 2 step limit, 4 panic) blocked=%v panics=%v", fl, vr.Blocked, vr.Panics)})
		}
		ts := append([]string{fmt.Sprintf("threads:%d", nthreads), fmt.Sprintf("calls:%d", ncalls), fmt.Sprintf("steps:%d", len(vr.Trace))}, tags...)
		w.Add(emit.C(4, emit.L(collTerms), emit.L(ps), sched, tr, emit.L(rs), emit.L(tms), emit.I(fl)),
			ncalls >= 3 && len(vr.Trace) >= 2*ncalls, ts...)
	}
	vsched.PlainGo = true
	defer func() { vsched.PlainGo = false }()
	if maxRuns > 0 {
		schedules, complete = schedx.Explore(mk, maxRuns, 500, visit)
	}
	for k := 0; k < nRandom; k++ {
		visit(schedx.Random(mk, r, 500))
		schedules++
	}
	for _, f := range fixed {
		step := 0
		visit(vsched.Run(mk(), func(ids []int, labels []string) int {
			want := -1
			if step < len(f) {
				want = f[step]
			}
			step++
			for i, id := range ids {
				if id == want {
					return i
				}
			}
			return 0
		}, 500))
		schedules++
	}
	return schedules, complete
}

// classifyAny is classify for a collector that may be wrapped in yieldColl.
func classifyAny(err error, colls []*coll) (int, int) {
	k, a := classify(err, colls)
	if k == 1 && a < 0 {
		if are, ok := err.(prometheus.AlreadyRegisteredError); ok {
			if y, ok := are.ExistingCollector.(yieldColl); ok {
				for i, c := range colls {
					if y.coll == c {
						return 1, i
					}
				}
			}
		}
	}
	return k, a
}

func runSched(c *cli.Ctx, r *emit.Rng) error {
	w := emit.NewWriter(c.Out, "C08", "sched")
	var direct []map[string]interface{}
	schedules, programs, exhaustive := 0, 0, 0

	// regression (fixed in d5949f3): the two programs and exact schedules that exposed the two-section
	// Unregister (Properties/C08.v unregister_regression_*), plus all their other schedules
	n := rawDesc{fq: "n", help: "h", consts: map[string]string{}}
	y := rawDesc{fq: "y", help: "h", consts: map[string]string{}}
	rpool := [][]rawDesc{{n}, {n.clone(), y}}
	for _, reg := range []struct {
		progs [][]schedCall
		fixed []int
	}{
		{[][]schedCall{{{0, 0}, {1, 0}}, {{1, 0}}}, []int{0, 0, 0, 1, 0, 1, 0, 0, 1, 1}},
		{[][]schedCall{{{0, 0}, {1, 0}}, {{1, 0}, {0, 1}}}, []int{0, 0, 0, 0, 1, 1, 1, 1, 1, 1, 0, 0}},
	} {
		k, complete := runSchedProgram(w, r, rpool, reg.progs, 120, 4, [][]int{reg.fixed}, &direct, "regression:unregister-recheck")
		schedules += k
		programs++
		if complete {
			exhaustive++
		}
	}

	budget := 800 * c.Scale
	for schedules < budget {
		pool := schedPool(r)
		nthreads := 2
		maxCalls := 2
		switch r.Intn(4) {
		case 0:
			nthreads, maxCalls = 3, 1
		case 1:
			nthreads, maxCalls = 2, 3
		case 2:
			nthreads, maxCalls = 3, 2
		}
		hot := -1
		tag := "mix:any"
		if r.Chance(1, 2) {
			hot = r.Intn(2) // collector 0 or 1 (they share a descriptor)
			tag = "mix:same-collector"
		}
		progs := genSchedProgs(r, pool, nthreads, maxCalls, hot)
		programs++
		k, complete := runSchedProgram(w, r, pool, progs, 120, 8, nil, &direct, tag)
		schedules += k
		if complete {
			exhaustive++
		}
	}
	w.Extra["programs"] = programs
	w.Extra["programs_explored_exhaustively"] = exhaustive
	if len(direct) > 0 {
		w.Extra["direct_failures"] = direct
	}
	return w.Flush()
}
