package main

// C10: all exported operations are safe under arbitrary concurrent use.
// The driver re-executes itself as a child built with -race: the child runs seeded concurrent programs over
// shared metrics, vectors, a pedantic registry and the promhttp handler; the parent watches for hangs,
// collects race reports, panics and goroutine leaks (model-free direct failures) and the child emits the
// Register/Unregister/Gather histories that the Coq-extracted checker validates.

import (
	"context"
	"errors"
	"fmt"
	"io"
	"net/http"
	"net/http/httptest"
	"os"
	"os/exec"
	"path/filepath"
	"runtime"
	"sort"
	"strings"
	"sync"
	"sync/atomic"
	"time"

	"github.com/prometheus/client_golang/prometheus"
	"github.com/prometheus/client_golang/prometheus/collectors"
	"github.com/prometheus/client_golang/prometheus/promhttp"
	_ "github.com/prometheus/client_golang/prometheus/promhttp/zstd"
	"github.com/prometheus/client_golang/prometheus/testutil"
	dto "github.com/prometheus/client_model/go"

	"verifharness/internal/cli"
	"verifharness/internal/emit"
)

func main() {
	if os.Getenv("C10_CHILD") != "" {
		cli.Main("C10", runChild)
		return
	}
	cli.Main("C10", runParent)
}

func runParent(c *cli.Ctx) error {
	os.MkdirAll(c.Out, 0o755)
	racePrefix := filepath.Join(c.Out, "race")
	limit := 120 * time.Second
	if c.Tier == "thorough" {
		limit = 25 * time.Minute
	}
	ctx, cancel := context.WithTimeout(context.Background(), limit)
	defer cancel()
	cmd := exec.CommandContext(ctx, os.Args[0], os.Args[1:]...)
	cmd.Env = append(os.Environ(), "C10_CHILD=1", "GORACE=log_path="+racePrefix+" halt_on_error=0 exitcode=0")
	var stderr strings.Builder
	cmd.Stderr = &stderr
	cmd.Stdout = io.Discard
	err := cmd.Run()
	var direct []map[string]interface{}
	if ctx.Err() != nil {
		direct = append(direct, map[string]interface{}{"index": -1, "what": "watchdog: the concurrent program did not finish (possible deadlock): " + tail(stderr.String(), 1500)})
	} else if err != nil {
		direct = append(direct, map[string]interface{}{"index": -1, "what": "child failed (panic or crash): " + tail(stderr.String(), 1500)})
	}
	logs, _ := filepath.Glob(racePrefix + ".*")
	for _, l := range logs {
		b, _ := os.ReadFile(l)
		if strings.Contains(string(b), "DATA RACE") {
			direct = append(direct, map[string]interface{}{"index": -1, "what": "data race reported by the race detector: " + tail(head(string(b), 2500), 2500)})
		}
	}
	w := emit.NewWriter(c.Out, "C10", "runtime")
	w.Extra["no_model"] = true
	w.Extra["race_detector"] = "on (-race build)"
	w.Extra["race_logs"] = len(logs)
	if len(direct) > 0 {
		w.Extra["direct_failures"] = direct
	}
	// the child's own summary of what it ran
	if b, err := os.ReadFile(filepath.Join(c.Out, "child_summary.txt")); err == nil {
		for _, line := range strings.Split(strings.TrimSpace(string(b)), "\n") {
			var k string
			var v int
			if n, _ := fmt.Sscanf(line, "%s %d", &k, &v); n == 2 {
				w.Tag(k, v)
				if k == "operations" {
					for i := 0; i < 3; i++ {
						w.Add(fmt.Sprintf("(program %d: see child streams)", i), true)
					}
				}
			}
		}
	}
	return w.Flush()
}

func head(s string, n int) string {
	if len(s) > n {
		return s[:n]
	}
	return s
}
func tail(s string, n int) string {
	if len(s) > n {
		return s[len(s)-n:]
	}
	return s
}

// ---------------------------------------------------------------- child

type regEvent struct {
	kind     int // 0 register, 1 unregister, 2 gather
	coll     int
	ok       bool
	names    []int
	inv, res int64
	errs     int
}

type extraCollector struct {
	id int
	c  prometheus.Counter
}

func (e *extraCollector) Describe(ch chan<- *prometheus.Desc) { e.c.Describe(ch) }
func (e *extraCollector) Collect(ch chan<- prometheus.Metric) { e.c.Collect(ch) }

// manyDescCollector describes n metrics; used to provoke a Register that is rejected half-way through Describe
// (its first descriptor clashes with an already registered metric) while many descriptors are still to be sent.
type manyDescCollector struct{ descs []*prometheus.Desc }

func (m *manyDescCollector) Describe(ch chan<- *prometheus.Desc) {
	for _, d := range m.descs {
		ch <- d
	}
}
func (m *manyDescCollector) Collect(ch chan<- prometheus.Metric) {}

// slowDescCollector: Describe takes a while, so that concurrent Register calls overlap.
type slowDescCollector struct{ d *prometheus.Desc }

func (c *slowDescCollector) Describe(ch chan<- *prometheus.Desc) {
	time.Sleep(200 * time.Microsecond)
	ch <- c.d
	runtime.Gosched()
}
func (c *slowDescCollector) Collect(ch chan<- prometheus.Metric) {
	ch <- prometheus.MustNewConstMetric(c.d, prometheus.GaugeValue, 1)
}

// lockedTG is a TransactionalGatherer whose state is protected by a read lock held from Gather until done.
type lockedTG struct {
	mu   sync.RWMutex
	gen  int
	fams int
	fail bool // Gather reports an error (and no families); done must still be called
}

func (l *lockedTG) Gather() ([]*dto.MetricFamily, func(), error) {
	l.mu.RLock()
	if l.fail {
		return nil, l.mu.RUnlock, errors.New("transactional gatherer fails")
	}
	var out []*dto.MetricFamily
	for i := 0; i < l.fams; i++ {
		n := fmt.Sprintf("locked_%d", i)
		t := dto.MetricType_GAUGE
		v := float64(l.gen)
		out = append(out, &dto.MetricFamily{Name: &n, Type: &t, Metric: []*dto.Metric{{Gauge: &dto.Gauge{Value: &v}}}})
	}
	return out, l.mu.RUnlock, nil
}

// writeWithin takes the write lock (in a helper goroutine, so that a leaked read lock is reported instead of hanging).
func (l *lockedTG) writeWithin(d time.Duration) bool {
	got := make(chan struct{})
	go func() {
		l.mu.Lock()
		l.gen++
		l.mu.Unlock()
		close(got)
	}()
	select {
	case <-got:
		return true
	case <-time.After(d):
		return false
	}
}

func runChild(c *cli.Ctx) error {
	r := emit.NewRng(c.Seed)
	w := emit.NewWriter(c.Out, "C10", "registry-histories")
	programs := 12 * c.Scale
	var totalOps int64
	var panics int64
	var panicMsg atomic.Value
	leaks := 0
	gatherErrs := 0
	for p := 0; p < programs; p++ {
		base := runtime.NumGoroutine()
		reg := prometheus.NewPedanticRegistry()
		cv := prometheus.NewCounterVec(prometheus.CounterOpts{Name: "cv"}, []string{"a", "b"})
		gv := prometheus.NewGaugeVec(prometheus.GaugeOpts{Name: "gv"}, []string{"a"})
		hv := prometheus.NewHistogramVec(prometheus.HistogramOpts{Name: "hv", Buckets: []float64{1, 10},
			NativeHistogramBucketFactor: 1.1, NativeHistogramMaxBucketNumber: 4, NativeHistogramMinResetDuration: 0}, []string{"a"})
		sv := prometheus.NewSummaryVec(prometheus.SummaryOpts{Name: "sv", Objectives: map[float64]float64{0.5: 0.05}}, []string{"a"})
		sv2 := prometheus.NewSummaryVec(prometheus.SummaryOpts{Name: "sv2"}, []string{"a"})
		cnt := prometheus.NewCounter(prometheus.CounterOpts{Name: "cnt"})
		gg := prometheus.NewGauge(prometheus.GaugeOpts{Name: "gg"})
		// every observation of these two is exactly 1, so every scrape must show sum == count (and for the
		// histogram: +Inf cumulative == count) no matter how it interleaves with observers
		oneS := prometheus.NewSummary(prometheus.SummaryOpts{Name: "one_s"})
		oneH := prometheus.NewHistogram(prometheus.HistogramOpts{Name: "one_h", Buckets: []float64{0.5, 2}})
		reg.MustRegister(cv, gv, hv, sv, sv2, cnt, gg, oneS, oneH)
		var snapshotViolations int64
		// --- phase 0: creation races on fresh tuples (all goroutines released by a barrier look up the SAME new
		// label set through every access path), and registrations rejected half-way through a long Describe
		raceViolations := 0
		for round := 0; round < 60; round++ {
			lbl := fmt.Sprintf("r%d", round)
			var wgR sync.WaitGroup
			gate := make(chan struct{})
			nr := 8
			for g := 0; g < nr; g++ {
				g := g
				wgR.Add(1)
				go func() {
					defer wgR.Done()
					defer func() {
						if e := recover(); e != nil {
							atomic.AddInt64(&panics, 1)
							panicMsg.Store(fmt.Sprint(e))
						}
					}()
					<-gate
					switch g % 4 {
					case 0:
						cv.With(prometheus.Labels{"a": lbl, "b": "x"}).Inc()
					case 1:
						cv.WithLabelValues(lbl, "x").Inc()
					case 2:
						if cur, err := cv.CurryWith(prometheus.Labels{"b": "x"}); err == nil {
							cur.With(prometheus.Labels{"a": lbl}).Inc()
						}
					default:
						if m, err := cv.GetMetricWith(prometheus.Labels{"a": lbl, "b": "x"}); err == nil {
							m.Inc()
						}
					}
					hv.With(prometheus.Labels{"a": lbl}).Observe(1)
					sv2.With(prometheus.Labels{"a": lbl}).Observe(1)
					// a registration that must be rejected (first descriptor clashes with "cnt") while 40 more are pending
					descs := []*prometheus.Desc{prometheus.NewDesc("cnt", "different help", nil, nil)}
					for k := 0; k < 40; k++ {
						descs = append(descs, prometheus.NewDesc(fmt.Sprintf("big_%d_%d_%d", round, g, k), "h", nil, nil))
					}
					if (round+g)%2 == 1 {
						// ... or because its first descriptor is invalid: the other rejection path must not leave the
						// Describe goroutine behind either (the leak check at the end of the program sees it)
						descs[0] = prometheus.NewDesc("0 bad\xff name", "h", nil, nil)
					}
					if err := reg.Register(&manyDescCollector{descs: descs}); err == nil {
						atomic.AddInt64(&panics, 1)
						panicMsg.Store("conflicting / invalid collector was accepted")
					}
				}()
			}
			close(gate)
			wgR.Wait()
			atomic.AddInt64(&totalOps, int64(nr*4))
			// exactly one live child per tuple and no lost update: the counter child must hold all nr increments
			if v := testutil.ToFloat64(cv.WithLabelValues(lbl, "x")); v != float64(nr) {
				raceViolations++
			}
			if mfs, err := reg.Gather(); err != nil || len(mfs) == 0 {
				raceViolations++
			}
		}
		// --- registrations racing each other: several distinct collectors that share one descriptor and whose Describe
		// is slow are registered at the same time; exactly one may win, and the registry must stay gatherable
		for round := 0; round < 10; round++ {
			d := prometheus.NewDesc(fmt.Sprintf("shared_%d", round), "h", nil, nil)
			var wgS sync.WaitGroup
			gate := make(chan struct{})
			var won int64
			for g := 0; g < 4; g++ {
				wgS.Add(1)
				go func() {
					defer wgS.Done()
					<-gate
					if reg.Register(&slowDescCollector{d: d}) == nil {
						atomic.AddInt64(&won, 1)
					}
				}()
			}
			close(gate)
			wgS.Wait()
			atomic.AddInt64(&totalOps, 4)
			if won != 1 {
				raceViolations++
			}
			if _, err := reg.Gather(); err != nil {
				raceViolations++
			}
		}
		// --- a summary without objectives whose observations sum to exactly +0: repeated collections must return
		{
			zs := prometheus.NewSummary(prometheus.SummaryOpts{Name: "zero_sum"})
			for _, v := range []float64{0, 0, 2.5, -2.5} {
				zs.Observe(v)
			}
			doneZ := make(chan bool, 1)
			go func() {
				ok := true
				for i := 0; i < 3; i++ {
					var m dto.Metric
					zs.Write(&m)
					ok = ok && m.Summary.GetSampleCount() == 4 && m.Summary.GetSampleSum() == 0
					zs.Observe(0)
					zs.Observe(0)
					var m2 dto.Metric
					zs.Write(&m2)
					ok = ok && m2.Summary.GetSampleCount() == 6
					zs = prometheus.NewSummary(prometheus.SummaryOpts{Name: "zero_sum"})
					for _, v := range []float64{0, 0, 2.5, -2.5} {
						zs.Observe(v)
					}
				}
				doneZ <- ok
			}()
			select {
			case ok := <-doneZ:
				if !ok {
					raceViolations++
				}
			case <-time.After(5 * time.Second):
				atomic.AddInt64(&panics, 1)
				panicMsg.Store("repeated Write of a summary without objectives whose observations sum to 0 does not return")
			}
		}
		// --- ToFloat64 on a vector with three or more children: the documented panic, never a hang; the vector stays usable
		{
			tv := prometheus.NewCounterVec(prometheus.CounterOpts{Name: "tf"}, []string{"a"})
			for _, a := range []string{"x", "y", "z"} {
				tv.WithLabelValues(a).Inc()
			}
			doneT := make(chan bool, 1)
			go func() {
				defer func() { doneT <- recover() != nil }()
				testutil.ToFloat64(tv)
			}()
			select {
			case panicked := <-doneT:
				if !panicked {
					raceViolations++
				}
			case <-time.After(5 * time.Second):
				atomic.AddInt64(&panics, 1)
				panicMsg.Store("testutil.ToFloat64 on a vector with 3 children neither returned nor panicked (deadlock)")
			}
			doneW := make(chan struct{})
			go func() { tv.WithLabelValues("new").Inc(); close(doneW) }()
			select {
			case <-doneW:
			case <-time.After(5 * time.Second):
				atomic.AddInt64(&panics, 1)
				panicMsg.Store("WithLabelValues blocks forever after testutil.ToFloat64 on the same vector")
			}
		}
		// contention on the float accumulators: amounts on a dyadic grid, so the exact sum is representable and every
		// order of additions gives it; a lost or doubled update shows in the total (counter, gauge, vec child)
		if p < 24 {
			fc := prometheus.NewCounter(prometheus.CounterOpts{Name: "frac_c"})
			fg := prometheus.NewGauge(prometheus.GaugeOpts{Name: "frac_g"})
			fv := prometheus.NewCounterVec(prometheus.CounterOpts{Name: "frac_v"}, []string{"a"})
			nG, per := runtime.GOMAXPROCS(0), 20000
			if nG < 4 {
				nG = 4
			}
			var wgF sync.WaitGroup
			startF := make(chan struct{})
			for g := 0; g < nG; g++ {
				wgF.Add(1)
				go func() {
					defer wgF.Done()
					<-startF
					for i := 0; i < per; i++ {
						fc.Add(0.25)
						fg.Add(0.5)
						fg.Sub(0.25)
						fv.WithLabelValues("x").Add(0.125)
					}
				}()
			}
			close(startF)
			wgF.Wait()
			atomic.AddInt64(&totalOps, int64(4*nG*per))
			n := float64(nG * per)
			if got := testutil.ToFloat64(fc); got != 0.25*n {
				raceViolations++
				panicMsg.Store(fmt.Sprintf("%d goroutines x %d x Counter.Add(0.25): counter shows %v, want exactly %v", nG, per, got, 0.25*n))
			}
			if got := testutil.ToFloat64(fg); got != 0.25*n {
				raceViolations++
				panicMsg.Store(fmt.Sprintf("%d goroutines x %d x (Gauge.Add(0.5); Gauge.Sub(0.25)): gauge shows %v, want exactly %v", nG, per, got, 0.25*n))
			}
			if got := testutil.ToFloat64(fv.WithLabelValues("x")); got != 0.125*n {
				raceViolations++
				panicMsg.Store(fmt.Sprintf("%d goroutines x %d x vec child Add(0.125): child shows %v, want exactly %v", nG, per, got, 0.125*n))
			}
		}
		// overlapping collections of one Go runtime collector: every gathered snapshot is self-consistent
		// (frees are derived as mallocs - heap objects from ONE read of the runtime metrics)
		if p < 6 {
			greg := prometheus.NewRegistry()
			greg.MustRegister(collectors.NewGoCollector())
			var wgG sync.WaitGroup
			var torn int64
			var tornMsg atomic.Value
			for g := 0; g < 4; g++ {
				wgG.Add(1)
				go func() {
					defer wgG.Done()
					for i := 0; i < 60; i++ {
						mfs, err := greg.Gather()
						if err != nil {
							atomic.AddInt64(&torn, 1)
							tornMsg.Store("Gather of the Go collector failed: " + err.Error())
							return
						}
						var mallocs, frees, objs float64
						seen := 0
						for _, mf := range mfs {
							switch mf.GetName() {
							case "go_memstats_mallocs_total":
								mallocs, seen = mf.Metric[0].Counter.GetValue(), seen+1
							case "go_memstats_frees_total":
								frees, seen = mf.Metric[0].Counter.GetValue(), seen+1
							case "go_memstats_heap_objects":
								objs, seen = mf.Metric[0].Gauge.GetValue(), seen+1
							}
						}
						if seen == 3 && mallocs-frees != objs {
							atomic.AddInt64(&torn, 1)
							tornMsg.Store(fmt.Sprintf("one Gather returned a torn Go-collector snapshot: mallocs %v - frees %v != heap objects %v", mallocs, frees, objs))
						}
					}
				}()
			}
			wgG.Wait()
			atomic.AddInt64(&totalOps, 240)
			if torn > 0 {
				raceViolations++
				panicMsg.Store(tornMsg.Load())
			}
		}
		// overlapping WriteToTextfile calls for the same target: every call succeeds and the file is a whole exposition
		if p < 24 {
			dir, derr := os.MkdirTemp("", "c10tf")
			if derr == nil {
				treg := prometheus.NewRegistry()
				tc := prometheus.NewCounter(prometheus.CounterOpts{Name: "tf_total", Help: "h"})
				treg.MustRegister(tc)
				target := filepath.Join(dir, "app.prom")
				var wgT sync.WaitGroup
				var failed int64
				var firstErr atomic.Value
				for g := 0; g < 8; g++ {
					wgT.Add(1)
					go func() {
						defer wgT.Done()
						for i := 0; i < 25; i++ {
							tc.Inc()
							if err := prometheus.WriteToTextfile(target, treg); err != nil {
								atomic.AddInt64(&failed, 1)
								firstErr.Store(err.Error())
							}
						}
					}()
				}
				wgT.Wait()
				atomic.AddInt64(&totalOps, 200)
				if failed > 0 {
					raceViolations++
					panicMsg.Store(fmt.Sprintf("%d of 200 overlapping WriteToTextfile calls for one target failed without any fault: %v", failed, firstErr.Load()))
				} else if b, rerr := os.ReadFile(target); rerr != nil || !strings.HasSuffix(string(b), "\n") || !strings.Contains(string(b), "tf_total ") {
					raceViolations++
					panicMsg.Store(fmt.Sprintf("after 200 overlapping WriteToTextfile calls the target is not a whole exposition (%v): %q", rerr, string(b)))
				}
				if ents, _ := os.ReadDir(dir); len(ents) != 1 {
					raceViolations++
					panicMsg.Store(fmt.Sprintf("after 200 overlapping WriteToTextfile calls the directory holds %d entries, want only the target", len(ents)))
				}
				os.RemoveAll(dir)
			}
		}
		if raceViolations > 0 {
			atomic.AddInt64(&panics, 1)
			panicMsg.Store(fmt.Sprintf("%d race rounds violated their invariant (lost update / duplicate children / two winners of one descriptor / Gather failing / missing documented panic)", raceViolations))
		}
		cv.Reset()
		hv.Reset()
		sv2.Reset()
		nExtra := 4
		extras := make([]*extraCollector, nExtra)
		for i := range extras {
			extras[i] = &extraCollector{id: i, c: prometheus.NewCounter(prometheus.CounterOpts{Name: fmt.Sprintf("extra_%d", i)})}
		}
		handler := promhttp.InstrumentMetricHandler(reg, promhttp.HandlerFor(reg, promhttp.HandlerOpts{Registry: reg, MaxRequestsInFlight: 3}))
		srv := httptest.NewServer(handler)
		client := srv.Client()
		var clock int64
		var evMu sync.Mutex
		var events []regEvent
		vals := []string{"x", "y", "z", ""}
		nthreads := 6 + r.Intn(6)
		var wg sync.WaitGroup
		start := make(chan struct{})
		for t := 0; t < nthreads; t++ {
			rr := r.Fork()
			wg.Add(1)
			go func() {
				defer wg.Done()
				defer func() {
					if e := recover(); e != nil {
						atomic.AddInt64(&panics, 1)
						panicMsg.Store(fmt.Sprint(e))
					}
				}()
				<-start
				nops := 150
				for i := 0; i < nops; i++ {
					atomic.AddInt64(&totalOps, 1)
					a, b := vals[rr.Intn(len(vals))], vals[rr.Intn(len(vals))]
					switch rr.Intn(27) {
					case 24, 25:
						oneS.Observe(1)
						oneH.Observe(1)
					case 26:
						if mfs, err := reg.Gather(); err == nil {
							for _, mf := range mfs {
								if mf.GetName() == "one_s" {
									for _, m := range mf.Metric {
										if m.Summary.GetSampleSum() != float64(m.Summary.GetSampleCount()) {
											atomic.AddInt64(&snapshotViolations, 1)
										}
									}
								}
							}
						}
					case 0:
						// the caller's variadic slice stays the caller's: it is overwritten right after the call
						lv := []string{a, b}
						cv.WithLabelValues(lv...).Inc()
						lv[0], lv[1] = "scribbled", "scribbled"
					case 1:
						cv.With(prometheus.Labels{"a": a, "b": b}).Add(float64(rr.Intn(5)) / 2)
					case 2:
						cv.DeleteLabelValues(a, b)
					case 3:
						cv.DeletePartialMatch(prometheus.Labels{"b": b})
					case 4:
						if cur, err := cv.CurryWith(prometheus.Labels{"a": a}); err == nil {
							cur.WithLabelValues(b).Inc()
						}
					case 5:
						cv.Reset()
					case 6:
						gv.WithLabelValues(a).Set(float64(i))
					case 7:
						gv.WithLabelValues(a).Add(-1.5)
					case 8:
						gv.Delete(prometheus.Labels{"a": a})
					case 9:
						hv.WithLabelValues(a).Observe(float64(rr.Intn(1000)) / 7)
					case 10:
						hv.WithLabelValues(a).(prometheus.ExemplarObserver).ObserveWithExemplar(float64(rr.Intn(100)), prometheus.Labels{"trace": "t"})
					case 11:
						hv.DeleteLabelValues(a)
					case 12:
						sv.WithLabelValues(a).Observe(float64(rr.Intn(100)))
					case 13:
						sv2.WithLabelValues(a).Observe(float64(rr.Intn(100)))
					case 14:
						cnt.Inc()
						gg.Dec()
						oneS.Observe(1)
						oneH.Observe(1)
					case 15:
						cnt.(prometheus.ExemplarAdder).AddWithExemplar(1, prometheus.Labels{"trace": "u"})
					case 16:
						k := rr.Intn(nExtra)
						inv := atomic.AddInt64(&clock, 1)
						err := reg.Register(extras[k])
						res := atomic.AddInt64(&clock, 1)
						evMu.Lock()
						events = append(events, regEvent{kind: 0, coll: k, ok: err == nil, inv: inv, res: res})
						evMu.Unlock()
					case 17:
						k := rr.Intn(nExtra)
						inv := atomic.AddInt64(&clock, 1)
						ok := reg.Unregister(extras[k])
						res := atomic.AddInt64(&clock, 1)
						evMu.Lock()
						events = append(events, regEvent{kind: 1, coll: k, ok: ok, inv: inv, res: res})
						evMu.Unlock()
					case 18, 19:
						inv := atomic.AddInt64(&clock, 1)
						mfs, err := reg.Gather()
						res := atomic.AddInt64(&clock, 1)
						ev := regEvent{kind: 2, inv: inv, res: res}
						if err != nil {
							ev.errs = 1
						}
						for _, mf := range mfs {
							switch mf.GetName() {
							case "one_s":
								for _, m := range mf.Metric {
									if m.Summary.GetSampleSum() != float64(m.Summary.GetSampleCount()) {
										atomic.AddInt64(&snapshotViolations, 1)
									}
								}
							case "one_h":
								for _, m := range mf.Metric {
									hh := m.Histogram
									if hh.GetSampleSum() != float64(hh.GetSampleCount()) || len(hh.Bucket) != 2 ||
										hh.Bucket[0].GetCumulativeCount() != 0 || hh.Bucket[1].GetCumulativeCount() != hh.GetSampleCount() {
										atomic.AddInt64(&snapshotViolations, 1)
									}
								}
							}
							var k int
							if n, _ := fmt.Sscanf(mf.GetName(), "extra_%d", &k); n == 1 {
								ev.names = append(ev.names, k)
							}
						}
						sort.Ints(ev.names)
						evMu.Lock()
						events = append(events, ev)
						evMu.Unlock()
					case 20:
						// scrapes with every offered compression, overlapping with each other
						req, _ := http.NewRequest("GET", srv.URL, nil)
						if enc := []string{"", "gzip", "zstd"}[rr.Intn(3)]; enc != "" {
							req.Header.Set("Accept-Encoding", enc)
						}
						if resp, err := client.Do(req); err == nil {
							io.Copy(io.Discard, resp.Body)
							resp.Body.Close()
						}
					case 21:
						ch := make(chan prometheus.Metric, 64)
						go func() { hv.Collect(ch); close(ch) }()
						for m := range ch {
							var d dto.Metric
							m.Write(&d)
						}
					case 22:
						_ = testutil.CollectAndCount(gv)
					case 23:
						dch := make(chan *prometheus.Desc, 16)
						go func() { sv.Describe(dch); close(dch) }()
						for range dch {
						}
					}
				}
			}()
		}
		close(start)
		wg.Wait()
		srv.Close()
		// --- transactional gatherers: a MultiTRegistry over the registry and two gatherers that hold a read lock
		// until their done callback runs (one of them exposes nothing); scrapes race a writer that needs the
		// write lock. A done callback that is dropped leaves the lock held: the writer blocks (watchdog) and the
		// final TryLock fails.
		{
			tgs := []*lockedTG{{fams: 0}, {fams: 2}, {fail: true}}
			multi := prometheus.NewMultiTRegistry(prometheus.ToTransactionalGatherer(reg), tgs[0], tgs[1], tgs[2])
			th := promhttp.HandlerForTransactional(multi, promhttp.HandlerOpts{})
			var wgT sync.WaitGroup
			for g := 0; g < 4; g++ {
				g := g
				wgT.Add(1)
				go func() {
					defer wgT.Done()
					for i := 0; i < 25; i++ {
						atomic.AddInt64(&totalOps, 1)
						switch g {
						case 0:
							for _, tg := range tgs {
								if !tg.writeWithin(10 * time.Second) {
									atomic.AddInt64(&panics, 1)
									panicMsg.Store("a transactional gatherer's done callback was never called: its lock is still held after Gather+done")
									return
								}
							}
						case 1:
							rec := httptest.NewRecorder()
							th.ServeHTTP(rec, httptest.NewRequest("GET", "/metrics", nil))
						default:
							_, done, _ := multi.Gather()
							done()
						}
					}
				}()
			}
			wgT.Wait()
			for _, tg := range tgs {
				if !tg.writeWithin(10 * time.Second) {
					atomic.AddInt64(&panics, 1)
					panicMsg.Store("a transactional gatherer's done callback was never called: its lock is still held after quiescence")
				}
			}
		}
		client.CloseIdleConnections()
		// goroutine leak check after quiescence
		leaked := true
		for i := 0; i < 200; i++ {
			if runtime.NumGoroutine() <= base+1 {
				leaked = false
				break
			}
			time.Sleep(10 * time.Millisecond)
		}
		if leaked {
			leaks++
		}
		if snapshotViolations > 0 {
			atomic.AddInt64(&panics, 1)
			panicMsg.Store(fmt.Sprintf("%d scrapes of an all-ones summary/histogram showed sum != count (inconsistent snapshot)", snapshotViolations))
		}
		// emit the registry history of this program
		es := make([]string, len(events))
		ng := 0
		for i, e := range events {
			names := make([]string, len(e.names))
			for j, n := range e.names {
				names[j] = emit.I(n)
			}
			es[i] = emit.Tup(emit.I(e.kind), emit.I(e.coll), emit.B(e.ok), emit.L(names), emit.Z(e.inv), emit.Z(e.res), emit.I(e.errs))
			if e.kind == 2 {
				ng++
				gatherErrs += e.errs
			}
		}
		w.Add(emit.Tup(emit.I(nExtra), emit.L(es)), ng >= 2, fmt.Sprintf("threads:%d", nthreads))
	}
	var direct []map[string]interface{}
	if panics > 0 {
		direct = append(direct, map[string]interface{}{"index": -1, "what": fmt.Sprintf("%d goroutine(s) panicked: %v", panics, panicMsg.Load())})
	}
	if leaks > 0 {
		direct = append(direct, map[string]interface{}{"index": -1, "what": fmt.Sprintf("goroutines leaked after quiescence in %d program(s)", leaks)})
	}
	if len(direct) > 0 {
		w.Extra["direct_failures"] = direct
	}
	w.Extra["operations"] = totalOps
	os.WriteFile(filepath.Join(c.Out, "child_summary.txt"), []byte(fmt.Sprintf("operations %d\nprograms %d\ngather_errors %d\n", totalOps, programs, gatherErrs)), 0o644)
	_ = http.StatusOK
	return w.Flush()
}
