package main

import (
	"fmt"
	"math"
	"strconv"
	"strings"
	"time"

	"github.com/prometheus/client_golang/prometheus"
	dto "github.com/prometheus/client_model/go"

	"verifharness/internal/cli"
	"verifharness/internal/emit"
)

// C04: native histogram buckets account for exactly the observations made (sequential behaviour).
// case := (cfg ops impl)   -- see coq/theories/Run/C04_run.v for the wire format
//       | (5 floor_bits schema)   -- pickSchema: the switch on floor(log2(log2(factor)))
// Streams: seq (structured, boundary-directed), limits (small bucket limits, resets, timers),
// exemplars, top (upper end of the float range), vec (children of one HistogramVec), malformed (odd configurations and op lists), pickschema, known-subnormal-widen.

func main() { cli.Main("C04", runC04) }

var c04Base = time.Unix(1_700_000_000, 0)

type c04Cfg struct {
	factor   float64
	schema   int32 // what pickSchema(factor) chose
	zt       float64
	maxB     uint32
	maxZT    float64
	minReset time.Duration
	exMax    int
	exTTL    time.Duration
}

const (
	opObs = iota
	opObsEx
	opWrite
	opAdvance
	opFire
)

type c04Op struct {
	kind   int
	v      float64
	d      time.Duration
	oracle int
}

func (c c04Cfg) initZT() float64 {
	switch {
	case c.zt > 0:
		return c.zt
	case c.zt == 0:
		return prometheus.DefNativeHistogramZeroThreshold
	}
	return 0
}

// factor that makes pickSchema choose s (strictly inside the interval of s)
func c04Factor(s int) float64 {
	return math.Exp2(math.Exp2(float64(-s))) * (1 + 1e-4)
}

// tiny magnitudes (bucket bounds below 2^-1000) may be observed only where the zero bucket can
// never be widened onto them (known finding subnormal-widen)
func (c c04Cfg) tinyAllowed() bool {
	iz := c.initZT()
	return iz >= math.Ldexp(1, -1000) || c.maxB == 0 || (c.maxZT == c.maxZT && c.maxZT <= iz)
}

func c04Sanitize(c c04Cfg, v float64) float64 {
	if v != v || v == 0 || math.IsInf(v, 0) {
		return v
	}
	if math.Abs(v) < math.Ldexp(1, -1000) && !c.tinyAllowed() {
		fr, _ := math.Frexp(v)
		return math.Ldexp(fr, -900)
	}
	return v
}

func c04Ulp(r *emit.Rng, b float64) float64 {
	switch r.Intn(3) {
	case 0:
		return b
	case 1:
		return emit.Up(b)
	}
	return emit.Down(b)
}

// a boundary of schema t near binary exponent e
func c04Boundary(r *emit.Rng, t int, e int) float64 {
	if t > 0 {
		row := prometheus.VerifC04Bounds(t)
		return math.Ldexp(row[r.Intn(len(row))], e+1)
	}
	w := 1 << uint(-t)
	k := e / w
	if e < 0 {
		k = -((-e) / w)
	}
	return math.Ldexp(1, k*w)
}

// every NativeHistogramMaxExemplars from 1 to 17, the default (0 -> 10) and the switched-off value
var c04ExMaxAll = []int{-1, 0, 1, 2, 3, 4, 5, 6, 7, 8, 9, 10, 11, 12, 13, 14, 15, 16, 17}

type c04Gen struct {
	center, spread int
}

func c04NewGen(r *emit.Rng) c04Gen {
	centers := []int{0, 0, 3, -128, -127, -129, 10, -10, 1000, 1022, 1023, -900, -500, r.Intn(101) - 50}
	spreads := []int{0, 1, 2, 3, 6, 40}
	return c04Gen{centers[r.Intn(len(centers))], spreads[r.Intn(len(spreads))]}
}

func (g c04Gen) exp(r *emit.Rng) int {
	e := g.center
	if g.spread > 0 {
		e += r.Intn(2*g.spread+1) - g.spread
	}
	if e > 1023 {
		e = 1023
	}
	return e
}

var c04Specials = []float64{0, math.Copysign(0, -1), math.NaN(), math.Inf(1), math.Inf(-1), math.MaxFloat64, -math.MaxFloat64,
	math.SmallestNonzeroFloat64, -math.SmallestNonzeroFloat64, 3 * math.SmallestNonzeroFloat64, math.Ldexp(1, -1022), math.Ldexp(1, -1023),
	emit.Down(math.Ldexp(1, -1022)), math.Ldexp(1, -128), emit.Up(math.Ldexp(1, -128)), emit.Down(math.Ldexp(1, -128)), -math.Ldexp(1, -128),
	1, -1, 0.5, 2, emit.Down(math.MaxFloat64), math.Ldexp(1, 1023), emit.Up(math.Ldexp(1, 1023)), emit.Down(math.Ldexp(1, 1023))}

func c04Obs(r *emit.Rng, c c04Cfg, g c04Gen) float64 {
	s := int(c.schema)
	var v float64
	switch r.Intn(10) {
	case 0, 1, 2: // boundary of the configured schema or of a coarser one, +-1 ulp
		t := s - r.Intn(3)
		if r.Chance(1, 8) {
			t = r.Intn(13) - 4
		}
		if t < -4 {
			t = -4
		}
		v = c04Ulp(r, c04Boundary(r, t, g.exp(r)))
	case 3: // power of two +-1 ulp
		v = c04Ulp(r, math.Ldexp(1, g.exp(r)))
	case 4:
		v = c04Specials[r.Intn(len(c04Specials))]
	case 5: // around the zero thresholds
		z := c.initZT()
		if r.Bool() && c.maxZT == c.maxZT && c.maxZT > 0 {
			z = c.maxZT
		}
		v = c04Ulp(r, z)
	case 6:
		v = r.AnyFloat()
	default: // inside the cluster
		v = math.Ldexp(0.5+r.Float01()/2, g.exp(r)+1)
	}
	if r.Chance(1, 5) {
		v = -v
	}
	return c04Sanitize(c, v)
}

func c04Config(r *emit.Rng, limits bool) (c04Cfg, []string) {
	var c c04Cfg
	var tags []string
	s := r.Intn(13) - 4
	c.factor = c04Factor(s)
	c.schema = prometheus.VerifC04PickSchema(c.factor)
	tags = append(tags, fmt.Sprintf("schema:%d", c.schema))
	switch r.Intn(4) {
	case 0, 1:
		c.zt = 0
		tags = append(tags, "zt:default")
	case 2:
		zs := []float64{math.Ldexp(1, -128), 1e-10, 0.001, 0.5, 1, 2.5, math.Ldexp(1, -1000), math.Ldexp(1, -1021), 1e300, math.Ldexp(1.5, 3)}
		c.zt = zs[r.Intn(len(zs))]
		tags = append(tags, "zt:explicit")
	default:
		c.zt = -float64(1 + r.Intn(3))
		tags = append(tags, "zt:negative(zero)")
	}
	if limits || r.Chance(2, 3) {
		if limits {
			c.maxB = uint32(1 + r.Intn(6))
		} else {
			c.maxB = uint32(1 + r.Intn(20))
		}
		tags = append(tags, "maxbuckets:1-20")
	} else {
		tags = append(tags, "maxbuckets:0(unlimited)")
	}
	mz := []float64{0, 0, 1e-5, 1, 1000, math.Ldexp(1, -126), math.Ldexp(1, 4), math.Ldexp(1, 1000), 1e300, math.Ldexp(1, -120)}
	c.maxZT = mz[r.Intn(len(mz))]
	if c.maxZT > 0 {
		tags = append(tags, "maxzt:positive")
	} else {
		tags = append(tags, "maxzt:0")
	}
	if r.Bool() {
		ds := []time.Duration{time.Second, time.Hour, 10 * time.Minute, 1}
		c.minReset = ds[r.Intn(len(ds))]
		tags = append(tags, "minreset:positive")
	} else {
		tags = append(tags, "minreset:0")
	}
	em := []int{-1, 0, 1, 2, 10, 3}
	c.exMax = em[r.Intn(len(em))]
	et := []time.Duration{0, time.Second, time.Hour, -1, -2, 1}
	c.exTTL = et[r.Intn(len(et))]
	return c, tags
}

func c04Ops(r *emit.Rng, c c04Cfg, n int, pEx, pWrite, pAdv, pFire int) []c04Op {
	g := c04NewGen(r)
	ops := make([]c04Op, 0, n+1)
	for i := 0; i < n; i++ {
		if r.Chance(1, 25) {
			g = c04NewGen(r)
		}
		x := r.Intn(100)
		switch {
		case x < pWrite:
			ops = append(ops, c04Op{kind: opWrite})
		case x < pWrite+pAdv:
			ttl := c.exTTL
			if ttl == 0 {
				ttl = 5 * time.Minute
			}
			ds := []time.Duration{1, time.Millisecond, time.Second, c.minReset / 2, c.minReset, c.minReset + 1, 10 * time.Minute, 0, ttl, ttl + 1, ttl - 1, ttl}
			d := ds[r.Intn(len(ds))]
			if d < 0 {
				d = 0
			}
			ops = append(ops, c04Op{kind: opAdvance, d: d})
		case x < pWrite+pAdv+pFire:
			ops = append(ops, c04Op{kind: opFire})
		case x < pWrite+pAdv+pFire+pEx:
			ops = append(ops, c04Op{kind: opObsEx, v: c04Obs(r, c, g)})
		default:
			ops = append(ops, c04Op{kind: opObs, v: c04Obs(r, c, g)})
		}
	}
	return append(ops, c04Op{kind: opWrite})
}

type c04Write struct {
	schema           int32
	zt               float64
	zc, count        uint64
	sum              float64
	created          int64
	pspans, nspans   [][2]int64
	pdeltas, ndeltas []int64
	pos, neg         [][2]int64
	exVals           []float64
	exTs             []int64
	timers           []int64
}

func c04Decode(spans []*dto.BucketSpan, deltas []int64) (sp [][2]int64, pops [][2]int64) {
	var idx, cur int64
	di := 0
	for _, s := range spans {
		sp = append(sp, [2]int64{int64(s.GetOffset()), int64(s.GetLength())})
		idx += int64(s.GetOffset())
		for j := uint32(0); j < s.GetLength(); j++ {
			if di >= len(deltas) {
				return
			}
			cur += deltas[di]
			di++
			pops = append(pops, [2]int64{idx, cur})
			idx++
		}
	}
	return
}

// c04LogOracle replays ONLY the math.Log-dependent decisions of addExemplar (histogram.go:1786-1857)
// on the values currently held: p = index i of the closest adjacent pair (i-1, i) as the loop finds
// it, b1/b2 = outcomes of the two later `diff < md` tests. Result 4*p + 2*b1 + b2 (see
// Model/NativeHist.v choose_ridx). Coq has no bit-exact log, so these three decisions are inputs.
func c04LogOracle(vals []float64, v float64) int {
	n := len(vals)
	md := -1.0
	p := 0
	var cLog, pLog float64
	nIdx := -1
	for i, x := range vals {
		if nIdx == -1 && v <= x {
			nIdx = i
		}
		pLog = cLog
		cLog = math.Log(x)
		if i == 0 {
			continue
		}
		diff := math.Abs(cLog - pLog)
		if md == -1 || diff < md {
			md = diff
			p = i
		}
	}
	if nIdx == -1 {
		nIdx = n
	}
	b1, b2 := 0, 0
	elog := math.Log(v)
	if nIdx > 0 {
		diff := math.Abs(elog - math.Log(vals[nIdx-1]))
		if diff < md {
			md = diff
			b1 = 1
		}
	}
	if nIdx < n {
		diff := math.Abs(math.Log(vals[nIdx]) - elog)
		if diff < md {
			b2 = 1
		}
	}
	return 4*p + 2*b1 + b2
}

type c04Result struct {
	failed bool
	what   string
	ws     []c04Write
}

// c04Exec performs one operation on a real histogram (plain or a vec child) and records what a Write exposes.
// c04ExLimit is the configured native exemplar limit (10 for 0) of the histogram(s) being driven; the
// driver is sequential, so a package variable set by c04Run/c04RunVec suffices.
var c04ExLimit int

func c04SetExLimit(c c04Cfg) {
	c04ExLimit = c.exMax
	if c04ExLimit == 0 {
		c04ExLimit = 10
	}
}

func c04Exec(h *prometheus.VerifC04Hist, o *c04Op, nEx *int, out *c04Result) {
	switch o.kind {
	case opObs:
		h.Observe(o.v)
	case opObsEx:
		*nEx++
		if vals, _, enabled := h.ExemplarState(); enabled && o.v == o.v && len(vals) >= c04ExLimit && c04ExLimit > 1 {
			o.oracle = c04LogOracle(vals, o.v)
		} else {
			o.oracle = 0
		}
		h.ObserveWithExemplar(o.v, prometheus.Labels{"i": strconv.Itoa(*nEx)})
	case opAdvance:
		h.Advance(o.d)
	case opFire:
		h.Fire()
	case opWrite:
		var m dto.Metric
		if err := h.Write(&m); err != nil {
			panic(err)
		}
		hp := m.Histogram
		w := c04Write{schema: hp.GetSchema(), zt: hp.GetZeroThreshold(), zc: hp.GetZeroCount(), count: hp.GetSampleCount(),
			sum: hp.GetSampleSum(), created: hp.GetCreatedTimestamp().AsTime().Sub(c04Base).Nanoseconds()}
		w.pspans, w.pos = c04Decode(hp.PositiveSpan, hp.PositiveDelta)
		w.nspans, w.neg = c04Decode(hp.NegativeSpan, hp.NegativeDelta)
		w.pdeltas = hp.PositiveDelta
		w.ndeltas = hp.NegativeDelta
		for _, e := range hp.Exemplars {
			w.exVals = append(w.exVals, e.GetValue())
			w.exTs = append(w.exTs, e.GetTimestamp().AsTime().Sub(c04Base).Nanoseconds())
		}
		for _, d := range h.TakeScheduled() {
			w.timers = append(w.timers, int64(d))
		}
		out.ws = append(out.ws, w)
	}
}

// c04RunVec drives n children of ONE real HistogramVec with an interleaved operation list
// (who[i] = child of ops[i], -1 = the shared clock advances). Every child is afterwards compared with
// its own model instance: its case holds its own operations plus all clock advances, in order.
func c04RunVec(c c04Cfg, n int, who []int, ops []c04Op) (perOps [][]c04Op, res []c04Result) {
	c04SetExLimit(c)
	perOps = make([][]c04Op, n)
	res = make([]c04Result, n)
	done := make(chan bool, 1)
	go func() {
		failed := ""
		defer func() {
			if e := recover(); e != nil {
				failed = fmt.Sprint("panic: ", e)
			}
			if failed != "" {
				for k := range res {
					res[k].failed = true
					res[k].what = failed
				}
			}
			done <- true
		}()
		v := prometheus.VerifC04NewVec(prometheus.HistogramOpts{
			Name: "h", Help: "h",
			NativeHistogramBucketFactor:     c.factor,
			NativeHistogramZeroThreshold:    c.zt,
			NativeHistogramMaxBucketNumber:  c.maxB,
			NativeHistogramMinResetDuration: c.minReset,
			NativeHistogramMaxZeroThreshold: c.maxZT,
			NativeHistogramMaxExemplars:     c.exMax,
			NativeHistogramExemplarTTL:      c.exTTL,
		}, []string{"child"}, c04Base)
		hs := make([]*prometheus.VerifC04Hist, n)
		for k := range hs {
			hs[k] = v.Child(strconv.Itoa(k)) // all children exist before the clock moves
		}
		nEx := make([]int, n)
		for i := range ops {
			if who[i] < 0 {
				v.Advance(ops[i].d)
				for k := range perOps {
					perOps[k] = append(perOps[k], ops[i])
				}
				continue
			}
			k := who[i]
			o := ops[i]
			c04Exec(hs[k], &o, &nEx[k], &res[k])
			perOps[k] = append(perOps[k], o)
		}
	}()
	select {
	case <-done:
	case <-time.After(20 * time.Second):
		for k := range res {
			res[k] = c04Result{failed: true, what: "hang: no answer within 20 s"}
		}
	}
	return
}

func c04Run(c c04Cfg, ops []c04Op) (res c04Result) {
	c04SetExLimit(c)
	done := make(chan c04Result, 1)
	go func() {
		var out c04Result
		defer func() {
			if e := recover(); e != nil {
				out.failed = true
				out.what = fmt.Sprint("panic: ", e)
			}
			done <- out
		}()
		h := prometheus.VerifC04New(prometheus.HistogramOpts{
			Name: "h", Help: "h",
			NativeHistogramBucketFactor:     c.factor,
			NativeHistogramZeroThreshold:    c.zt,
			NativeHistogramMaxBucketNumber:  c.maxB,
			NativeHistogramMinResetDuration: c.minReset,
			NativeHistogramMaxZeroThreshold: c.maxZT,
			NativeHistogramMaxExemplars:     c.exMax,
			NativeHistogramExemplarTTL:      c.exTTL,
		}, c04Base)
		nEx := 0
		for i := range ops {
			c04Exec(h, &ops[i], &nEx, &out)
		}
	}()
	select {
	case res = <-done:
	case <-time.After(20 * time.Second):
		res = c04Result{failed: true, what: "hang: no answer within 20 s"}
	}
	return
}

func c04Pairs(ps [][2]int64) string {
	it := make([]string, len(ps))
	for i, p := range ps {
		it[i] = emit.Pair(emit.Z(p[0]), emit.Z(p[1]))
	}
	return emit.L(it)
}

func c04CaseTerm(c c04Cfg, ops []c04Op, res c04Result) string {
	cfg := emit.Tup(emit.Z(int64(c.schema)), emit.F(c.zt), emit.U(uint64(c.maxB)), emit.F(c.maxZT), emit.Z(int64(c.minReset)),
		emit.Z(int64(c.exMax)), emit.Z(int64(c.exTTL)))
	ot := make([]string, len(ops))
	for i, o := range ops {
		switch o.kind {
		case opObs:
			ot[i] = emit.C(0, emit.F(o.v))
		case opObsEx:
			ot[i] = emit.C(1, emit.F(o.v), emit.I(o.oracle))
		case opWrite:
			ot[i] = emit.C(2)
		case opAdvance:
			ot[i] = emit.C(3, emit.Z(int64(o.d)))
		case opFire:
			ot[i] = emit.C(4)
		}
	}
	var impl string
	if res.failed {
		impl = emit.C(0)
	} else {
		ws := make([]string, len(res.ws))
		for i, w := range res.ws {
			ex := make([]string, len(w.exVals))
			for k := range w.exVals {
				ex[k] = emit.Pair(emit.F(w.exVals[k]), emit.Z(w.exTs[k]))
			}
			ws[i] = emit.Tup(emit.Z(int64(w.schema)), emit.F(w.zt), emit.U(w.zc), emit.U(w.count), emit.F(w.sum), emit.Z(w.created),
				c04Pairs(w.pspans), emit.ZL(w.pdeltas), c04Pairs(w.nspans), emit.ZL(w.ndeltas), c04Pairs(w.pos), c04Pairs(w.neg),
				emit.L(ex), emit.ZL(w.timers))
		}
		impl = emit.C(1, emit.L(ws))
	}
	return emit.Tup(cfg, emit.L(ot), impl)
}

// tags describing what a case exercised; the bool is the non-triviality rule
func c04Describe(c c04Cfg, ops []c04Op, res c04Result) ([]string, bool) {
	var tags []string
	if res.failed {
		return []string{"result:failed"}, false
	}
	var inf, nan, tiny, neg, replaced bool
	for _, o := range ops {
		if o.kind == opObs || o.kind == opObsEx {
			switch {
			case o.v != o.v:
				nan = true
			case math.IsInf(o.v, 0):
				inf = true
			case o.v != 0 && math.Abs(o.v) < math.Ldexp(1, -1022):
				tiny = true
			}
			if o.v < 0 {
				neg = true
			}
			if o.kind == opObsEx && o.oracle > 0 {
				replaced = true
			}
		}
	}
	iz := c.initZT()
	var halved, widened, reset, timer, multispan, gapfill, manyb, ex bool
	for _, w := range res.ws {
		if w.schema < c.schema {
			halved = true
		}
		if w.zt > iz {
			widened = true
		}
		if w.zt == math.MaxFloat64 {
			tags = append(tags, "zt:widened-to-MaxFloat64")
		}
		if w.created > 0 {
			reset = true
		}
		if len(w.timers) > 0 {
			timer = true
		}
		if len(w.pspans) > 1 || len(w.nspans) > 1 {
			multispan = true
		}
		np := 0
		for _, p := range append(append([][2]int64{}, w.pos...), w.neg...) {
			if p[1] > 0 {
				np++
			}
		}
		if np < len(w.pos)+len(w.neg) {
			gapfill = true
		}
		if np >= 2 {
			manyb = true
		}
		if len(w.exVals) > 0 {
			ex = true
		}
	}
	add := func(b bool, t string) {
		if b {
			tags = append(tags, t)
		}
	}
	add(inf, "obs:inf")
	add(nan, "obs:nan")
	add(tiny, "obs:subnormal")
	add(neg, "obs:negative")
	add(halved, "limit:halved")
	add(widened, "limit:widened")
	add(reset, "limit:reset(created moved)")
	add(timer, "limit:timer-scheduled")
	add(multispan, "spans:several")
	add(gapfill, "spans:zero-filled-gap")
	add(ex, "exemplars:exposed")
	add(replaced, "exemplars:replaced")
	add(len(res.ws) > 1, "writes:interleaved")
	return tags, manyb || halved || widened || reset
}

func c04Stream(c *cli.Ctx, r *emit.Rng, name string, n int, gen func(r *emit.Rng) (c04Cfg, []string, []c04Op)) error {
	w := emit.NewWriter(c.Out, "C04", name)
	var direct []map[string]interface{}
	for i := 0; i < n; i++ {
		cfg, tags, ops := gen(r)
		res := c04Run(cfg, ops)
		if res.failed {
			direct = append(direct, map[string]interface{}{"index": w.Len(), "what": res.what})
		}
		t2, nt := c04Describe(cfg, ops, res)
		w.Add(c04CaseTerm(cfg, ops, res), nt, append(tags, t2...)...)
	}
	if len(direct) > 0 {
		w.Extra["direct_failures"] = direct
	}
	return w.Flush()
}

func c04Len(r *emit.Rng) int {
	if r.Chance(1, 12) {
		return 120 + r.Intn(200)
	}
	return 3 + r.Intn(50)
}

func runC04(c *cli.Ctx) error {
	r := emit.NewRng(c.Seed)

	// seq: all schemas, mostly Observe/Write
	if err := c04Stream(c, r.Fork(), "seq", 450*c.Scale, func(r *emit.Rng) (c04Cfg, []string, []c04Op) {
		cfg, tags := c04Config(r, false)
		return cfg, tags, c04Ops(r, cfg, c04Len(r), 5, 8, 4, 1)
	}); err != nil {
		return err
	}
	// limits: small bucket limits, clock advances and timers
	if err := c04Stream(c, r.Fork(), "limits", 450*c.Scale, func(r *emit.Rng) (c04Cfg, []string, []c04Op) {
		cfg, tags := c04Config(r, true)
		return cfg, tags, c04Ops(r, cfg, c04Len(r), 5, 8, 10, 5)
	}); err != nil {
		return err
	}
	// exemplars: mostly ObserveWithExemplar
	if err := c04Stream(c, r.Fork(), "exemplars", 250*c.Scale, func(r *emit.Rng) (c04Cfg, []string, []c04Op) {
		cfg, tags := c04Config(r, r.Bool())
		cfg.exMax = c04ExMaxAll[r.Intn(len(c04ExMaxAll))]
		n := c04Len(r)
		if lim := 3*cfg.exMax + 6; n < lim { // enough exemplar-carrying observations to overfill
			n = lim
		}
		return cfg, append(tags, fmt.Sprintf("exmax:%d", cfg.exMax), fmt.Sprintf("exttl:%d", int64(cfg.exTTL))), c04Ops(r, cfg, n, 60, 8, 10, 2)
	}); err != nil {
		return err
	}
	// top: the upper end of the range (MaxFloat64, +-Inf, zero bucket widened up to MaxFloat64 / +Inf)
	if err := c04Stream(c, r.Fork(), "top", 120*c.Scale, func(r *emit.Rng) (c04Cfg, []string, []c04Op) {
		cfg, tags := c04Config(r, true)
		cfg.maxB = uint32(1 + r.Intn(3))
		cfg.maxZT = []float64{math.Inf(1), math.MaxFloat64, 1e308, emit.Down(math.MaxFloat64)}[r.Intn(4)]
		if r.Bool() {
			cfg.minReset = 0
		}
		vs := []float64{math.MaxFloat64, math.Inf(1), math.Inf(-1), -math.MaxFloat64, emit.Down(math.MaxFloat64), math.Ldexp(1, 1023),
			emit.Up(math.Ldexp(1, 1023)), 1e308, 1.5e308, math.Ldexp(1, 1022), 1, 0, math.NaN()}
		var ops []c04Op
		for i := 2 + r.Intn(14); i >= 0; i-- {
			switch r.Intn(8) {
			case 0:
				ops = append(ops, c04Op{kind: opWrite})
			case 1:
				ops = append(ops, c04Op{kind: opAdvance, d: time.Second})
			default:
				v := vs[r.Intn(len(vs))]
				if r.Chance(1, 4) {
					v = -v
				}
				ops = append(ops, c04Op{kind: opObs, v: v})
			}
		}
		var keep []string
		for _, t := range tags {
			if !strings.HasPrefix(t, "max") && !strings.HasPrefix(t, "minreset") {
				keep = append(keep, t)
			}
		}
		return cfg, append(keep, "top-of-range"), append(ops, c04Op{kind: opWrite})
	}); err != nil {
		return err
	}
	// vec: 2-3 children of ONE HistogramVec driven by interleaved operations; every child must behave
	// exactly like a histogram of its own (no cross-talk of populations, exemplars, resets, timers)
	{
		w := emit.NewWriter(c.Out, "C04", "vec")
		rr := r.Fork()
		var direct []map[string]interface{}
		for i := 0; i < 90*c.Scale; i++ {
			cfg, tags := c04Config(rr, rr.Bool())
			if rr.Chance(2, 3) {
				cfg.exMax = c04ExMaxAll[rr.Intn(len(c04ExMaxAll))]
			}
			n := 2 + rr.Intn(2)
			base := c04Ops(rr, cfg, 10+rr.Intn(70), 35, 10, 8, 3)
			who := make([]int, len(base))
			for j := range base {
				switch {
				case base[j].kind == opAdvance:
					who[j] = -1
				case j >= len(base)-1: // the final Write: one per child, appended below
					who[j] = 0
				default:
					who[j] = rr.Intn(n)
				}
			}
			for k := 1; k < n; k++ {
				base = append(base, c04Op{kind: opWrite})
				who = append(who, k)
			}
			perOps, res := c04RunVec(cfg, n, who, base)
			for k := 0; k < n; k++ {
				if res[k].failed {
					direct = append(direct, map[string]interface{}{"index": w.Len(), "what": res[k].what})
				}
				t2, nt := c04Describe(cfg, perOps[k], res[k])
				w.Add(c04CaseTerm(cfg, perOps[k], res[k]), nt, append(append([]string{fmt.Sprintf("vec-children:%d", n)}, tags...), t2...)...)
			}
		}
		if len(direct) > 0 {
			w.Extra["direct_failures"] = direct
		}
		if err := w.Flush(); err != nil {
			return err
		}
	}
	// malformed: odd configurations and op lists
	if err := c04Stream(c, r.Fork(), "malformed", 150*c.Scale, func(r *emit.Rng) (c04Cfg, []string, []c04Op) {
		cfg, tags := c04Config(r, r.Bool())
		switch r.Intn(8) {
		case 0:
			cfg.maxZT = math.NaN()
			tags = append(tags, "odd:maxzt-nan")
		case 1:
			cfg.maxZT = math.Inf(1)
			tags = append(tags, "odd:maxzt-inf")
		case 2:
			cfg.maxZT = -1
			tags = append(tags, "odd:maxzt-negative")
		case 3:
			cfg.zt = math.Inf(1)
			tags = append(tags, "odd:zt-inf")
		case 4:
			cfg.zt = math.NaN()
			tags = append(tags, "odd:zt-nan")
		case 5:
			cfg.minReset = -time.Duration(1 + r.Intn(1000))
			tags = append(tags, "odd:minreset-negative")
		case 6:
			cfg.exMax = -1 - r.Intn(1000)
			cfg.exTTL = -time.Duration(r.Intn(5))
			tags = append(tags, "odd:exemplars-negative")
		case 7:
			cfg.maxB = math.MaxUint32 - uint32(r.Intn(2))
			tags = append(tags, "odd:maxbuckets-huge")
		}
		var ops []c04Op
		switch r.Intn(5) {
		case 0: // nothing but Writes and timer events
			for i := r.Intn(6); i >= 0; i-- {
				ops = append(ops, c04Op{kind: []int{opWrite, opFire, opAdvance}[r.Intn(3)], d: time.Second})
			}
			ops = append(ops, c04Op{kind: opWrite})
			tags = append(tags, "ops:no-observations")
		case 1: // only NaN / zero / Inf
			for i := r.Intn(10); i >= 0; i-- {
				vs := []float64{math.NaN(), 0, math.Copysign(0, -1), math.Inf(1), math.Inf(-1)}
				ops = append(ops, c04Op{kind: opObs + r.Intn(2), v: vs[r.Intn(len(vs))]})
				if r.Chance(1, 4) {
					ops = append(ops, c04Op{kind: opWrite})
				}
			}
			ops = append(ops, c04Op{kind: opWrite})
			tags = append(tags, "ops:only-special-values")
		default:
			ops = c04Ops(r, cfg, c04Len(r), 10, 15, 15, 15)
		}
		return cfg, tags, ops
	}); err != nil {
		return err
	}

	// pickschema: the switch of pickSchema on floor(log2(log2(factor)))
	{
		w := emit.NewWriter(c.Out, "C04", "pickschema")
		rr := r.Fork()
		var fs []float64
		for n := -5; n <= 9; n++ {
			t := math.Exp2(math.Exp2(float64(-n)))
			fs = append(fs, t, emit.Up(t), emit.Down(t), emit.Up(emit.Up(t)), emit.Down(emit.Down(t)))
		}
		fs = append(fs, emit.Up(1), math.Inf(1), math.MaxFloat64, 1.1, 1.5, 2, 4, 65536, 65537, 1e9)
		for i := 0; i < 200*c.Scale; i++ {
			fs = append(fs, 1+math.Abs((rr.Float01())*math.Pow(10, float64(rr.Intn(8)-5))))
		}
		for _, f := range fs {
			if !(f > 1) {
				continue
			}
			fl := math.Floor(math.Log2(math.Log2(f)))
			s := prometheus.VerifC04PickSchema(f)
			w.Add(emit.Tup("5", emit.F(fl), emit.Z(int64(s))), true, fmt.Sprintf("schema:%d", s))
		}
		if err := w.Flush(); err != nil {
			return err
		}
	}

	// known finding subnormal-widen: exactly the input of known_findings.txt
	{
		w := emit.NewWriter(c.Out, "C04", "known-subnormal-widen")
		cfg := c04Cfg{factor: 1.5, zt: -1, maxB: 1, maxZT: 1e-300, exMax: -1}
		cfg.schema = prometheus.VerifC04PickSchema(cfg.factor)
		ops := []c04Op{{kind: opObs, v: 5 * math.SmallestNonzeroFloat64}, {kind: opObs, v: 6 * math.SmallestNonzeroFloat64}, {kind: opWrite}}
		res := c04Run(cfg, ops)
		w.Add(c04CaseTerm(cfg, ops, res), true, "known:subnormal-widen")
		if err := w.Flush(); err != nil {
			return err
		}
	}
	return nil
}
