package main

import (
	"bytes"
	"encoding/base64"
	"errors"
	"fmt"
	"io"
	"net"
	"net/http"
	"net/http/httptest"
	"net/url"
	"sort"
	"strconv"
	"strings"
	"sync"
	"sync/atomic"

	"github.com/prometheus/client_golang/prometheus"
	"github.com/prometheus/client_golang/prometheus/push"
	dto "github.com/prometheus/client_model/go"
	"github.com/prometheus/common/expfmt"
	"google.golang.org/protobuf/proto"

	"verifharness/internal/cli"
	"verifharness/internal/emit"
)

// C15: a push delivers exactly the gathered metrics under exactly the configured key.
// Wire format: see coq/theories/Run/C15_run.v.

func main() { cli.Main("C15", runC15) }

// ---------------------------------------------------------------------------------------------
// recording peers
// ---------------------------------------------------------------------------------------------

type seenReq struct {
	method string
	uri    string
	hdr    http.Header
	body   []byte
	unread bool // the peer failed before looking at the body
}

type recorder struct {
	mu     sync.Mutex
	reqs   []seenReq
	status int
}

func (rc *recorder) ServeHTTP(w http.ResponseWriter, r *http.Request) {
	body, _ := io.ReadAll(r.Body)
	rc.mu.Lock()
	rc.reqs = append(rc.reqs, seenReq{r.Method, r.RequestURI, r.Header.Clone(), body, false})
	st := rc.status
	rc.mu.Unlock()
	w.WriteHeader(st)
	_, _ = w.Write([]byte("fake body\n"))
}

func (rc *recorder) reset(status int) {
	rc.mu.Lock()
	rc.reqs = nil
	rc.status = status
	rc.mu.Unlock()
}

func (rc *recorder) take() []seenReq {
	rc.mu.Lock()
	defer rc.mu.Unlock()
	return rc.reqs
}

var accepted int64 // connections accepted by the resetting peer

var errBoom = errors.New("verif: transport failure")

// doer is a custom HTTPDoer: records the request it is handed, then fails or answers with any status.
// With noRead it fails without touching the request body (as a transport that cannot connect does).
type doer struct {
	reqs   []seenReq
	fail   bool
	noRead bool
	status int
}

func (d *doer) Do(r *http.Request) (*http.Response, error) {
	var body []byte
	unread := false
	if d.fail && d.noRead {
		unread = true
	} else if r.Body != nil {
		body, _ = io.ReadAll(r.Body)
	}
	d.reqs = append(d.reqs, seenReq{r.Method, r.URL.RequestURI(), r.Header.Clone(), body, unread})
	if d.fail {
		return nil, errBoom
	}
	return &http.Response{StatusCode: d.status, Status: strconv.Itoa(d.status), Body: io.NopCloser(strings.NewReader("synthetic body")),
		Header: http.Header{}, Request: r}, nil
}

const (
	tkServer = iota // live test server, answers with the chosen status
	tkReset         // peer accepts the connection and closes it: transport error
	tkDoer          // custom HTTPDoer: per call either returns an error or answers with an arbitrary status
)

// ---------------------------------------------------------------------------------------------
// case description
// ---------------------------------------------------------------------------------------------

type bop struct {
	kind      int // 0 Grouping 1 Collector 2 Gatherer 3 Header 4 BasicAuth 5 Format
	name, val string
	coll      prometheus.Collector
	hdr       http.Header // nil = Header(nil)
	user, pw  string
	format    expfmt.Format
}

type callSpec struct {
	kind      int // 0 Push 1 Add 2 Delete
	fams      []*dto.MetricFamily
	gatherErr bool
	status    int
	fail      bool // tkDoer: the doer returns an error
	noRead    bool // tkDoer, fail: ... without reading the body
}

// step: a builder call or a request; a Pusher's life is any interleaving of them
type step struct {
	isCall bool
	op     bop
	call   callSpec
}

type caseSpec struct {
	scheme, pre string
	slash       bool
	job         string
	steps       []step
	tk          int
	defClient   bool
}

func (cs *caseSpec) addOp(o bop)        { cs.steps = append(cs.steps, step{op: o}) }
func (cs *caseSpec) addCall(c callSpec) { cs.steps = append(cs.steps, step{isCall: true, call: c}) }

type env struct {
	srv      *httptest.Server
	rec      *recorder
	resetURL string
	client   *http.Client
}

// ---------------------------------------------------------------------------------------------
// generators
// ---------------------------------------------------------------------------------------------

var specials = []string{"/", " ", "+", "%", "?", "#", ";", "=", ".", "..", "&", "@", ":", "~", "-", "_", "*", "\"", "'", "\\",
	"é", "中", "\U0001F600", "\x00", "\n", "\r", "\t", "\x7f", "\x1f", "\xff", "\xc0", "\x80", "%2F", "%20", "@base64", "a", "Z", "0", "9"}

func anyString(r *emit.Rng, allowEmpty bool) string {
	var n int
	switch r.Intn(10) {
	case 0:
		n = 0
	case 1, 2, 3:
		n = 1
	case 4, 5:
		n = 2 + r.Intn(3)
	case 6, 7:
		n = 5 + r.Intn(8)
	case 8:
		n = 13 + r.Intn(40)
	default:
		n = 60 + r.Intn(400)
	}
	if n == 0 && !allowEmpty {
		n = 1
	}
	var sb strings.Builder
	mode := r.Intn(4)
	for i := 0; i < n; i++ {
		switch {
		case mode == 0: // plain
			sb.WriteByte("abcxyzABCXYZ0189_"[r.Intn(17)])
		case mode == 1: // any byte
			sb.WriteByte(byte(r.Intn(256)))
		default:
			if r.Chance(1, 2) {
				sb.WriteString(specials[r.Intn(len(specials))])
			} else {
				sb.WriteByte("abcXYZ09"[r.Intn(8)])
			}
		}
	}
	s := sb.String()
	if mode == 3 && r.Chance(1, 2) { // make sure the base64 branch is taken at every length residue
		s += "/"
	}
	return s
}

var goodNames = []string{"a", "b", "instance", "code", "zone", "_x", "A9", "a_b", "l1", "l2", "l3", "x:y", "0a", "Job", "job_", "base64"}

func goodName(r *emit.Rng) string { return goodNames[r.Intn(len(goodNames))] }

// names that LabelName.IsValid refuses: empty or not UTF-8
var badNames = []string{"", "\xff", "a\xc0", "\xed\xa0\x80", "\xf4\x90\x80\x80", "\xc0\x80", "\xe2\x82", "ab\x80", "\xf8\x88\x80\x80\x80", "\xe0\x9f\xbf", "\xf0\x8f\xbf\xbf"}

var hdrKeys = []string{"X-A", "X-Custom-Header", "Accept", "Content-Type", "Authorization", "X-Multi"}
var hdrVals = []string{"v1", "a b", "Bearer t", "text/plain", "x=y; z", "0"}

func genHeader(r *emit.Rng) http.Header {
	h := http.Header{}
	n := r.Intn(4)
	for i := 0; i < n; i++ {
		k := hdrKeys[r.Intn(len(hdrKeys))]
		vs := []string{hdrVals[r.Intn(len(hdrVals))]}
		if k == "X-Multi" {
			vs = append(vs, hdrVals[r.Intn(len(hdrVals))])
		}
		h[k] = vs
	}
	return h
}

var formats = []expfmt.Format{
	expfmt.NewFormat(expfmt.TypeProtoDelim), expfmt.NewFormat(expfmt.TypeTextPlain), expfmt.NewFormat(expfmt.TypeProtoText),
	expfmt.NewFormat(expfmt.TypeProtoCompact), expfmt.NewFormat(expfmt.TypeOpenMetrics), expfmt.FmtOpenMetrics_0_0_1,
}

func genFormat(r *emit.Rng) expfmt.Format {
	if r.Chance(2, 3) {
		return formats[r.Intn(2)]
	}
	return formats[r.Intn(len(formats))]
}

var famNames = []string{"m_a", "m_b", "m_c", "m_d", "m_e", "m_f"}
var metricLabelNames = []string{"la", "lb", "lc", "ld"}

// genFamilies builds what an added Gatherer returns. conflict: 0 none, 1 a "job" label, 2 a grouping label name.
func genFamilies(r *emit.Rng, conflict int, groupNames []string) []*dto.MetricFamily {
	n := r.Intn(4)
	if conflict != 0 && n == 0 {
		n = 1
	}
	perm := []int{0, 1, 2, 3, 4, 5}
	for i := len(perm) - 1; i > 0; i-- {
		j := r.Intn(i + 1)
		perm[i], perm[j] = perm[j], perm[i]
	}
	var out []*dto.MetricFamily
	where := r.Intn(n + 1)
	for i := 0; i < n; i++ {
		name := famNames[perm[i]]
		typ := []dto.MetricType{dto.MetricType_COUNTER, dto.MetricType_GAUGE, dto.MetricType_UNTYPED}[r.Intn(3)]
		mf := &dto.MetricFamily{Name: proto.String(name), Help: proto.String("help of " + name), Type: typ.Enum()}
		nm := 1 + r.Intn(2)
		for k := 0; k < nm; k++ {
			m := &dto.Metric{}
			// distinct label sets inside a family: the first label value carries k
			ls := map[string]string{"la": fmt.Sprintf("v%d", k)}
			for _, ln := range metricLabelNames[1:] {
				if r.Chance(1, 3) {
					ls[ln] = anyLabelValue(r)
				}
			}
			if conflict != 0 && (i == where%n) && k == nm-1 {
				if conflict == 1 {
					ls["job"] = "own"
				} else if len(groupNames) > 0 {
					ls[groupNames[r.Intn(len(groupNames))]] = "own"
				}
			}
			keys := make([]string, 0, len(ls))
			for ln := range ls {
				keys = append(keys, ln)
			}
			sort.Strings(keys)
			for _, ln := range keys {
				m.Label = append(m.Label, &dto.LabelPair{Name: proto.String(ln), Value: proto.String(ls[ln])})
			}
			v := float64(r.Intn(2000)) / 4
			switch typ {
			case dto.MetricType_COUNTER:
				m.Counter = &dto.Counter{Value: proto.Float64(v)}
			case dto.MetricType_GAUGE:
				m.Gauge = &dto.Gauge{Value: proto.Float64(v - 100)}
			default:
				m.Untyped = &dto.Untyped{Value: proto.Float64(v)}
			}
			mf.Metric = append(mf.Metric, m)
		}
		out = append(out, mf)
	}
	return out
}

func anyLabelValue(r *emit.Rng) string {
	vals := []string{"", "x", "a b", "é", "q\"uote", "back\\slash", "new\nline", "1"}
	return vals[r.Intn(len(vals))]
}

var serverStatuses = []int{200, 202, 200, 202, 201, 203, 204, 206, 299, 300, 304, 400, 401, 404, 409, 429, 500, 502, 503, 599, 600, 999}
var doerStatuses = []int{200, 202, 200, 202, 0, -1, 1, 99, 100, 101, 199, 201, 203, 204, 299, 302, 404, 500, 1000, 2020, 20200, 65736, 1 << 31}

func genStatus(r *emit.Rng, tk int, okBias bool) int {
	if okBias && r.Chance(3, 4) {
		return []int{200, 202}[r.Intn(2)]
	}
	if tk == tkDoer {
		return doerStatuses[r.Intn(len(doerStatuses))]
	}
	return serverStatuses[r.Intn(len(serverStatuses))]
}

func genURL(r *emit.Rng, cs *caseSpec) {
	cs.scheme = []string{"http://", "http://", ""}[r.Intn(3)]
	cs.pre = []string{"", "", "", "/pre", "/a/b", "/x.y/~z"}[r.Intn(6)]
	cs.slash = r.Chance(1, 3)
}

func genCollector(r *emit.Rng, pool *[]prometheus.Collector, mode int, groupNames []string) prometheus.Collector {
	switch mode {
	case 1: // invalid descriptor: Register fails
		return prometheus.NewCounter(prometheus.CounterOpts{Name: "", Help: "invalid"})
	case 2: // the same collector again: AlreadyRegisteredError
		if len(*pool) > 0 {
			return (*pool)[r.Intn(len(*pool))]
		}
	case 3: // carries a job label
		c := prometheus.NewGauge(prometheus.GaugeOpts{Name: fmt.Sprintf("c_job_%d", len(*pool)), Help: "h", ConstLabels: prometheus.Labels{"job": "mine"}})
		*pool = append(*pool, c)
		return c
	case 4: // carries a grouping label
		if len(groupNames) > 0 {
			c := prometheus.NewGauge(prometheus.GaugeOpts{Name: fmt.Sprintf("c_grp_%d", len(*pool)), Help: "h",
				ConstLabels: prometheus.Labels{groupNames[r.Intn(len(groupNames))]: "mine"}})
			*pool = append(*pool, c)
			return c
		}
	}
	c := prometheus.NewCounter(prometheus.CounterOpts{Name: fmt.Sprintf("c_ok_%d", len(*pool)), Help: "h", ConstLabels: prometheus.Labels{"lz": "1"}})
	c.Add(float64(r.Intn(10)))
	*pool = append(*pool, c)
	return c
}

// bigFamily: one family whose protobuf / text encoding is far above 64 KiB.
func bigFamily(r *emit.Rng, name string) *dto.MetricFamily {
	n := 3000 + r.Intn(2500)
	mf := &dto.MetricFamily{Name: proto.String(name), Help: proto.String("help of " + name), Type: dto.MetricType_GAUGE.Enum()}
	for k := 0; k < n; k++ {
		mf.Metric = append(mf.Metric, &dto.Metric{
			Label: []*dto.LabelPair{{Name: proto.String("la"), Value: proto.String(fmt.Sprintf("v%d", k))},
				{Name: proto.String("lb"), Value: proto.String("a somewhat longer label value")}},
			Gauge: &dto.Gauge{Value: proto.Float64(float64(k) / 2)}})
	}
	return mf
}

func smallConflictFamily(name, label string) *dto.MetricFamily {
	return &dto.MetricFamily{Name: proto.String(name), Help: proto.String("help of " + name), Type: dto.MetricType_GAUGE.Enum(),
		Metric: []*dto.Metric{{Label: []*dto.LabelPair{{Name: proto.String(label), Value: proto.String("own")}}, Gauge: &dto.Gauge{Value: proto.Float64(1)}}}}
}

// genBig: a push with a body far above 64 KiB that fails before the transport has consumed the body
// (or succeeds), followed by further pushes on the same Pusher.
func genBig(r *emit.Rng, variant int) *caseSpec {
	cs := &caseSpec{}
	genURL(r, cs)
	cs.job = []string{"big", "big job", "b/g"}[r.Intn(3)]
	cs.defClient = r.Chance(1, 2)
	if r.Chance(1, 2) {
		cs.addOp(bop{kind: 0, name: "zone", val: anyString(r, true)})
	}
	if r.Chance(1, 3) {
		cs.addOp(bop{kind: 5, format: formats[r.Intn(2)]})
	}
	big := bigFamily(r, "m_a_big")
	switch variant % 4 {
	case 0: // the custom client fails without reading the body
		cs.tk = tkDoer
		cs.addCall(callSpec{kind: r.Intn(2), fams: []*dto.MetricFamily{big}, fail: true, noRead: true})
	case 1: // a later family carries a job label: the big family is already encoded
		cs.tk = []int{tkServer, tkDoer}[r.Intn(2)]
		cs.addCall(callSpec{kind: r.Intn(2), fams: []*dto.MetricFamily{big, smallConflictFamily("m_z", "job")}, status: 200})
	case 2: // ... a grouping label
		cs.tk = []int{tkServer, tkDoer}[r.Intn(2)]
		cs.addOp(bop{kind: 0, name: "code", val: "1"})
		cs.addCall(callSpec{kind: r.Intn(2), fams: []*dto.MetricFamily{big, smallConflictFamily("m_z", "code")}, status: 200})
	default: // a big push that succeeds
		cs.tk = []int{tkServer, tkDoer}[r.Intn(2)]
		cs.addCall(callSpec{kind: r.Intn(2), fams: []*dto.MetricFamily{big}, status: 200})
	}
	n := 1 + r.Intn(2)
	for i := 0; i < n; i++ {
		cs.addCall(callSpec{kind: r.Intn(2), fams: genFamilies(r, 0, nil), status: []int{200, 202}[r.Intn(2)]})
	}
	return cs
}

// genCase builds one Pusher life for the given stream.
func genCase(r *emit.Rng, stream string) *caseSpec {
	cs := &caseSpec{}
	genURL(r, cs)
	cs.tk = []int{tkServer, tkServer, tkServer, tkDoer, tkDoer, tkReset}[r.Intn(6)]
	cs.defClient = r.Chance(1, 2)
	var pool []prometheus.Collector
	var groupNames []string
	grouping := func(n int) {
		for i := 0; i < n; i++ {
			name := goodName(r)
			groupNames = append(groupNames, name)
			cs.addOp(bop{kind: 0, name: name, val: anyString(r, true)})
		}
	}
	regroup := func() { // a label name that is already part of the key, with a new value
		if len(groupNames) == 0 {
			grouping(1)
			return
		}
		cs.addOp(bop{kind: 0, name: groupNames[r.Intn(len(groupNames))], val: anyString(r, true)})
	}
	doerCall := func(c callSpec) callSpec {
		if cs.tk == tkDoer && r.Chance(1, 3) {
			c.fail = true
			c.noRead = r.Chance(1, 2)
		}
		return c
	}
	switch stream {
	case "paths":
		cs.tk = []int{tkServer, tkServer, tkDoer}[r.Intn(3)]
		cs.job = anyString(r, false)
		grouping(r.Intn(5))
		if r.Chance(1, 4) {
			cs.addOp(bop{kind: 5, format: genFormat(r)})
		}
		c := callSpec{kind: r.Intn(3), fams: genFamilies(r, 0, nil), status: 202}
		if c.kind != 2 && r.Chance(1, 2) {
			c.status = 200
		}
		cs.addCall(c)
	case "responses":
		cs.job = []string{"j", "some job", "a/b"}[r.Intn(3)]
		grouping(r.Intn(2))
		nc := 1 + r.Intn(3)
		for i := 0; i < nc; i++ {
			cs.addCall(doerCall(callSpec{kind: r.Intn(3), fams: genFamilies(r, 0, nil), status: genStatus(r, cs.tk, false)}))
		}
	case "history": // configuration calls BETWEEN requests on one Pusher
		cs.tk = []int{tkServer, tkServer, tkDoer}[r.Intn(3)]
		cs.job = anyString(r, false)
		grouping(1 + r.Intn(3))
		nc := 2 + r.Intn(3)
		for i := 0; i < nc; i++ {
			c := callSpec{kind: r.Intn(3), fams: genFamilies(r, 0, nil), status: 202}
			if c.kind != 2 && r.Chance(1, 2) {
				c.status = 200
			}
			cs.addCall(doerCall(c))
			switch r.Intn(8) {
			case 0:
				grouping(1)
			case 1:
				cs.addOp(bop{kind: 4, user: anyString(r, true), pw: anyString(r, true)})
			case 2:
				cs.addOp(bop{kind: 3, hdr: genHeader(r)})
			case 3:
				cs.addOp(bop{kind: 5, format: genFormat(r)})
			default:
				regroup()
				if r.Chance(1, 4) {
					regroup()
				}
			}
		}
	default: // life, malformed
		bad := stream == "malformed"
		p := func(good, malformed int) bool { // chance in percent
			if bad {
				return r.Chance(malformed, 100)
			}
			return r.Chance(good, 100)
		}
		cs.job = anyString(r, false)
		if p(3, 20) {
			cs.job = ""
		}
		someOps := func(nops int) {
			for i := 0; i < nops; i++ {
				switch r.Intn(10) {
				case 0, 1, 2:
					if p(4, 30) {
						cs.addOp(bop{kind: 0, name: badNames[r.Intn(len(badNames))], val: anyString(r, true)})
					} else {
						grouping(1)
					}
				case 3:
					mode := 0
					if p(10, 50) {
						mode = 1 + r.Intn(4)
					}
					cs.addOp(bop{kind: 1, coll: genCollector(r, &pool, mode, groupNames)})
				case 4:
					cs.addOp(bop{kind: 2})
				case 5:
					if r.Chance(1, 5) {
						cs.addOp(bop{kind: 3, hdr: nil})
					} else {
						cs.addOp(bop{kind: 3, hdr: genHeader(r)})
					}
				case 6:
					cs.addOp(bop{kind: 4, user: anyString(r, true), pw: anyString(r, true)})
				case 7:
					cs.addOp(bop{kind: 5, format: genFormat(r)})
				case 8:
					regroup()
				default:
					grouping(1)
				}
			}
		}
		someOps(2 + r.Intn(7))
		nc := 1 + r.Intn(3)
		for i := 0; i < nc; i++ {
			if i > 0 {
				someOps(r.Intn(3))
			}
			c := callSpec{kind: r.Intn(3), status: genStatus(r, cs.tk, true)}
			conflict := 0
			if p(8, 35) {
				conflict = 1 + r.Intn(2)
			}
			c.fams = genFamilies(r, conflict, groupNames)
			c.gatherErr = p(5, 25)
			cs.addCall(doerCall(c))
		}
	}
	return cs
}

// ---------------------------------------------------------------------------------------------
// running one case on the real code
// ---------------------------------------------------------------------------------------------

func berrTerm(e error) string {
	msg := e.Error()
	switch {
	case msg == "job name is empty":
		return emit.C(1)
	case strings.HasPrefix(msg, "grouping label has invalid name: "):
		return emit.C(2, emit.S(strings.TrimPrefix(msg, "grouping label has invalid name: ")))
	default:
		return emit.C(3)
	}
}

func cerrTerm(err, sticky, gatherErr error) string {
	switch {
	case err == nil:
		return emit.C(0)
	case sticky != nil && err == sticky:
		return emit.C(1, berrTerm(err))
	case gatherErr != nil && err.Error() == gatherErr.Error():
		return emit.C(2)
	}
	msg := err.Error()
	var ue *url.Error
	switch {
	case strings.HasPrefix(msg, "pushed metric ") && strings.Contains(msg, ") already contains a job label"):
		return emit.C(3)
	case strings.HasPrefix(msg, "pushed metric ") && strings.Contains(msg, ") already contains grouping label "):
		return emit.C(4)
	case strings.HasPrefix(msg, "unexpected status code "):
		f := strings.Fields(strings.TrimPrefix(msg, "unexpected status code "))
		if len(f) > 0 {
			if n, e := strconv.Atoi(f[0]); e == nil {
				return emit.C(7, emit.I(n))
			}
		}
		return emit.C(8)
	case errors.Is(err, errBoom):
		return emit.C(6)
	case errors.As(err, &ue) && (ue.Op == "Put" || ue.Op == "Post" || ue.Op == "Delete"):
		return emit.C(6)
	}
	return emit.C(8)
}

func hdrTerm(h http.Header, fromServer bool) string {
	keys := make([]string, 0, len(h))
	for k := range h {
		if fromServer && (k == "Accept-Encoding" || k == "Content-Length" || k == "User-Agent" || k == "Connection") {
			continue // added by net/http's transport
		}
		keys = append(keys, k)
	}
	sort.Strings(keys)
	items := make([]string, 0, len(keys))
	for _, k := range keys {
		items = append(items, emit.Tup(emit.S(k), emit.SL(h[k])))
	}
	return emit.L(items)
}

func famsTerm(fams []*dto.MetricFamily) string {
	var fs []string
	for _, mf := range fams {
		var ms []string
		for _, m := range mf.GetMetric() {
			var ls []string
			for _, l := range m.GetLabel() {
				ls = append(ls, emit.Tup(emit.S(l.GetName()), emit.S(l.GetValue())))
			}
			ms = append(ms, emit.L(ls))
		}
		fs = append(fs, emit.Tup(emit.S(mf.GetName()), emit.L(ms)))
	}
	return emit.L(fs)
}

// bodyOK: the body decodes, in the format declared by Content-Type, to exactly the families `want`.
func bodyOK(sr seenReq, want []*dto.MetricFamily) bool {
	declared := expfmt.ResponseFormat(sr.hdr)
	ct := sr.hdr.Get("Content-Type")
	switch declared {
	case expfmt.FmtProtoDelim:
		dec := expfmt.NewDecoder(bytes.NewReader(sr.body), declared)
		for _, w := range want {
			var got dto.MetricFamily
			if err := dec.Decode(&got); err != nil || !proto.Equal(&got, w) {
				return false
			}
		}
		var extra dto.MetricFamily
		return dec.Decode(&extra) == io.EOF
	case expfmt.FmtText:
		var p expfmt.TextParser
		got, err := p.TextToMetricFamilies(bytes.NewReader(sr.body))
		if err != nil || len(got) != len(want) {
			return false
		}
		for _, w := range want {
			// the text format 0.0.4 has no place for a counter's created timestamp
			wc := proto.Clone(w).(*dto.MetricFamily)
			for _, m := range wc.Metric {
				if m.Counter != nil {
					m.Counter.CreatedTimestamp = nil
				}
			}
			g, ok := got[w.GetName()]
			if !ok || !proto.Equal(g, wc) {
				return false
			}
		}
		return true
	default:
		// no decoder available for this format: compare with the library's own finalized encoding of the gathered families
		var ref bytes.Buffer
		enc := expfmt.NewEncoder(&ref, expfmt.Format(ct))
		for _, w := range want {
			if enc.Encode(w) != nil {
				return false
			}
		}
		if c, ok := enc.(expfmt.Closer); ok && c.Close() != nil {
			return false
		}
		if expfmt.Format(ct).FormatType() == expfmt.TypeOpenMetrics {
			// a complete OpenMetrics exposition: terminated by exactly one "# EOF" line, which is the last line
			if !bytes.HasSuffix(sr.body, []byte("# EOF\n")) || bytes.Count(sr.body, []byte("# EOF")) != 1 {
				return false
			}
			if len(sr.body) > 6 && sr.body[len(sr.body)-7] != '\n' {
				return false
			}
		}
		return bytes.Equal(ref.Bytes(), sr.body)
	}
}

func methodCode(m string) int {
	switch m {
	case http.MethodPut:
		return 0
	case http.MethodPost:
		return 1
	case http.MethodDelete:
		return 2
	}
	return 9
}

var errGather = errors.New("verif: gatherer failed")

func runCase(e *env, cs *caseSpec) (term string, nontrivial bool, tags []string) {
	host := strings.TrimPrefix(e.srv.URL, "http://")
	if cs.tk == tkReset {
		host = e.resetURL
	}
	mk := func(h string) string {
		u := cs.scheme + h + cs.pre
		if cs.slash {
			u += "/"
		}
		return u
	}
	p := push.New(mk(host), cs.job)
	ib := emit.None()
	if p.Error() != nil {
		ib = emit.Some(berrTerm(p.Error()))
	}
	oreg := prometheus.NewRegistry() // mirrors the Pusher's private registry
	oracle := prometheus.Gatherers{oreg}
	var curFams []*dto.MetricFamily
	var curErr error
	gf := prometheus.GathererFunc(func() ([]*dto.MetricFamily, error) { return curFams, curErr })
	// one added Gatherer always delivers the per-call families
	p.Gatherer(gf)
	oracle = append(oracle, gf)

	d := &doer{}
	switch cs.tk {
	case tkDoer:
		p.Client(d)
	case tkReset:
		p.Client(e.client)
	default:
		if !cs.defClient {
			p.Client(e.client)
		}
	}

	var steps, obs []string
	nGroup, nCalls, callsSoFar := 0, 0, 0
	seenNames := map[string]bool{}
	for _, st := range cs.steps {
		if !st.isCall {
			o := st.op
			var t string
			switch o.kind {
			case 0:
				p.Grouping(o.name, o.val)
				t = emit.C(0, emit.S(o.name), emit.S(o.val))
				nGroup++
				if seenNames[o.name] && callsSoFar > 0 {
					tags = append(tags, "regroup-between-requests")
				}
				seenNames[o.name] = true
			case 1:
				fails := oreg.Register(o.coll) != nil
				p.Collector(o.coll)
				t = emit.C(1, emit.B(fails))
			case 2:
				empty := prometheus.GathererFunc(func() ([]*dto.MetricFamily, error) { return nil, nil })
				p.Gatherer(empty)
				oracle = append(oracle, empty)
				t = emit.C(2)
			case 3:
				if o.hdr == nil {
					p.Header(nil)
					t = emit.C(3, emit.None())
				} else {
					t = emit.C(3, emit.Some(hdrTerm(o.hdr, false))) // before the Pusher can touch the map
					p.Header(o.hdr)
				}
			case 4:
				p.BasicAuth(o.user, o.pw)
				t = emit.C(4, emit.S(o.user), emit.S(o.pw))
			case 5:
				p.Format(o.format)
				t = emit.C(5, emit.S(string(o.format)))
			}
			steps = append(steps, emit.C(0, t))
			eb := emit.None()
			if p.Error() != nil {
				eb = emit.Some(berrTerm(p.Error()))
			}
			obs = append(obs, emit.C(0, eb))
			if callsSoFar > 0 {
				tags = append(tags, "config-between-requests")
			}
			continue
		}
		c := st.call
		nCalls++
		callsSoFar++
		sticky := p.Error()
		if sticky != nil {
			nontrivial = true
		}
		curFams, curErr = c.fams, nil
		if c.gatherErr {
			curErr = errGather
		}
		want, wantErr := oracle.Gather()
		gterm := emit.None()
		if wantErr == nil {
			gterm = emit.Some(famsTerm(want))
		}
		tr := emit.C(0, emit.I(c.status))
		if cs.tk == tkReset || (cs.tk == tkDoer && c.fail) {
			tr = emit.C(1)
		}
		steps = append(steps, emit.C(1, emit.Tup(emit.I(c.kind), gterm, tr)))

		e.rec.reset(c.status)
		if c.status < 100 || c.status > 999 {
			e.rec.reset(500) // never used: such statuses are only given to the custom doer
		}
		d.reqs, d.status, d.fail, d.noRead = nil, c.status, c.fail, c.noRead
		acc0 := atomic.LoadInt64(&accepted)
		var err error
		switch c.kind {
		case 0:
			err = p.Push()
		case 1:
			err = p.Add()
		default:
			err = p.Delete()
		}
		if p.Error() != sticky {
			// a call must not change the sticky error
			err = fmt.Errorf("sticky error changed: %v -> %v", sticky, p.Error())
		}
		var seen []seenReq
		sent := 0
		fromServer := false
		switch cs.tk {
		case tkServer:
			seen = e.rec.take()
			sent = len(seen)
			fromServer = true
		case tkReset:
			sent = int(atomic.LoadInt64(&accepted) - acc0) // connections the peer accepted (and then reset)
		default:
			seen = d.reqs
			sent = len(seen)
		}
		req := emit.None()
		ok := false
		if len(seen) > 0 {
			sr := seen[0]
			req = emit.Some(emit.Tup(emit.I(methodCode(sr.method)), emit.S(sr.uri), hdrTerm(sr.hdr, fromServer)))
			switch {
			case sr.unread:
				ok = true // the peer never looked at the body
			case c.kind == 2:
				ok = len(sr.body) == 0
			default:
				ok = wantErr == nil && bodyOK(sr, want)
			}
			if nGroup > 0 || cs.job != "j" {
				nontrivial = true
			}
			tags = append(tags, "sent:"+sr.method)
			if ct := sr.hdr.Get("Content-Type"); c.kind != 2 {
				tags = append(tags, "format:"+strings.SplitN(ct, ";", 2)[0]+fmt.Sprintf("/%d", len(ct)))
				switch {
				case sr.unread:
					tags = append(tags, "body:unread")
				case len(sr.body) > 64<<10:
					tags = append(tags, "body:>64KiB")
				default:
					tags = append(tags, "body:<=64KiB")
				}
			}
		} else {
			tags = append(tags, "nothing-seen")
		}
		et := cerrTerm(err, sticky, wantErr)
		if err != nil {
			nontrivial = true
		}
		tags = append(tags, "err:"+strings.SplitN(strings.Trim(et, "()"), " ", 2)[0])
		obs = append(obs, emit.C(1, emit.Tup(et, emit.I(sent), req, emit.B(ok))))
	}
	tags = append(tags, fmt.Sprintf("transport:%d", cs.tk), fmt.Sprintf("grouping:%d", min(nGroup, 4)), fmt.Sprintf("calls:%d", nCalls))
	term = emit.C(0, emit.S(mk("H")), emit.S(cs.pre), emit.S(cs.job), emit.L(steps), emit.Tup(ib, emit.L(obs)))
	return term, nontrivial, tags
}

func min(a, b int) int {
	if a < b {
		return a
	}
	return b
}

// ---------------------------------------------------------------------------------------------
// streams
// ---------------------------------------------------------------------------------------------

func optS(s string, ok bool) string {
	if !ok {
		return emit.None()
	}
	return emit.Some(emit.S(s))
}

func lenClass(n int) string {
	switch {
	case n == 0:
		return "len:0"
	case n <= 3:
		return "len:1-3"
	case n <= 12:
		return "len:4-12"
	case n <= 60:
		return "len:13-60"
	}
	return "len:>60"
}

func runC15(c *cli.Ctx) error {
	r := emit.NewRng(c.Seed)
	rec := &recorder{status: 200}
	srv := httptest.NewServer(rec)
	defer srv.Close()
	ln, err := net.Listen("tcp", "127.0.0.1:0")
	if err != nil {
		return err
	}
	defer ln.Close()
	go func() {
		for {
			conn, err := ln.Accept()
			if err != nil {
				return
			}
			atomic.AddInt64(&accepted, 1) // before the close the client is waiting for
			conn.Close()
		}
	}()
	tr := &http.Transport{DisableKeepAlives: true}
	e := &env{srv: srv, rec: rec, resetURL: ln.Addr().String(), client: &http.Client{Transport: tr}}

	// --- encodeComponent on its own ---
	w := emit.NewWriter(c.Out, "C15", "codec")
	fixed := []string{"", "/", " ", "+", "%", "?", "#", ";", "=", ".", "..", "a b", "a+b", "a/b", "//", "é", "\xff", "\x00", "a", "ab", "abc", "/a", "/ab", "/abc", "/abcd", "/abcde",
		"test/job", "bu/ms", "Προμηθεύς", "%2F", "%20", "~", "-_.~", "@base64", "\xff/\xfe\xfd", "/\xfb\xff", "/\xfb\xef\xff"}
	for b := 0; b < 256; b++ {
		fixed = append(fixed, string([]byte{byte(b)}), string([]byte{'/', byte(b)}), string([]byte{byte(b), '/', byte(b)}))
	}
	n := 1500 * c.Scale
	for i := 0; i < len(fixed)+n; i++ {
		var s string
		if i < len(fixed) {
			s = fixed[i]
		} else {
			s = anyString(r, true)
		}
		enc, b64 := push.VerifEncodeComponent(s)
		tag := "escape"
		if b64 {
			tag = "base64"
			if s == "" {
				tag = "empty"
			}
		}
		w.Add(emit.C(1, emit.S(s), emit.S(enc), emit.B(b64)), len(s) > 0 && enc != s, tag, lenClass(len(s)))
	}
	if err := w.Flush(); err != nil {
		return err
	}

	// --- the specification's decoder against Go's url.PathUnescape and base64.RawURLEncoding ---
	w = emit.NewWriter(c.Out, "C15", "decoder")
	alpha := "%%%%0123456789abcdefABCDEFGgxyzXYZ-_+/=. \n\r~"
	dfixed := []string{"", "=", "==", "===", "A", "AA", "AAA", "AAAA", "AAAAA", "AA=", "A=A", "=A", "QQ", "QR", "Zm9v", "Zm8", "Zm9=", "Zg==", "Z\ng", "Zg\r\n", "%", "%4", "%41", "%4g", "%g4", "%%41", "a%2Fb", "a+b", "%2f", "%C3%A9", "+/", "-_", "\xff", "%FF", "A\x00"}
	n = 1500 * c.Scale
	for i := 0; i < len(dfixed)+n; i++ {
		var s string
		if i < len(dfixed) {
			s = dfixed[i]
		} else if r.Chance(1, 3) { // an encoded string, possibly damaged
			enc, _ := push.VerifEncodeComponent(anyString(r, true))
			bs := []byte(enc)
			if len(bs) > 0 && r.Chance(1, 2) {
				bs[r.Intn(len(bs))] = alpha[r.Intn(len(alpha))]
			}
			if r.Chance(1, 4) {
				bs = append(bs, '=')
			}
			s = string(bs)
		} else {
			k := r.Intn(12)
			bs := make([]byte, k)
			for j := range bs {
				bs[j] = alpha[r.Intn(len(alpha))]
			}
			s = string(bs)
		}
		pu, perr := url.PathUnescape(s)
		bd, berr := base64.RawURLEncoding.DecodeString(strings.TrimRight(s, "="))
		w.Add(emit.C(2, emit.S(s), optS(pu, perr == nil), optS(string(bd), berr == nil)), perr == nil || berr == nil,
			fmt.Sprintf("pct-ok:%v", perr == nil), fmt.Sprintf("b64-ok:%v", berr == nil))
	}
	if err := w.Flush(); err != nil {
		return err
	}

	// --- Pusher lives ---
	for _, st := range []struct {
		name string
		n    int
	}{{"paths", 700}, {"life", 600}, {"history", 400}, {"responses", 250}, {"malformed", 400}} {
		w = emit.NewWriter(c.Out, "C15", st.name)
		for i := 0; i < st.n*c.Scale; i++ {
			cs := genCase(r, st.name)
			term, nt, tags := runCase(e, cs)
			w.Add(term, nt, tags...)
		}
		if err := w.Flush(); err != nil {
			return err
		}
	}

	// --- bodies far above 64 KiB, failing-then-succeeding pushes on one Pusher ---
	w = emit.NewWriter(c.Out, "C15", "bigbody")
	for i := 0; i < 7+c.Scale; i++ {
		term, nt, tags := runCase(e, genBig(r, i))
		w.Add(term, nt, tags...)
	}
	if err := w.Flush(); err != nil {
		return err
	}

	// --- known findings, one exact input each (known_findings.txt) ---
	known := func(name, val string) *caseSpec {
		cs := &caseSpec{scheme: "http://", job: "j", tk: tkServer}
		cs.addOp(bop{kind: 0, name: name, val: val})
		cs.addCall(callSpec{kind: 0, status: 200})
		return cs
	}
	w = emit.NewWriter(c.Out, "C15", "known-label-name-slash")
	term, _, tags := runCase(e, known("x/y", "v"))
	w.Add(term, true, tags...)
	if err := w.Flush(); err != nil {
		return err
	}
	w = emit.NewWriter(c.Out, "C15", "known-grouping-job")
	term, _, tags = runCase(e, known("job", "x"))
	w.Add(term, true, tags...)
	return w.Flush()
}
