// implrun runs the real client_golang code on generated cases and writes Coq case files
// (inputs + the implementation's observables) for the model side to evaluate.
package main

import (
	"flag"
	"fmt"
	"io"
	"log"
	"os"
	"runtime"
	"sort"
)

type Ctx struct {
	Prop   string
	Seed   uint64
	Tier   string
	Out    string
	Replay string
	Scale  int // 1 for quick, larger for thorough
}

type driver func(c *Ctx) error

var drivers = map[string]driver{}

func register(prop string, d driver) { drivers[prop] = d }

func main() {
	log.SetOutput(io.Discard)
	if runtime.GOOS != "linux" || runtime.GOARCH != "amd64" {
		fmt.Fprintln(os.Stderr, "implrun: only linux/amd64 is supported (float->uint64 conversion, int width)")
		os.Exit(3)
	}
	fs := flag.NewFlagSet("implrun", flag.ExitOnError)
	seed := fs.Uint64("seed", 1, "seed")
	tier := fs.String("tier", "quick", "quick|thorough")
	out := fs.String("out", "", "output directory")
	replay := fs.String("replay", "", "replay file")
	if len(os.Args) < 2 {
		var ks []string
		for k := range drivers {
			ks = append(ks, k)
		}
		sort.Strings(ks)
		fmt.Fprintln(os.Stderr, "usage: implrun <PROP> [flags]; known:", ks)
		os.Exit(2)
	}
	prop := os.Args[1]
	fs.Parse(os.Args[2:])
	d, ok := drivers[prop]
	if !ok {
		fmt.Fprintln(os.Stderr, "unknown property", prop)
		os.Exit(2)
	}
	c := &Ctx{Prop: prop, Seed: *seed, Tier: *tier, Out: *out, Replay: *replay, Scale: 1}
	if *tier == "thorough" {
		c.Scale = 20
	}
	if err := d(c); err != nil {
		fmt.Fprintln(os.Stderr, "implrun:", err)
		os.Exit(1)
	}
}
