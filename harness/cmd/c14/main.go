package main

// C14: constructors either reject an input or expose it faithfully.
// Runs the real constructors (NewDesc, BuildFQName, New*/New*Vec/New*Func, NewConst*,
// NewConstNativeHistogram, NewMetricWithTimestamp, NewMetricWithExemplars), projects error kind
// and Write output, and emits input + observables for coq/theories/Run/C14_run.v.
//
// case formats (tag first), see Run/C14_run.v:
//  (0 ns sub name impl)                                   BuildFQName
//  (1 dspec vt value impl)                                NewDesc + NewConstMetric + Write
//  (2 kind cfg ns sub name help vars consts lvs impl)     live constructors (cfg: bucket/objective configuration, V2)
//  (3 dspec count sum buckets impl)                       NewConstHistogram
//  (4 dspec count sum quantiles impl)                     NewConstSummary
//  (5 dspec count sum pos neg zero schema zt impl)        NewConstNativeHistogram
//  (6 sec nsec ms same)                                   NewMetricWithTimestamp
//  (7 vt value exs impl)                                  NewMetricWithExemplars over a const metric
//  (9 inner-ts layers impl-ts same)                       stacks of timestamp / exemplar wrappers, custom inner metrics
//  (10 0 dspec impl) (10 1 exs code)                      name decisions under model.LegacyValidation
//  (8 count buckets exs impl)                             NewMetricWithExemplars over a const (native) histogram
// dspec = (fq help vars consts lvs); impl = (0 errcode) | (1 observables...)

import (
	"fmt"
	"math"
	"math/big"
	"math/bits"
	"os"
	"sort"
	"strings"
	"time"

	"github.com/prometheus/client_golang/prometheus"
	dto "github.com/prometheus/client_model/go"
	"github.com/prometheus/common/model"
	"google.golang.org/protobuf/proto"

	"verifharness/internal/cli"
	"verifharness/internal/emit"
)

func main() { cli.Main("C14", runC14) }

// ---------------------------------------------------------------- error classification
func errCode(err error) int {
	if err == nil {
		return -1
	}
	s := err.Error()
	switch {
	case strings.Contains(s, "exemplar label name"):
		return 10
	case strings.Contains(s, "exemplar label value"):
		return 11
	case strings.Contains(s, "exemplar labels have"):
		return 12
	case strings.Contains(s, "no exemplar was passed"):
		return 13
	case strings.Contains(s, "cannot inject exemplar"):
		return 14
	case strings.Contains(s, "is not a valid metric name"):
		return 1
	case strings.Contains(s, "is not a valid label name"):
		return 2
	case strings.Contains(s, "duplicate label names"):
		return 4
	case strings.Contains(s, "inconsistent label cardinality"):
		return 5
	case strings.Contains(s, "is not valid UTF-8"):
		return 3
	case strings.Contains(s, "encountered unknown type"):
		return 6
	case strings.Contains(s, "invalid native histogram schema"):
		return 7
	case strings.Contains(s, "the sum of all bucket populations"):
		return 8
	case strings.Contains(s, "cannot be encoded as an int32 span offset"):
		return 9
	case strings.Contains(s, "created timestamps are only supported for counters"):
		return 15
	}
	return 0
}

// ---------------------------------------------------------------- string generators
var goodNames = []string{"a", "b", "c", "abc", "code", "method", "job", "x_1", "_x", "x__y", "A", "zz", "le", "quantile",
	"0abc", "a b", "a.b", "naïve", "日本", "\U0001F600", "a\x00", "l", "lf", "q", "é", "_", "x_",
	// legal under UTF-8 validation although they look like internal markers / unusual first characters
	"\uFFFD", "a\uFFFD", "\uFFFDz", "$x", "$", "$region", "$a", "$le", " x", ".", "-", "a$", "#", "{", "=", "\"", "\\", "ÿ"}
var badNames = []string{"", "__x", "__", "__name__", "\xff", "a\xc0\xaf", "\xed\xa0\x80", "\xf4\x90\x80\x80", "\xe2\x82", "a\x80",
	"\xc1\xbf", "\xf5\x80\x80\x80", "\xe0\x9f\xbf", "\xf0\x8f\xbf\xbf", "ab\xc3"}
var goodValues = []string{"", "v", "1", "value", "GET", "200", "üö", "a b c", "\U0001F600", "\xed\x9f\xbf", "\xee\x80\x80", "\xf4\x8f\xbf\xbf",
	"\xf0\x90\x80\x80", "\xe0\xa0\x80", "\xc2\x80", "\xdf\xbf", "__v", "\x00", "\x7f",
	// a correctly encoded U+FFFD (what strings.ToValidUTF8 leaves behind) is valid UTF-8
	"\uFFFD", "a\uFFFDb", "\uFFFD\uFFFD", "x\uFFFD", "\uFFFC", "\uFFFE", "\uFFFF", "\U0010FFFD"}
var badValues = []string{"\xff", "\xc0\x80", "\xed\xa0\x80", "\xf4\x90\x80\x80", "abc\xe2\x82", "\x80", "\xf8\x88\x80\x80\x80", "\xed\xbf\xbf", "\xc2", "a\xf0\x9f\x98"}

func randBytes(r *emit.Rng, n int) string {
	b := make([]byte, n)
	for i := range b {
		switch r.Intn(4) {
		case 0:
			b[i] = byte(r.Intn(256))
		case 1:
			b[i] = byte(0x80 + r.Intn(0x40))
		default:
			b[i] = byte('a' + r.Intn(26))
		}
	}
	return string(b)
}

func randRunes(r *emit.Rng, n int) string {
	var sb strings.Builder
	for i := 0; i < n; i++ {
		switch r.Intn(6) {
		case 0:
			sb.WriteRune(rune(0x80 + r.Intn(0x780)))
		case 1:
			sb.WriteRune(rune(0x800 + r.Intn(0xD000)))
		case 2:
			sb.WriteRune(rune(0x10000 + r.Intn(0x100000)))
		case 3:
			sb.WriteRune([]rune{0x7f, 0x80, 0x7ff, 0x800, 0xd7ff, 0xe000, 0xffff, 0x10000, 0x10ffff, 0xfffd, 0xfffd}[r.Intn(11)])
		default:
			sb.WriteByte(byte('a' + r.Intn(26)))
		}
	}
	return sb.String()
}

// badPct: chance in 100 of a deliberately invalid string
func genName(r *emit.Rng, badPct int) string {
	if r.Intn(100) < badPct {
		if r.Chance(1, 4) {
			return randBytes(r, 1+r.Intn(5))
		}
		return badNames[r.Intn(len(badNames))]
	}
	if r.Chance(1, 8) {
		return randRunes(r, 1+r.Intn(4))
	}
	return goodNames[r.Intn(len(goodNames))]
}

func genValue(r *emit.Rng, badPct int) string {
	if r.Intn(100) < badPct {
		if r.Chance(1, 4) {
			return randBytes(r, 1+r.Intn(6))
		}
		return badValues[r.Intn(len(badValues))]
	}
	if r.Chance(1, 6) {
		return randRunes(r, r.Intn(6))
	}
	return goodValues[r.Intn(len(goodValues))]
}

type kv struct{ k, v string }

// a Go map rendered in a seeded pseudo-random (not sorted) order
func mapOrder(r *emit.Rng, m map[string]string) []kv {
	ks := make([]string, 0, len(m))
	for k := range m {
		ks = append(ks, k)
	}
	sort.Strings(ks)
	for i := len(ks) - 1; i > 0; i-- {
		j := r.Intn(i + 1)
		ks[i], ks[j] = ks[j], ks[i]
	}
	out := make([]kv, len(ks))
	for i, k := range ks {
		out[i] = kv{k, m[k]}
	}
	return out
}

func kvS(l []kv) string {
	it := make([]string, len(l))
	for i, p := range l {
		it[i] = emit.Pair(emit.S(p.k), emit.S(p.v))
	}
	return emit.L(it)
}

func lpS(l []*dto.LabelPair) string {
	it := make([]string, len(l))
	for i, p := range l {
		it[i] = emit.Pair(emit.S(p.GetName()), emit.S(p.GetValue()))
	}
	return emit.L(it)
}

func lpSorted(l []*dto.LabelPair) string {
	c := append([]*dto.LabelPair{}, l...)
	sort.SliceStable(c, func(i, j int) bool { return c[i].GetName() < c[j].GetName() })
	return lpS(c)
}

// ---------------------------------------------------------------- descriptor inputs
type dspec struct {
	fq, help string
	vars     []string
	consts   map[string]string
	cOrder   []kv
	lvs      []string
	tags     []string
}

func (d *dspec) term() string {
	return emit.Tup(emit.S(d.fq), emit.S(d.help), emit.SL(d.vars), kvS(d.cOrder), emit.SL(d.lvs))
}

func genDspec(r *emit.Rng, bad int) *dspec {
	d := &dspec{consts: map[string]string{}}
	d.fq = genName(r, bad/2)
	if r.Chance(1, 3) {
		d.fq = prometheus.BuildFQName(genName(r, 0), "", genName(r, bad/2))
	}
	d.help = genValue(r, 5)
	nc := r.Intn(5)
	for i := 0; i < nc; i++ {
		d.consts[genName(r, bad/3)] = genValue(r, bad/3)
	}
	nv := r.Intn(5)
	taken := func(n string) bool {
		if _, ok := d.consts[n]; ok {
			return true
		}
		for _, v := range d.vars {
			if v == n {
				return true
			}
		}
		return false
	}
	for i := 0; i < nv; i++ {
		n := genName(r, bad/3)
		for try := 0; try < 6 && taken(n); try++ { // accidental duplicates are rare; deliberate ones below
			n = genName(r, 0)
		}
		if r.Intn(100) < bad/2 { // duplicate of an existing name
			if len(d.vars) > 0 && r.Bool() {
				n = d.vars[r.Intn(len(d.vars))]
			} else if len(d.consts) > 0 {
				for k := range mapFirst(r, d.consts) {
					n = k
				}
			}
		}
		d.vars = append(d.vars, n)
	}
	d.cOrder = mapOrder(r, d.consts)
	nl := len(d.vars)
	if r.Intn(100) < bad/2 {
		nl = r.Intn(6)
	}
	for i := 0; i < nl; i++ {
		d.lvs = append(d.lvs, genValue(r, bad/3))
	}
	// directed: right arity, exactly one label value that is not valid UTF-8 (every constructor variant must refuse it)
	if len(d.vars) > 0 && len(d.lvs) == len(d.vars) && r.Chance(1, 10) {
		d.lvs[r.Intn(len(d.lvs))] = badValues[r.Intn(len(badValues))]
		d.tags = append(d.tags, "directed:one-non-utf8-label-value")
	}
	d.tags = append(d.tags, fmt.Sprintf("consts:%d", len(d.consts)), fmt.Sprintf("vars:%d", len(d.vars)))
	return d
}

// one seeded element of a map (as a one-element map)
func mapFirst(r *emit.Rng, m map[string]string) map[string]string {
	ks := make([]string, 0, len(m))
	for k := range m {
		ks = append(ks, k)
	}
	sort.Strings(ks)
	k := ks[r.Intn(len(ks))]
	return map[string]string{k: m[k]}
}

func (d *dspec) desc() *prometheus.Desc {
	var vars []string
	if d.vars != nil {
		vars = append([]string{}, d.vars...)
	}
	return prometheus.NewDesc(d.fq, d.help, vars, prometheus.Labels(d.consts))
}

func errTag(code int) string { return fmt.Sprintf("result:err%d", code) }

// one generated case; a generator returns one case per constructor variant, all on the same inputs
type oneCase struct {
	term string
	nt   bool
	tags []string
}

func single(t string, nt bool, tags []string) []oneCase { return []oneCase{{t, nt, tags}} }

// must runs a Must* constructor: the documented panic carries the error the plain form returns
func must(f func() prometheus.Metric) (m prometheus.Metric, err error) {
	defer func() {
		if e := recover(); e != nil {
			if ee, ok := e.(error); ok {
				err = ee
			} else {
				err = fmt.Errorf("panic: %v", e)
			}
			m = nil
		}
	}()
	return f(), nil
}

var createdTS = time.Unix(1700000000, 123)

// ctOK: the created timestamp is present and equal to createdTS exactly for the ...WithCreatedTimestamp variants
func ctOK(variant int, has bool, at time.Time) bool {
	if variant >= 2 {
		return has && at.Equal(createdTS)
	}
	return !has
}

func withTag(tags []string, extra ...string) []string {
	return append(append([]string{}, tags...), extra...)
}

// ---------------------------------------------------------------- streams
func streamFQ(c *cli.Ctx, r *emit.Rng) error {
	w := emit.NewWriter(c.Out, "C14", "fqname")
	for i := 0; i < 300*c.Scale; i++ {
		part := func() string {
			switch r.Intn(5) {
			case 0:
				return ""
			case 1:
				return "_"
			case 2:
				return genValue(r, 20)
			default:
				return genName(r, 10)
			}
		}
		ns, sub, name := part(), part(), part()
		got := prometheus.BuildFQName(ns, sub, name)
		ne := 0
		for _, p := range []string{ns, sub, name} {
			if p != "" {
				ne++
			}
		}
		w.Add(emit.Tup("0", emit.S(ns), emit.S(sub), emit.S(name), emit.S(got)), name != "" && ne >= 2, fmt.Sprintf("nonempty-parts:%d", ne), fmt.Sprintf("name-empty:%v", name == ""))
	}
	return w.Flush()
}

var constCaseVariants = []string{"NewConstMetric", "MustNewConstMetric", "NewConstMetricWithCreatedTimestamp", "MustNewConstMetricWithCreatedTimestamp"}

func constCase(r *emit.Rng, bad int) []oneCase {
	d := genDspec(r, bad)
	vt := 1 + r.Intn(3)
	if r.Intn(100) < bad/3 {
		vt = []int{0, 4, -1, 7}[r.Intn(4)]
	}
	v := r.AnyFloat()
	var out []oneCase
	for variant := 0; variant < 4; variant++ {
		desc := d.desc()
		lvs := append([]string{}, d.lvs...)
		var m prometheus.Metric
		var err error
		switch variant {
		case 0:
			m, err = prometheus.NewConstMetric(desc, prometheus.ValueType(vt), v, lvs...)
		case 1:
			m, err = must(func() prometheus.Metric {
				return prometheus.MustNewConstMetric(desc, prometheus.ValueType(vt), v, lvs...)
			})
		case 2:
			m, err = prometheus.NewConstMetricWithCreatedTimestamp(desc, prometheus.ValueType(vt), v, createdTS, lvs...)
		case 3:
			m, err = must(func() prometheus.Metric {
				return prometheus.MustNewConstMetricWithCreatedTimestamp(desc, prometheus.ValueType(vt), v, createdTS, lvs...)
			})
		}
		var impl string
		tags := withTag(d.tags, "variant:"+constCaseVariants[variant])
		nontriv := false
		if err != nil {
			impl = emit.C(0, emit.I(errCode(err)))
			tags = append(tags, errTag(errCode(err)))
			nontriv = len(d.consts)+len(d.vars) >= 1
		} else {
			var pb dto.Metric
			if e := m.Write(&pb); e != nil {
				panic(e)
			}
			var ivt int
			var iv float64
			ct := true
			switch {
			case pb.Counter != nil:
				ivt, iv = 1, pb.Counter.GetValue()
				ct = ctOK(variant, pb.Counter.CreatedTimestamp != nil, pb.Counter.GetCreatedTimestamp().AsTime())
			case pb.Gauge != nil:
				ivt, iv = 2, pb.Gauge.GetValue()
			case pb.Untyped != nil:
				ivt, iv = 3, pb.Untyped.GetValue()
			}
			impl = emit.C(1, lpS(pb.Label), emit.I(ivt), emit.F(iv), emit.B(ct))
			tags = append(tags, "result:ok", fmt.Sprintf("labels:%d", len(pb.Label)))
			nontriv = len(pb.Label) >= 2
		}
		out = append(out, oneCase{emit.Tup("1", emit.I(variant), d.term(), emit.I(vt), emit.F(v), impl), nontriv, tags})
	}
	return out
}

// vectors found blocked after a recovered panic (each costs a watchdog period; three are evidence enough)
var liveHangs int

var kindNames = []string{"counter", "gauge", "counterfunc", "gaugefunc", "untypedfunc", "countervec", "gaugevec", "histogram", "histogramvec", "summary", "summaryvec"}

func liveCase(r *emit.Rng, bad int) []oneCase {
	kind := r.Intn(11)
	isVec := kind == 5 || kind == 6 || kind == 8 || kind == 10
	d := genDspec(r, bad)
	if !isVec {
		d.vars, d.lvs = nil, nil
	}
	ns, sub, name := "", "", d.fq
	switch r.Intn(4) {
	case 0:
		ns = genName(r, 0)
	case 1:
		ns, sub = genName(r, 0), genName(r, bad/4)
	case 2:
		sub = genName(r, 0)
	}
	if r.Chance(1, 3) || (kind >= 7 && r.Chance(1, 3)) { // steer towards the reserved names
		res := "le"
		if kind >= 9 || (kind < 7 && r.Chance(1, 4)) {
			res = "quantile"
		}
		if kind >= 7 && r.Chance(1, 8) { // the other kind's reserved name is an ordinary label here
			res = map[bool]string{true: "le", false: "quantile"}[kind >= 9]
		}
		if isVec && len(d.vars) > 0 && r.Bool() {
			d.vars[r.Intn(len(d.vars))] = res
		} else {
			d.consts[res] = "x"
			d.cOrder = mapOrder(r, d.consts)
		}
	}
	cl := prometheus.Labels(d.consts)
	f := func() float64 { return 1 }
	// cfg: every bucket / objective configuration and (vectors) the V2 constructor with constrained labels,
	// all on the same names, labels and values.  cfg%10: histograms 0 default buckets, 1 explicit, 2 [+Inf] only,
	// 3 native only, 4 native + classic; summaries 0 no objectives, 1 objectives.  cfg >= 10: V2 + ConstrainedLabels.
	var cfgs []int
	nb := 1
	if kind == 7 || kind == 8 {
		nb = 5
	} else if kind == 9 || kind == 10 {
		nb = 2
	}
	for b := 0; b < nb; b++ {
		cfgs = append(cfgs, b)
		if isVec {
			cfgs = append(cfgs, 10+b)
		}
	}
	cfgNames := []string{"default-buckets", "explicit-buckets", "inf-only", "native-only", "native+classic"}
	if kind >= 9 {
		cfgNames = []string{"no-objectives", "objectives"}
	}
	baseTags := d.tags
	var out []oneCase
	for _, cfg := range cfgs {
		hopts := prometheus.HistogramOpts{Namespace: ns, Subsystem: sub, Name: name, Help: d.help, ConstLabels: cl}
		switch cfg % 10 {
		case 1:
			hopts.Buckets = []float64{0.5, 1, 2.5}
		case 2:
			hopts.Buckets = []float64{math.Inf(1)}
		case 3:
			hopts.NativeHistogramBucketFactor = 1.1
		case 4:
			hopts.NativeHistogramBucketFactor = 1.1
			hopts.Buckets = []float64{1, 2}
		}
		sopts := prometheus.SummaryOpts{Namespace: ns, Subsystem: sub, Name: name, Help: d.help, ConstLabels: cl}
		if cfg%10 == 1 {
			sopts.Objectives = map[float64]float64{0.5: 0.05, 0.99: 0.001}
		}
		constrained := func() prometheus.ConstrainedLabels {
			cls := make(prometheus.ConstrainedLabels, len(d.vars))
			for i, n := range d.vars {
				cls[i] = prometheus.ConstrainedLabel{Name: n}
				if i%2 == 0 {
					cls[i].Constraint = func(v string) string { return v } // constrained, value-preserving
				}
			}
			return cls
		}
		var coll prometheus.Collector
		var met prometheus.Metric
		var vec interface {
			prometheus.Collector
			Reset()
		}
		panicked := ""
		func() {
			defer func() {
				if e := recover(); e != nil {
					s := fmt.Sprint(e)
					if strings.Contains(s, "is not allowed as label name in") {
						panicked = "label"
					} else {
						panicked = "other"
					}
				}
			}()
			vars := append([]string{}, d.vars...)
			switch kind {
			case 0:
				x := prometheus.NewCounter(prometheus.CounterOpts{Namespace: ns, Subsystem: sub, Name: name, Help: d.help, ConstLabels: cl})
				coll, met = x, x
			case 1:
				x := prometheus.NewGauge(prometheus.GaugeOpts{Namespace: ns, Subsystem: sub, Name: name, Help: d.help, ConstLabels: cl})
				coll, met = x, x
			case 2:
				x := prometheus.NewCounterFunc(prometheus.CounterOpts{Namespace: ns, Subsystem: sub, Name: name, Help: d.help, ConstLabels: cl}, f)
				coll, met = x, x
			case 3:
				x := prometheus.NewGaugeFunc(prometheus.GaugeOpts{Namespace: ns, Subsystem: sub, Name: name, Help: d.help, ConstLabels: cl}, f)
				coll, met = x, x
			case 4:
				x := prometheus.NewUntypedFunc(prometheus.UntypedOpts{Namespace: ns, Subsystem: sub, Name: name, Help: d.help, ConstLabels: cl}, f)
				coll, met = x, x
			case 5:
				copts := prometheus.CounterOpts{Namespace: ns, Subsystem: sub, Name: name, Help: d.help, ConstLabels: cl}
				var x *prometheus.CounterVec
				if cfg >= 10 {
					x = prometheus.V2.NewCounterVec(prometheus.CounterVecOpts{CounterOpts: copts, VariableLabels: constrained()})
				} else {
					x = prometheus.NewCounterVec(copts, vars)
				}
				vec = x
				coll, met = x, x.WithLabelValues(d.lvs...)
			case 6:
				gopts := prometheus.GaugeOpts{Namespace: ns, Subsystem: sub, Name: name, Help: d.help, ConstLabels: cl}
				var x *prometheus.GaugeVec
				if cfg >= 10 {
					x = prometheus.V2.NewGaugeVec(prometheus.GaugeVecOpts{GaugeOpts: gopts, VariableLabels: constrained()})
				} else {
					x = prometheus.NewGaugeVec(gopts, vars)
				}
				vec = x
				coll, met = x, x.WithLabelValues(d.lvs...)
			case 7:
				x := prometheus.NewHistogram(hopts)
				coll, met = x, x
			case 8:
				var x *prometheus.HistogramVec
				if cfg >= 10 {
					x = prometheus.V2.NewHistogramVec(prometheus.HistogramVecOpts{HistogramOpts: hopts, VariableLabels: constrained()})
				} else {
					x = prometheus.NewHistogramVec(hopts, vars)
				}
				vec = x
				coll, met = x, x.WithLabelValues(d.lvs...).(prometheus.Metric)
			case 9:
				x := prometheus.NewSummary(sopts)
				coll, met = x, x
			case 10:
				var x *prometheus.SummaryVec
				if cfg >= 10 {
					x = prometheus.V2.NewSummaryVec(prometheus.SummaryVecOpts{SummaryOpts: sopts, VariableLabels: constrained()})
				} else {
					x = prometheus.NewSummaryVec(sopts, vars)
				}
				vec = x
				coll, met = x, x.WithLabelValues(d.lvs...).(prometheus.Metric)
			}
		}()
		tags := withTag(baseTags, "kind:"+kindNames[kind])
		if kind >= 7 {
			tags = append(tags, "cfg:"+kindNames[kind]+"/"+cfgNames[cfg%10])
		}
		if cfg >= 10 {
			tags = append(tags, "ctor:V2-constrained")
		}
		if _, ok := d.consts["le"]; ok && (kind == 7 || kind == 8) {
			tags = append(tags, "le:const/"+cfgNames[cfg%10])
		}
		if _, ok := d.consts["quantile"]; ok && kind >= 9 {
			tags = append(tags, "quantile:const/"+cfgNames[cfg%10])
		}
		for _, vn := range d.vars {
			if vn == "le" && kind == 8 {
				tags = append(tags, "le:variable/"+cfgNames[cfg%10])
			}
			if vn == "quantile" && kind == 10 {
				tags = append(tags, "quantile:variable/"+cfgNames[cfg%10])
			}
		}
		// a rejected child creation must leave the vector usable: collect, create again, reset, under a watchdog
		if panicked != "" && vec != nil && liveHangs < 3 {
			done := make(chan struct{})
			go func() {
				defer close(done)
				ch := make(chan prometheus.Metric, 16)
				go func() {
					for range ch {
					}
				}()
				vec.Collect(ch)
				close(ch)
				func() {
					defer func() { recover() }()
					switch v := vec.(type) {
					case *prometheus.CounterVec:
						v.WithLabelValues(d.lvs...)
					case *prometheus.GaugeVec:
						v.WithLabelValues(d.lvs...)
					case *prometheus.HistogramVec:
						v.WithLabelValues(d.lvs...)
					case *prometheus.SummaryVec:
						v.WithLabelValues(d.lvs...)
					}
				}()
				vec.Reset()
			}()
			select {
			case <-done:
			case <-time.After(2 * time.Second):
				panicked = "hung"
				liveHangs++
			}
		}
		var impl string
		nontriv := false
		switch panicked {
		case "hung":
			impl = emit.C(3) // the vector is unusable after the recovered panic: a violation whatever the inputs
			tags = append(tags, "result:vector-blocked-after-panic")
		case "label":
			impl = emit.C(0)
			tags = append(tags, "result:panic-reserved-label")
			nontriv = true
		case "other":
			impl = emit.C(1)
			tags = append(tags, "result:panic-other")
		default:
			// registration result of the descriptor: the error recorded in the Desc
			ch := make(chan *prometheus.Desc, 4)
			coll.Describe(ch)
			desc := <-ch
			derr := 0
			if e := prometheus.NewRegistry().Register(coll); e != nil {
				derr = errCode(e)
			}
			_ = desc
			labels := "()"
			if derr == 0 {
				var pb dto.Metric
				if e := met.Write(&pb); e != nil {
					panic(e)
				}
				labels = lpS(pb.Label)
				nontriv = len(pb.Label) >= 1
				tags = append(tags, "result:ok")
			} else {
				tags = append(tags, "result:desc-"+errTag(derr)[7:])
			}
			impl = emit.C(2, emit.I(derr), labels)
		}
		out = append(out, oneCase{emit.Tup("2", emit.I(kind), emit.I(cfg), emit.S(ns), emit.S(sub), emit.S(name), emit.S(d.help), emit.SL(d.vars), kvS(d.cOrder), emit.SL(d.lvs), impl), nontriv, tags})
	}
	return out
}

// distinct non-NaN float keys in generation order
func genBounds(r *emit.Rng, n int) []float64 {
	seen := map[float64]bool{}
	var out []float64
	for i := 0; i < n; i++ {
		var f float64
		switch r.Intn(4) {
		case 0:
			f = r.AnyFloat()
		case 1:
			f = float64(r.Intn(21) - 10)
		case 2:
			f = []float64{0.005, 0.01, 0.025, 0.05, 0.1, 0.25, 0.5, 1, 2.5, 5, 10, math.Inf(1), math.Inf(-1), math.Copysign(0, -1), 0}[r.Intn(15)]
		default:
			f = float64(r.Intn(2000)-1000) / 16
		}
		if f != f || seen[f] {
			continue
		}
		seen[f] = true
		out = append(out, f)
	}
	return out
}

func anyU64(r *emit.Rng) uint64 {
	switch r.Intn(5) {
	case 0:
		return r.U64()
	case 1:
		return []uint64{0, 1, math.MaxUint64, 1 << 63, 1<<63 - 1, 1 << 53}[r.Intn(6)]
	default:
		return uint64(r.Intn(1000))
	}
}

func classicCase(r *emit.Rng, bad int) []oneCase {
	d := genDspec(r, bad)
	count, sum := anyU64(r), r.AnyFloat()
	n := r.Intn(10)
	if r.Chance(1, 10) {
		n = 12 + r.Intn(30) // beyond the insertion-sort threshold of sort.Sort
	}
	keys := genBounds(r, n)
	isHist := r.Bool()
	vals := make([]uint64, len(keys))
	qvals := make([]float64, len(keys))
	it := make([]string, len(keys))
	for i, k := range keys {
		if isHist {
			vals[i] = anyU64(r)
			it[i] = emit.Pair(emit.F(k), emit.U(vals[i]))
		} else {
			qvals[i] = r.AnyFloat()
			it[i] = emit.Pair(emit.F(k), emit.F(qvals[i]))
		}
	}
	var out []oneCase
	for variant := 0; variant < 4; variant++ {
		desc := d.desc()
		lvs := append([]string{}, d.lvs...)
		var m prometheus.Metric
		var err error
		tag, kind := "3", "hist"
		names := []string{"NewConstHistogram", "MustNewConstHistogram", "NewConstHistogramWithCreatedTimestamp", "MustNewConstHistogramWithCreatedTimestamp"}
		if isHist {
			bm := map[float64]uint64{}
			for i, k := range keys {
				bm[k] = vals[i]
			}
			switch variant {
			case 0:
				m, err = prometheus.NewConstHistogram(desc, count, sum, bm, lvs...)
			case 1:
				m, err = must(func() prometheus.Metric { return prometheus.MustNewConstHistogram(desc, count, sum, bm, lvs...) })
			case 2:
				m, err = prometheus.NewConstHistogramWithCreatedTimestamp(desc, count, sum, bm, createdTS, lvs...)
			case 3:
				m, err = must(func() prometheus.Metric {
					return prometheus.MustNewConstHistogramWithCreatedTimestamp(desc, count, sum, bm, createdTS, lvs...)
				})
			}
		} else {
			tag, kind = "4", "summary"
			names = []string{"NewConstSummary", "MustNewConstSummary", "NewConstSummaryWithCreatedTimestamp", "MustNewConstSummaryWithCreatedTimestamp"}
			qm := map[float64]float64{}
			for i, k := range keys {
				qm[k] = qvals[i]
			}
			switch variant {
			case 0:
				m, err = prometheus.NewConstSummary(desc, count, sum, qm, lvs...)
			case 1:
				m, err = must(func() prometheus.Metric { return prometheus.MustNewConstSummary(desc, count, sum, qm, lvs...) })
			case 2:
				m, err = prometheus.NewConstSummaryWithCreatedTimestamp(desc, count, sum, qm, createdTS, lvs...)
			case 3:
				m, err = must(func() prometheus.Metric {
					return prometheus.MustNewConstSummaryWithCreatedTimestamp(desc, count, sum, qm, createdTS, lvs...)
				})
			}
		}
		tags := withTag(d.tags, kind, "variant:"+names[variant])
		var impl string
		if err != nil {
			impl = emit.C(0, emit.I(errCode(err)))
			tags = append(tags, errTag(errCode(err)))
		} else {
			var pb dto.Metric
			if e := m.Write(&pb); e != nil {
				panic(e)
			}
			if isHist {
				h := pb.Histogram
				ob := make([]string, len(h.Bucket))
				for i, b := range h.Bucket {
					ob[i] = emit.Pair(emit.F(b.GetUpperBound()), emit.U(b.GetCumulativeCount()))
				}
				ct := ctOK(variant, h.CreatedTimestamp != nil, h.GetCreatedTimestamp().AsTime())
				impl = emit.C(1, lpS(pb.Label), emit.U(h.GetSampleCount()), emit.F(h.GetSampleSum()), emit.L(ob), emit.B(ct))
				tags = append(tags, "result:ok", fmt.Sprintf("buckets:%d", len(keys)/4*4))
			} else {
				su := pb.Summary
				oq := make([]string, len(su.Quantile))
				for i, q := range su.Quantile {
					oq[i] = emit.Pair(emit.F(q.GetQuantile()), emit.F(q.GetValue()))
				}
				ct := ctOK(variant, su.CreatedTimestamp != nil, su.GetCreatedTimestamp().AsTime())
				impl = emit.C(1, lpS(pb.Label), emit.U(su.GetSampleCount()), emit.F(su.GetSampleSum()), emit.L(oq), emit.B(ct))
				tags = append(tags, "result:ok", fmt.Sprintf("quantiles:%d", len(keys)/4*4))
			}
		}
		out = append(out, oneCase{emit.Tup(tag, emit.I(variant), d.term(), emit.U(count), emit.F(sum), emit.L(it), impl), err == nil && len(keys) >= 2, tags})
	}
	return out
}

// ---------------------------------------------------------------- native
type ikv struct {
	k int
	v int64
}

func genSparse(r *emit.Rng, bad int) ([]ikv, []string) {
	n := r.Intn(9)
	if r.Chance(1, 4) {
		n = 0
	}
	var out []ikv
	var tags []string
	k := r.Intn(21) - 10
	switch r.Intn(12) {
	case 0:
		k = math.MaxInt32
		tags = append(tags, "first:maxint32")
	case 1:
		k = math.MinInt32
		tags = append(tags, "first:minint32")
	case 2:
		k = r.Intn(2000) - 1000
	case 3:
		k = -1 + r.Intn(3)
	}
	if r.Intn(100) < bad/2 {
		switch r.Intn(5) {
		case 0:
			k = math.MaxInt32 + 1
		case 1:
			k = math.MinInt32 - 1
		case 2:
			k = 1<<32 + 5
		case 3:
			k = -(1 << 32) + r.Intn(10)
		case 4:
			k = 1<<33 + r.Intn(10)
		}
		tags = append(tags, "first:out-of-int32")
	}
	for i := 0; i < n; i++ {
		var v int64
		switch r.Intn(8) {
		case 0:
			v = 0
		case 1:
			v = -int64(1 + r.Intn(5))
			tags = append(tags, "negative-population")
		case 2:
			v = int64(1)<<40 + int64(r.Intn(100))
		default:
			v = int64(1 + r.Intn(50))
		}
		out = append(out, ikv{k, v})
		gap := 0
		switch r.Intn(10) {
		case 0, 1, 2, 3:
			gap = 0
		case 4:
			gap = 1
		case 5:
			gap = 2
		case 6:
			gap = 3
		case 7:
			gap = 4 + r.Intn(100)
		case 8:
			gap = math.MaxInt32 - r.Intn(2)
			tags = append(tags, "gap:maxint32")
		case 9:
			gap = 1 + r.Intn(5)
		}
		if r.Intn(100) < bad/3 {
			gap = math.MaxInt32 + 1 + r.Intn(3)*(1<<32)
			tags = append(tags, "gap:too-wide")
		}
		if gap <= 2 && gap > 0 {
			tags = append(tags, "gap:small-filled")
		} else if gap == 3 {
			tags = append(tags, "gap:3-new-span")
		}
		k = k + 1 + gap
	}
	// shuffle so that the map's construction order is not the key order
	for i := len(out) - 1; i > 0; i-- {
		j := r.Intn(i + 1)
		out[i], out[j] = out[j], out[i]
	}
	return out, tags
}

func ikvS(l []ikv) string {
	it := make([]string, len(l))
	for i, p := range l {
		it[i] = emit.Pair(emit.I(p.k), emit.Z(p.v))
	}
	return emit.L(it)
}

func spansS(sp []*dto.BucketSpan) string {
	it := make([]string, len(sp))
	for i, s := range sp {
		it[i] = emit.Pair(emit.Z(int64(s.GetOffset())), emit.U(uint64(s.GetLength())))
	}
	return emit.L(it)
}

func nativeTerm(variant int, d *dspec, count uint64, sum float64, pos, neg []ikv, zero uint64, schema int32, zt float64) (string, bool, int) {
	pm, nm := map[int]int64{}, map[int]int64{}
	for _, p := range pos {
		pm[p.k] = p.v
	}
	for _, p := range neg {
		nm[p.k] = p.v
	}
	var m prometheus.Metric
	var err error
	lvs := append([]string{}, d.lvs...)
	if variant == 0 {
		m, err = prometheus.NewConstNativeHistogram(d.desc(), count, sum, pm, nm, zero, schema, zt, time.Unix(1700000000, 0), lvs...)
	} else {
		m, err = must(func() prometheus.Metric {
			return prometheus.MustNewConstNativeHistogram(d.desc(), count, sum, pm, nm, zero, schema, zt, time.Unix(1700000000, 0), lvs...)
		})
	}
	var impl string
	code := -1
	if err != nil {
		code = errCode(err)
		impl = emit.C(0, emit.I(code))
	} else {
		var pb dto.Metric
		if e := m.Write(&pb); e != nil {
			panic(e)
		}
		h := pb.Histogram
		impl = emit.C(1, lpS(pb.Label), emit.U(h.GetSampleCount()), emit.F(h.GetSampleSum()), emit.U(h.GetZeroCount()), emit.Z(int64(h.GetSchema())),
			emit.F(h.GetZeroThreshold()), spansS(h.PositiveSpan), emit.ZL(h.PositiveDelta), spansS(h.NegativeSpan), emit.ZL(h.NegativeDelta))
	}
	t := emit.Tup("5", emit.I(variant), d.term(), emit.U(count), emit.F(sum), ikvS(pos), ikvS(neg), emit.U(zero), emit.Z(int64(schema)), emit.F(zt), impl)
	return t, err == nil, code
}

func nativeCase(r *emit.Rng, bad int) []oneCase {
	d := genDspec(r, bad/3)
	pos, t1 := genSparse(r, bad)
	neg, t2 := genSparse(r, bad)
	if r.Chance(1, 3) {
		neg, t2 = nil, nil
	}
	zero := uint64(r.Intn(6))
	if r.Chance(1, 2) {
		zero = 0
	}
	tags := append(append(d.tags, t1...), t2...)
	// populations and counts near and above 2^53, 2^60, 2^63: exact integer comparison matters there
	bigMode := r.Chance(1, 4)
	if bigMode {
		bigs := []int64{1<<53 - 1, 1 << 53, 1<<53 + 1, 1<<53 + 2, 1 << 54, 1 << 60, 1<<60 + 100, 1 << 62, 1<<62 + 1, math.MaxInt64 - int64(r.Intn(2000))}
		b := bigs[r.Intn(len(bigs))]
		if len(pos) == 0 {
			pos = []ikv{{r.Intn(5), b}}
		} else {
			pos[r.Intn(len(pos))].v = b
		}
		tags = append(tags, fmt.Sprintf("big-population:2^%d", bits.Len64(uint64(b))-1))
		if r.Chance(1, 3) { // a second large one, possibly pushing the total to 2^63 and above
			b2 := bigs[r.Intn(len(bigs))]
			if len(neg) == 0 {
				neg = []ikv{{r.Intn(5), b2}}
			} else {
				neg[r.Intn(len(neg))].v = b2
			}
		}
		if r.Chance(1, 5) {
			zero = uint64(bigs[r.Intn(5)])
		}
	}
	totalB := new(big.Int).SetUint64(zero)
	for _, p := range pos {
		totalB.Add(totalB, big.NewInt(p.v))
	}
	for _, p := range neg {
		totalB.Add(totalB, big.NewInt(p.v))
	}
	sum := r.AnyFloat()
	if r.Chance(1, 6) {
		sum = math.NaN()
	}
	var count uint64
	lim := new(big.Int).SetUint64(math.MaxUint64 - 4000)
	if totalB.Sign() >= 0 && totalB.Cmp(lim) < 0 {
		count = totalB.Uint64()
		if count >= 1<<63-4000 {
			// int64(count) is negative here: the NaN-sum comparison of the real code is the second half of the
			// known finding count-wrap; only the exact-equality rule is exercised in this range
			if sum != sum {
				sum = 1.5
			}
			tags = append(tags, "total>=2^63")
		}
		if sum != sum && r.Bool() {
			count += uint64(r.Intn(5))
			tags = append(tags, "nan-sum-count-above")
		}
		offPct := 8 + bad/2
		if bigMode {
			offPct = 50
		}
		if r.Intn(100) < offPct {
			dd := uint64(1)
			if bigMode || r.Chance(1, 4) {
				dd = []uint64{1, 1, 2, 3, 7, 100, 1000}[r.Intn(7)]
			}
			if count >= dd && r.Bool() {
				count -= dd
			} else {
				count += dd
			}
			tags = append(tags, "count-off-by-1..1000")
			if bigMode {
				tags = append(tags, "count-off-near-big")
			}
		}
	} else if totalB.Sign() >= 0 {
		// no uint64 count is consistent; stay clear of count == total mod 2^64 and of the signed NaN-sum
		// comparison (both are the known finding count-wrap)
		count = uint64(r.Intn(10))
		if new(big.Int).And(totalB, new(big.Int).SetUint64(math.MaxUint64)).Uint64() == count {
			count++
		}
		if sum != sum {
			sum = 1.5
		}
		tags = append(tags, "total>=2^64")
	} else {
		// a negative total can match no count (count = 2^64+total is the wrap-around finding, kept out of this stream)
		count = uint64(r.Intn(10))
		tags = append(tags, "negative-total")
	}
	schema := int32(r.Intn(13) - 4)
	if r.Intn(100) < 5+bad/2 {
		schema = []int32{-5, 9, -6, 10, 100, math.MinInt32, math.MaxInt32}[r.Intn(7)]
	}
	zt := []float64{0, math.Copysign(0, -1), 1e-128, 0.001, 1, math.NaN()}[r.Intn(6)]
	var out []oneCase
	for variant := 0; variant < 2; variant++ {
		term, ok, code := nativeTerm(variant, d, count, sum, pos, neg, zero, schema, zt)
		vt := withTag(tags, "variant:"+[]string{"NewConstNativeHistogram", "MustNewConstNativeHistogram"}[variant])
		if ok {
			vt = append(vt, "result:ok", fmt.Sprintf("pos:%d", len(pos)), fmt.Sprintf("neg:%d", len(neg)))
		} else {
			vt = append(vt, errTag(code))
		}
		out = append(out, oneCase{term, ok && len(pos)+len(neg) >= 2, vt})
	}
	return out
}

// ---------------------------------------------------------------- timestamps
func streamTS(c *cli.Ctx, r *emit.Rng) error {
	w := emit.NewWriter(c.Out, "C14", "timestamp")
	d := prometheus.NewDesc("t", "h", nil, prometheus.Labels{"a": "b"})
	for i := 0; i < 300*c.Scale; i++ {
		var sec int64
		switch r.Intn(6) {
		case 0:
			sec = 0
		case 1:
			sec = -int64(r.Intn(3))
		case 2:
			sec = int64(r.Intn(2_000_000_000))
		case 3:
			sec = -int64(r.Intn(2_000_000_000))
		case 4:
			sec = int64(r.U64()%8_000_000_000_000_000) - 4_000_000_000_000_000
		default:
			sec = int64(r.Intn(5)) - 2
		}
		var ns int64
		switch r.Intn(6) {
		case 0:
			ns = int64(r.Intn(1000)) * 1_000_000
		case 1:
			ns = int64(r.Intn(1000))*1_000_000 + 999_999
		case 2:
			ns = int64(r.Intn(1000))*1_000_000 + 1
		case 3:
			ns = -int64(r.Intn(2_000_000_000))
		case 4:
			ns = int64(r.Intn(1_000_000_000))
		default:
			ns = int64(r.Intn(3)) - 1
		}
		t := time.Unix(sec, ns)
		if r.Chance(1, 6) {
			t = specialTime(r)
		}
		var inner prometheus.Metric
		if r.Bool() {
			inner = prometheus.MustNewConstMetric(d, prometheus.GaugeValue, r.AnyFloat())
		} else {
			inner = prometheus.MustNewConstHistogram(d, 3, 1.5, map[float64]uint64{1: 1, 2: 3})
		}
		var before0, pb, after dto.Metric
		inner.Write(&before0)
		before := proto.Clone(&before0).(*dto.Metric)
		wm := prometheus.NewMetricWithTimestamp(t, inner)
		if e := wm.Write(&pb); e != nil {
			panic(e)
		}
		inner.Write(&after)
		ms := pb.GetTimestampMs()
		has := pb.TimestampMs != nil
		pb.TimestampMs = nil
		same := has && proto.Equal(&pb, before) && proto.Equal(&after, before) && proto.Equal(&before0, before) && before.TimestampMs == nil
		tags := []string{fmt.Sprintf("before-epoch:%v", t.Unix() < 0), fmt.Sprintf("sub-ms:%v", t.Nanosecond()%1_000_000 != 0)}
		if t.IsZero() {
			tags = append(tags, "zero-time")
		}
		w.Add(emit.Tup("6", emit.Z(t.Unix()), emit.I(t.Nanosecond()), emit.Z(ms), emit.B(same)), t.Nanosecond()%1_000_000 != 0, tags...)
	}
	return w.Flush()
}

// ---------------------------------------------------------------- model.LegacyValidation
var legacyNames = []string{"a", "abc", "x_1", "_x", "A9", "le", "my.label", "a-b", "größe", "a:b", "0abc", "a b", "", "__x", "x__y",
	"日本", "a\xff", "Z", "job", "a.b.c", "name:", "é", "_", "a1_b2", "1", "x-", "\U0001F600"}
var legacyMetricNames = []string{"m", "m_total", "ns:sub:m", ":m", "my.metric", "1m", "größe_total", "m-1", "m 1", "M9", "_m", "", "m.", "a:b:c", "é"}

// (10 0 dspec impl) and (10 1 exs code): the label / metric name decisions after the process has switched
// prometheus/common to model.LegacyValidation; the scheme is restored before any other stream runs
func streamLegacy(c *cli.Ctx, r *emit.Rng) error {
	old := model.NameValidationScheme
	model.NameValidationScheme = model.LegacyValidation
	defer func() { model.NameValidationScheme = old }()
	w := emit.NewWriter(c.Out, "C14", "legacy-names")
	pick := func(pool []string) string { return pool[r.Intn(len(pool))] }
	for i := 0; i < 300*c.Scale; i++ {
		d := &dspec{consts: map[string]string{}}
		d.fq = pick(legacyMetricNames)
		if r.Chance(1, 2) {
			d.fq = "m_total"
		}
		d.help = "h"
		for k := r.Intn(3); k > 0; k-- {
			d.consts[pick(legacyNames)] = genValue(r, 3)
		}
		for k := r.Intn(3); k > 0; k-- {
			n := pick(legacyNames)
			if _, dup := d.consts[n]; dup && !r.Chance(1, 6) {
				continue
			}
			d.vars = append(d.vars, n)
		}
		d.cOrder = mapOrder(r, d.consts)
		for range d.vars {
			d.lvs = append(d.lvs, genValue(r, 0))
		}
		m, err := prometheus.NewConstMetric(d.desc(), prometheus.GaugeValue, 0, d.lvs...)
		var impl string
		tags := []string{}
		if err != nil {
			impl = emit.C(0, emit.I(errCode(err)))
			tags = append(tags, "desc:"+errTag(errCode(err)))
		} else {
			var pb dto.Metric
			m.Write(&pb)
			impl = emit.C(1, lpS(pb.Label))
			tags = append(tags, "desc:result:ok")
		}
		utf8Only := false
		for _, n := range append(append([]string{}, d.vars...), keysOf(d.consts)...) {
			if n == "my.label" || n == "a-b" || n == "größe" || n == "a.b.c" || n == "é" || n == "日本" || n == "x-" {
				utf8Only = true
			}
		}
		if utf8Only {
			tags = append(tags, "label-name:utf8-valid-but-not-legacy")
		}
		w.Add(emit.Tup("10", "0", d.term(), impl), len(d.vars)+len(d.consts) >= 1, tags...)
	}
	dc := prometheus.NewDesc("c_total", "h", nil, nil)
	for i := 0; i < 200*c.Scale; i++ {
		n := 1 + r.Intn(3)
		var exs []exIn
		for k := 0; k < n; k++ {
			e := exIn{v: float64(k), labels: map[string]string{}}
			for q := r.Intn(3); q > 0; q-- {
				e.labels[pick(legacyNames)] = goodValues[r.Intn(len(goodValues))]
			}
			ks := keysOf(e.labels)
			sort.Strings(ks)
			for _, kk := range ks {
				e.order = append(e.order, kv{kk, e.labels[kk]})
			}
			exs = append(exs, e)
		}
		_, err := prometheus.NewMetricWithExemplars(prometheus.MustNewConstMetric(dc, prometheus.CounterValue, 1), toExemplars(exs, r)...)
		code := 0
		if err != nil {
			code = errCode(err)
		}
		w.Add(emit.Tup("10", "1", exInS(exs), emit.I(code)), true, fmt.Sprintf("exemplar:code%d", code))
	}
	return w.Flush()
}

func keysOf(m map[string]string) []string {
	ks := make([]string, 0, len(m))
	for k := range m {
		ks = append(ks, k)
	}
	sort.Strings(ks)
	return ks
}

// ---------------------------------------------------------------- stacks of wrappers
// a user-supplied Metric whose Write sets a timestamp of its own (mode 1) or resets the whole message and
// fills every field itself, timestamp included (mode 2)
type tsInner struct {
	desc *prometheus.Desc
	mode int
	ts   int64
}

func (m tsInner) Desc() *prometheus.Desc { return m.desc }
func (m tsInner) Write(pb *dto.Metric) error {
	if m.mode == 2 {
		pb.Reset()
	}
	pb.Label = []*dto.LabelPair{{Name: proto.String("a"), Value: proto.String("b")}}
	pb.Counter = &dto.Counter{Value: proto.Float64(7)}
	pb.TimestampMs = proto.Int64(m.ts)
	return nil
}

// the zero time.Time and its neighbours, the epoch and its neighbours, other extreme instants
func specialTime(r *emit.Rng) time.Time {
	z := time.Time{}
	switch r.Intn(12) {
	case 0:
		return z
	case 1:
		return time.Unix(-62135596800, 0)
	case 2:
		return time.Date(1, 1, 1, 0, 0, 0, 0, time.UTC)
	case 3:
		return z.Add(time.Nanosecond)
	case 4:
		return z.Add(-time.Nanosecond)
	case 5:
		return z.Add(time.Millisecond)
	case 6:
		return z.Add(-time.Millisecond)
	case 7:
		return time.Unix(0, []int64{0, 1, -1, 1_000_000, -1_000_000, 999_999, -999_999}[r.Intn(7)])
	case 8:
		return time.Unix(4_000_000_000_000_000, 999_999_999)
	case 9:
		return time.Unix(-4_000_000_000_000_000, 1)
	case 10:
		return time.Date(9999, 12, 31, 23, 59, 59, 999_999_999, time.UTC)
	default:
		return time.Date(1, 1, 1, 0, 0, 0, r.Intn(2_000_000), time.FixedZone("x", 3600*(r.Intn(25)-12)))
	}
}

func genTime(r *emit.Rng) time.Time {
	if r.Chance(1, 6) {
		return specialTime(r)
	}
	var sec int64
	switch r.Intn(5) {
	case 0:
		sec = int64(r.Intn(5)) - 2
	case 1:
		sec = int64(r.Intn(2_000_000_000))
	case 2:
		sec = -int64(r.Intn(2_000_000_000))
	case 3:
		sec = int64(r.U64()%8_000_000_000_000_000) - 4_000_000_000_000_000
	default:
		sec = 1_700_000_000 + int64(r.Intn(1000))
	}
	var ns int64
	switch r.Intn(4) {
	case 0:
		ns = int64(r.Intn(1000))*1_000_000 + 999_999
	case 1:
		ns = int64(r.Intn(1000)) * 1_000_000
	case 2:
		ns = -int64(r.Intn(2_000_000_000))
	default:
		ns = int64(r.Intn(1_000_000_000))
	}
	return time.Unix(sec, ns)
}

// (9 inner-timestamp layers impl-timestamp same): layers = the timestamp wrappers' (Unix, Nanosecond), innermost
// first; exemplar wrappers may sit anywhere in the stack; same = everything but the timestamp equals what the
// stack without its timestamp wrappers writes, and the innermost metric is unchanged afterwards
func streamNested(c *cli.Ctx, r *emit.Rng) error {
	w := emit.NewWriter(c.Out, "C14", "timestamp-nested")
	d := prometheus.NewDesc("t_total", "h", nil, prometheus.Labels{"a": "b"})
	dh := prometheus.NewDesc("t_hist", "h", nil, prometheus.Labels{"a": "b"})
	for i := 0; i < 400*c.Scale; i++ {
		var base prometheus.Metric
		innerTS := emit.None()
		var tags []string
		canEx := true
		switch r.Intn(6) {
		case 0:
			base = prometheus.MustNewConstMetric(d, prometheus.CounterValue, r.AnyFloat())
			tags = append(tags, "inner:const-counter")
		case 1:
			base = prometheus.MustNewConstHistogram(dh, 3, 1.5, map[float64]uint64{1: 1, 2: 3})
			tags = append(tags, "inner:const-histogram")
		case 2:
			base = prometheus.MustNewConstMetric(d, prometheus.GaugeValue, r.AnyFloat())
			canEx = false
			tags = append(tags, "inner:const-gauge")
		case 3:
			g := prometheus.NewCounter(prometheus.CounterOpts{Name: "live_total", Help: "h"})
			g.Add(float64(r.Intn(10)))
			base = g
			tags = append(tags, "inner:live-counter")
			canEx = false // live counters carry a wall-clock created timestamp: keep the comparison simple
		default:
			ts := int64(r.Intn(2_000_000)) - 1_000_000
			mode := 1 + r.Intn(2)
			base = tsInner{desc: d, mode: mode, ts: ts}
			innerTS = emit.Some(emit.Z(ts))
			tags = append(tags, fmt.Sprintf("inner:custom-sets-timestamp-mode%d", mode))
		}
		depth := r.Intn(4) // number of timestamp wrappers: 0..3
		if r.Chance(1, 2) && depth < 2 {
			depth = 2 + r.Intn(2)
		}
		nEx := 0
		if canEx {
			nEx = r.Intn(3)
		}
		// layer order: 't' timestamp wrapper, 'e' exemplar wrapper, innermost first
		order := make([]byte, 0, depth+nEx)
		for k := 0; k < depth; k++ {
			order = append(order, 't')
		}
		for k := 0; k < nEx; k++ {
			order = append(order, 'e')
		}
		for k := len(order) - 1; k > 0; k-- {
			j := r.Intn(k + 1)
			order[k], order[j] = order[j], order[k]
		}
		with, without := base, base
		var layers []string
		var last time.Time
		exN := 0
		for _, o := range order {
			if o == 't' {
				t := genTime(r)
				with = prometheus.NewMetricWithTimestamp(t, with)
				layers = append(layers, emit.Pair(emit.Z(t.Unix()), emit.I(t.Nanosecond())))
				last = t
				if t.IsZero() {
					tags = append(tags, "zero-time-layer")
				}
			} else {
				exN++
				ex := prometheus.Exemplar{Value: float64(exN), Labels: prometheus.Labels{"trace": fmt.Sprint(exN)}, Timestamp: time.Unix(1_700_000_000+int64(exN), 0)}
				with = prometheus.MustNewMetricWithExemplars(with, ex)
				without = prometheus.MustNewMetricWithExemplars(without, ex)
			}
		}
		_ = last
		var before0, got, want, after dto.Metric
		base.Write(&before0)
		before := proto.Clone(&before0).(*dto.Metric)
		if e := with.Write(&got); e != nil {
			panic(e)
		}
		if e := without.Write(&want); e != nil {
			panic(e)
		}
		base.Write(&after)
		ms := emit.None()
		if got.TimestampMs != nil {
			ms = emit.Some(emit.Z(got.GetTimestampMs()))
		}
		got.TimestampMs, want.TimestampMs = nil, nil
		same := proto.Equal(&got, &want) && proto.Equal(before, &after)
		tags = append(tags, fmt.Sprintf("timestamp-wrappers:%d", depth), fmt.Sprintf("exemplar-wrappers:%d", nEx))
		if depth > 0 && nEx > 0 {
			if order[len(order)-1] == 'e' {
				tags = append(tags, "outermost:exemplars")
			} else {
				tags = append(tags, "outermost:timestamp")
			}
		}
		w.Add(emit.Tup("9", innerTS, emit.L(layers), ms, emit.B(same)), depth >= 2 || (depth >= 1 && (nEx > 0 || innerTS != emit.None())), tags...)
	}
	return w.Flush()
}

// ---------------------------------------------------------------- exemplars
type exIn struct {
	v      float64
	labels map[string]string
	order  []kv // sorted by name (the model reports the first fault in this order)
}

func runeString(r *emit.Rng, n int) string {
	var sb strings.Builder
	pool := []rune{'a', 'z', 0xe9, 0x65e5, 0x1F600, '0', '_', 0xFFFD, 0xFFFD, 0x800, 0xFFFF, 0x10000, 0x10FFFF}
	for i := 0; i < n; i++ {
		sb.WriteRune(pool[r.Intn(len(pool))])
	}
	return sb.String()
}

func genExemplar(r *emit.Rng, bad int, v float64) (exIn, []string) {
	e := exIn{v: v, labels: map[string]string{}}
	var tags []string
	switch r.Intn(5) {
	case 0: // total runes exactly around the limit: 127, 128, 129
		total := 127 + r.Intn(3)
		nl := 1 + r.Intn(3)
		left := total
		for i := 0; i < nl; i++ {
			name := string(rune('a'+i)) + runeString(r, r.Intn(3))
			nr := len([]rune(name))
			var vr int
			if i == nl-1 {
				vr = left - nr
			} else {
				vr = r.Intn(left/2 + 1)
				if vr > left-nr-2*(nl-1-i) {
					vr = 0
				}
			}
			if vr < 0 {
				vr = 0
			}
			e.labels[name] = runeString(r, vr)
			left -= nr + vr
		}
		tot := 0
		for k, v := range e.labels {
			tot += len([]rune(k)) + len([]rune(v))
		}
		tags = append(tags, fmt.Sprintf("runes:%d", tot))
		nb := 0
		for k, v := range e.labels {
			nb += len(k) + len(v)
			if strings.ContainsRune(k, 0xFFFD) || strings.ContainsRune(v, 0xFFFD) {
				tags = append(tags, "contains-U+FFFD")
			}
		}
		if tot == 128 && nb > 128 {
			tags = append(tags, "128-runes-in-more-than-128-bytes")
		}
	case 1:
		// empty label set
		tags = append(tags, "runes:0")
	default:
		n := 1 + r.Intn(3)
		for i := 0; i < n; i++ {
			e.labels[genName(r, bad/3)] = genValue(r, bad/3)
		}
		if r.Chance(1, 6) {
			e.labels["trace_id"] = runeString(r, 100+r.Intn(40))
		}
	}
	ks := make([]string, 0, len(e.labels))
	for k := range e.labels {
		ks = append(ks, k)
	}
	sort.Strings(ks)
	for _, k := range ks {
		e.order = append(e.order, kv{k, e.labels[k]})
	}
	return e, tags
}

func exInS(l []exIn) string {
	it := make([]string, len(l))
	for i, e := range l {
		it[i] = emit.Pair(emit.F(e.v), kvS(e.order))
	}
	return emit.L(it)
}

func toExemplars(l []exIn, r *emit.Rng) []prometheus.Exemplar {
	out := make([]prometheus.Exemplar, len(l))
	for i, e := range l {
		out[i] = prometheus.Exemplar{Value: e.v, Labels: prometheus.Labels(e.labels)}
		if r.Bool() {
			out[i].Timestamp = time.Unix(1700000000+int64(i), 5)
		}
	}
	return out
}

func dtoExS(e *dto.Exemplar) string {
	return emit.Pair(emit.F(e.GetValue()), lpSorted(e.Label))
}

func exCounterCase(r *emit.Rng, bad int) []oneCase {
	d := prometheus.NewDesc("c_total", "h", []string{"l"}, prometheus.Labels{"a": "b"})
	vt := 1
	if r.Intn(100) < 10+bad/3 {
		vt = 2 + r.Intn(2)
	}
	v := r.AnyFloat()
	n := 1 + r.Intn(4)
	if r.Intn(100) < bad/4 {
		n = 0
	}
	var exs []exIn
	var tags []string
	for i := 0; i < n; i++ {
		e, t := genExemplar(r, bad, r.AnyFloat())
		exs = append(exs, e)
		tags = append(tags, t...)
	}
	pexs := toExemplars(exs, r)
	baseTags := tags
	var out []oneCase
	for variant := 0; variant < 2; variant++ {
		tags := withTag(baseTags, "variant:"+[]string{"NewMetricWithExemplars", "MustNewMetricWithExemplars"}[variant])
		inner := prometheus.MustNewConstMetric(d, prometheus.ValueType(vt), v, "x")
		var before0, pb, after dto.Metric
		inner.Write(&before0)
		before := proto.Clone(&before0).(*dto.Metric) // const metrics hand out the same pointers on every Write
		var wm prometheus.Metric
		var err error
		if variant == 0 {
			wm, err = prometheus.NewMetricWithExemplars(inner, pexs...)
		} else {
			wm, err = must(func() prometheus.Metric { return prometheus.MustNewMetricWithExemplars(inner, pexs...) })
		}
		if err == nil {
			err = wm.Write(&pb)
		}
		inner.Write(&after)
		unchanged := proto.Equal(before, &after) && proto.Equal(before, &before0)
		var impl string
		if err != nil {
			impl = emit.C(0, emit.I(errCode(err)))
			tags = append(tags, errTag(errCode(err)))
			if !unchanged {
				impl = emit.C(1, emit.F(0), emit.Pair(emit.F(0), "()"), emit.B(false)) // an error that altered the wrapped metric: spec violation
			}
		} else {
			impl = emit.C(1, emit.F(pb.Counter.GetValue()), dtoExS(pb.Counter.Exemplar), emit.B(unchanged && lpS(pb.Label) == lpS(before.Label)))
			tags = append(tags, "result:ok", fmt.Sprintf("exemplars:%d", n))
		}
		out = append(out, oneCase{emit.Tup("7", emit.I(variant), emit.I(vt), emit.F(v), exInS(exs), impl), err == nil && n >= 1, tags})
	}
	return out
}

func exHistCase(r *emit.Rng, bad int) []oneCase {
	d := prometheus.NewDesc("h", "h", nil, nil)
	native := r.Chance(1, 5)
	count := uint64(r.Intn(1000))
	var keys []float64
	bm := map[float64]uint64{}
	var tags []string
	mkInner := func() prometheus.Metric {
		if native {
			return prometheus.MustNewConstNativeHistogram(d, 3, 2.5, map[int]int64{0: 1, 2: 2}, nil, 0, 2, 0.001, time.Unix(1700000000, 0))
		}
		return prometheus.MustNewConstHistogram(d, count, 1.5, bm)
	}
	if native {
		count = 3
		tags = append(tags, "wrapped:native")
	} else {
		keys = genBounds(r, r.Intn(9))
		for _, k := range keys {
			bm[k] = uint64(r.Intn(1000))
		}
		tags = append(tags, "wrapped:classic", fmt.Sprintf("buckets:%d", len(keys)))
	}
	sorted := append([]float64{}, keys...)
	sort.Float64s(sorted)
	n := 1 + r.Intn(6)
	if r.Intn(100) < bad/4 {
		n = 0
	}
	var exs []exIn
	nan := false
	for i := 0; i < n; i++ {
		var v float64
		if len(sorted) > 0 && r.Chance(3, 4) {
			b := sorted[r.Intn(len(sorted))]
			switch r.Intn(3) {
			case 0:
				v = b
			case 1:
				v = emit.Up(b)
			default:
				v = emit.Down(b)
			}
		} else {
			v = r.AnyFloat()
			if v != v {
				v = 1e9
			}
		}
		if r.Chance(1, 25) {
			v = math.NaN()
		}
		if v != v {
			nan = true
		}
		e, t := genExemplar(r, bad/2, v)
		exs = append(exs, e)
		tags = append(tags, t...)
	}
	if nan {
		tags = append(tags, "exemplar-value:nan")
	}
	pexs := toExemplars(exs, r)
	it := make([]string, len(keys))
	for i, k := range keys {
		it[i] = emit.Pair(emit.F(k), emit.U(bm[k]))
	}
	baseTags := tags
	var out []oneCase
	for variant := 0; variant < 2; variant++ {
		tags := withTag(baseTags, "variant:"+[]string{"NewMetricWithExemplars", "MustNewMetricWithExemplars"}[variant])
		inner := mkInner()
		var before, pb, after dto.Metric
		inner.Write(&before)
		beforeC := proto.Clone(&before).(*dto.Metric)
		var wm prometheus.Metric
		var err error
		if variant == 0 {
			wm, err = prometheus.NewMetricWithExemplars(inner, pexs...)
		} else {
			wm, err = must(func() prometheus.Metric { return prometheus.MustNewMetricWithExemplars(inner, pexs...) })
		}
		if err == nil {
			err = wm.Write(&pb)
		}
		inner.Write(&after)
		unchanged := proto.Equal(beforeC, &after) && proto.Equal(beforeC, &before)
		var impl string
		if err != nil {
			impl = emit.C(0, emit.I(errCode(err)))
			tags = append(tags, errTag(errCode(err)))
			if !unchanged {
				impl = emit.C(1, "()", emit.B(false))
			}
		} else {
			h := pb.Histogram
			// everything but the classic buckets must be what the wrapped metric exposes
			hc := proto.Clone(h).(*dto.Histogram)
			hc.Bucket = nil
			bc := proto.Clone(beforeC.Histogram).(*dto.Histogram)
			bc.Bucket = nil
			unchanged = unchanged && proto.Equal(hc, bc) && lpS(pb.Label) == lpS(beforeC.Label)
			ob := make([]string, len(h.Bucket))
			withEx, inf := 0, false
			for i, b := range h.Bucket {
				ex := emit.None()
				if b.Exemplar != nil {
					ex = emit.Some(dtoExS(b.Exemplar))
					withEx++
				}
				if math.IsInf(b.GetUpperBound(), 1) && i >= len(keys) {
					inf = true
				}
				ob[i] = emit.Tup(emit.F(b.GetUpperBound()), emit.U(b.GetCumulativeCount()), ex)
			}
			impl = emit.C(1, emit.L(ob), emit.B(unchanged))
			tags = append(tags, "result:ok", fmt.Sprintf("exemplars:%d", n), fmt.Sprintf("buckets-with-exemplar:%d", withEx), fmt.Sprintf("inf-bucket-added:%v", inf))
		}
		out = append(out, oneCase{emit.Tup("8", emit.I(variant), emit.U(count), emit.L(it), exInS(exs), impl), err == nil && n >= 2, tags})
	}
	return out
}

// ---------------------------------------------------------------- known findings (only when listed in known_findings.txt)
func knownListed(key string) bool {
	root := os.Getenv("VERIF_ROOT")
	if root == "" {
		root = os.Getenv("VERIF_HOME")
	}
	if root == "" {
		root = "/verif"
	}
	b, err := os.ReadFile(root + "/known_findings.txt")
	if err != nil {
		return false
	}
	for _, line := range strings.Split(string(b), "\n") {
		if strings.HasPrefix(line, "known:") && strings.Contains(line, "property=C14 ") && strings.Contains(line, "key="+key+" ") {
			return true
		}
	}
	return false
}

func runStream(c *cli.Ctx, r *emit.Rng, name string, n int, bad int, gen func(*emit.Rng, int) []oneCase) error {
	w := emit.NewWriter(c.Out, "C14", name)
	for i := 0; i < n*c.Scale; i++ {
		for _, oc := range gen(r, bad) {
			w.Add(oc.term, oc.nt, oc.tags...)
		}
	}
	return w.Flush()
}

func runC14(c *cli.Ctx) error {
	r := emit.NewRng(c.Seed)
	if err := streamFQ(c, r.Fork()); err != nil {
		return err
	}
	if err := streamTS(c, r.Fork()); err != nil {
		return err
	}
	type st struct {
		name string
		n    int
		bad  int
		gen  func(*emit.Rng, int) []oneCase
	}
	for _, s := range []st{
		{"const", 600, 12, constCase},
		{"live", 500, 12, liveCase},
		{"classic", 300, 10, classicCase},
		{"native", 700, 12, nativeCase},
		{"exemplar-counter", 300, 12, exCounterCase},
		{"exemplar-hist", 400, 10, exHistCase},
		{"malformed-const", 200, 70, constCase},
		{"malformed-live", 150, 70, liveCase},
		{"malformed-classic", 80, 70, classicCase},
		{"malformed-native", 250, 70, nativeCase},
		{"malformed-exemplar-counter", 150, 70, exCounterCase},
		{"malformed-exemplar-hist", 100, 70, exHistCase},
	} {
		if err := runStream(c, r.Fork(), s.name, s.n, s.bad, s.gen); err != nil {
			return err
		}
	}
	if err := streamNested(c, r.Fork()); err != nil {
		return err
	}
	if err := streamLegacy(c, r.Fork()); err != nil {
		return err
	}
	// count = 2^64 + (negative total): validateCount compares int64(count) with the int64 total
	if knownListed("count-wrap") {
		w := emit.NewWriter(c.Out, "C14", "known-count-wrap")
		d := &dspec{fq: "h", help: "h", consts: map[string]string{}}
		t, _, _ := nativeTerm(0, d, math.MaxUint64-2, 1.5, []ikv{{0, -3}}, nil, 0, 2, 0.001)
		w.Add(t, true, "count-wrap")
		if err := w.Flush(); err != nil {
			return err
		}
	}
	return nil
}
