//go:build verif

package v1

import "time"

// Test-only re-export for the /verif harness (overlaid at build time, never committed).

func VerifFormatTime(t time.Time) string { return formatTime(t) }
