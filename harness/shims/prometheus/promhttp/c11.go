//go:build verif

package promhttp

import (
	"io"
	"net/http"

	"github.com/prometheus/client_golang/internal/github.com/golang/gddo/httputil"
	"github.com/prometheus/client_golang/internal/github.com/golang/gddo/httputil/header"
	"github.com/prometheus/client_golang/prometheus/promhttp/internal"
)

// Test-only re-exports for the /verif harness, property C11 (overlaid at build time, never committed).

type VerifAcceptSpec struct {
	Value string
	Q     float64
}

// VerifParseAccept runs the real header.ParseAccept.
func VerifParseAccept(h http.Header, key string) []VerifAcceptSpec {
	var out []VerifAcceptSpec
	for _, s := range header.ParseAccept(h, key) {
		out = append(out, VerifAcceptSpec{Value: s.Value, Q: s.Q})
	}
	return out
}

// VerifNegotiateContentEncoding runs the real httputil.NegotiateContentEncoding.
func VerifNegotiateContentEncoding(r *http.Request, offers []string) string {
	return httputil.NegotiateContentEncoding(r, offers)
}

// VerifZstdWriter reads the opt-in zstd hook (set by importing prometheus/promhttp/zstd).
func VerifZstdWriter() func(io.Writer) (io.Writer, func(), error) { return internal.NewZstdWriter }

// VerifSetZstdWriter replaces the hook (nil = zstd not linked) and returns the previous one.
func VerifSetZstdWriter(f func(io.Writer) (io.Writer, func(), error)) func(io.Writer) (io.Writer, func(), error) {
	old := internal.NewZstdWriter
	internal.NewZstdWriter = f
	return old
}
