//go:build verif

package promhttp

import "net/http"

// Test-only re-exports for the /verif harness (overlaid at build time, never committed).

func VerifSanitizeCode(s int) string                      { return sanitizeCode(s) }
func VerifSanitizeMethod(m string, extra ...string) string { return sanitizeMethod(m, extra...) }

type VerifDelegator interface {
	http.ResponseWriter
	Status() int
	Written() int64
}

func VerifNewDelegator(w http.ResponseWriter, observe func(int)) VerifDelegator {
	return newDelegator(w, observe)
}
