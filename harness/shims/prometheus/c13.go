//go:build verif

package prometheus

// Verification shim for property C13 (wrap.go): read-only access to descriptor fields and a
// direct entry to wrapDesc. Overlaid at build time; nothing is written to the repository.

type VerifC13Desc struct {
	FqName, Help string
	Const        [][2]string // constLabelPairs in stored order
	VarNil       bool        // variableLabels == nil
	Var          []string
	Err          error
	ID, DimHash  uint64
}

func VerifC13Project(d *Desc) VerifC13Desc {
	p := VerifC13Desc{FqName: d.fqName, Help: d.help, Err: d.err, ID: d.id, DimHash: d.dimHash}
	for _, lp := range d.constLabelPairs {
		p.Const = append(p.Const, [2]string{lp.GetName(), lp.GetValue()})
	}
	if d.variableLabels == nil {
		p.VarNil = true
	} else {
		p.Var = append([]string{}, d.variableLabels.names...)
	}
	return p
}

func VerifC13WrapDesc(d *Desc, prefix string, labels Labels) *Desc { return wrapDesc(d, prefix, labels) }
