//go:build verif

package prometheus

// Test-only re-export for the /verif harness, property C07 (overlaid at build time, never committed).

// VerifPlantHash replaces the hash functions of a MetricVec (the same knob vec_test.go uses for its
// collision tests). CurryWith copies them to the curried views, so plant before currying.
func VerifPlantHash(m *MetricVec, add func(uint64, string) uint64, addByte func(uint64, byte) uint64) {
	m.hashAdd = add
	m.hashAddByte = addByte
}
