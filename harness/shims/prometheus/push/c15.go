//go:build verif

package push

// Test-only re-exports for the /verif harness (overlaid at build time, never committed).

func VerifEncodeComponent(s string) (string, bool) { return encodeComponent(s) }
