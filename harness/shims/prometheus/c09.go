//go:build verif

package prometheus

import "sort"

// Test-only re-exports for the /verif harness, property C09 (overlaid at build time, never committed).

// VerifC09Desc is what processMetric / checkDescConsistency read from a Desc.
type VerifC09Desc struct {
	Err         bool
	Name, Help  string
	ID          uint64
	ConstNames  []string
	ConstValues []string
	Vars        []string
}

func VerifC09DescInfo(d *Desc) VerifC09Desc {
	o := VerifC09Desc{Err: d.err != nil, Name: d.fqName, Help: d.help, ID: d.id}
	for _, lp := range d.constLabelPairs {
		o.ConstNames = append(o.ConstNames, lp.GetName())
		o.ConstValues = append(o.ConstValues, lp.GetValue())
	}
	if d.variableLabels != nil {
		o.Vars = append(o.Vars, d.variableLabels.names...)
	}
	return o
}

func VerifC09DescErr(d *Desc) error { return d.err }

// VerifC09RegisteredDescIDs returns the registry's descIDs (what Gather copies for the pedantic checks), sorted.
func VerifC09RegisteredDescIDs(r *Registry) []uint64 {
	r.mtx.RLock()
	defer r.mtx.RUnlock()
	ids := make([]uint64, 0, len(r.descIDs))
	for id := range r.descIDs {
		ids = append(ids, id)
	}
	sort.Slice(ids, func(i, j int) bool { return ids[i] < ids[j] })
	return ids
}
