//go:build verif

package prometheus

// Verification shim for property C05: a histogram with an injected clock (the unexported HistogramOpts.now
// field) and the DEFAULT afterFunc (time.AfterFunc), so that the production timer path of scheduled resets
// is exercised. Overlaid at build time; nothing is written to the repository.

import "time"

func VerifC05NewClock(opts HistogramOpts, now func() time.Time) Histogram {
	opts.now = now
	return NewHistogram(opts)
}
