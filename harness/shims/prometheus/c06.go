//go:build verif

package prometheus

import (
	"errors"
	"time"
)

// Test-only re-exports for the /verif harness, property C06 (overlaid at build time, never committed).

// VerifC06NewSummary calls the unexported newSummary with an injected clock (SummaryOpts.now), a Desc built
// from the given variable label names and the opts' const labels, and the given label values.
func VerifC06NewSummary(opts SummaryOpts, now func() time.Time, varLabels, labelValues []string) Summary {
	opts.now = now
	desc := NewDesc(BuildFQName(opts.Namespace, opts.Subsystem, opts.Name), opts.Help, varLabels, opts.ConstLabels)
	return newSummary(desc, opts, labelValues...)
}

// VerifC06HasObjectives reports whether s is the mutex-based summary with objectives (type summary).
func VerifC06HasObjectives(s Summary) bool {
	_, ok := s.(*summary)
	return ok
}

// VerifC06IsQuantileLabelErr reports whether a recovered panic value is errQuantileLabelNotAllowed.
func VerifC06IsQuantileLabelErr(v interface{}) bool {
	e, ok := v.(error)
	return ok && e == errQuantileLabelNotAllowed
}

// VerifC06IsCardinalityErr reports whether a recovered panic value wraps errInconsistentCardinality.
func VerifC06IsCardinalityErr(v interface{}) bool {
	e, ok := v.(error)
	return ok && errors.Is(e, errInconsistentCardinality)
}
