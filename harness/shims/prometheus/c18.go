//go:build verif

package prometheus

// Verification shim for property C18 (go_collector_latest.go, internal/go_runtime_metrics.go):
// direct entries to the batch histogram, the unit re-bucketing, the rule matcher and the name
// derivation, and a read-only view of a Go collector's sample buffer layout.
// Overlaid at build time; nothing is written to the repository.

import (
	"regexp"
	"runtime/metrics"
	"sort"

	dto "github.com/prometheus/client_model/go"

	"github.com/prometheus/client_golang/prometheus/internal"
)

func VerifC18BucketsForUnit(buckets []float64, unit string) []float64 {
	return internal.RuntimeMetricsBucketsForUnit(buckets, unit)
}

type VerifC18Hist struct{ h *batchHistogram }

func VerifC18NewBatchHistogram(buckets []float64, hasSum bool) *VerifC18Hist {
	return &VerifC18Hist{h: newBatchHistogram(NewDesc("verif_c18_hist", "synthetic", nil, nil), buckets, hasSum)}
}

func (v *VerifC18Hist) Update(his *metrics.Float64Histogram, sum float64) { v.h.update(his, sum) }
func (v *VerifC18Hist) Write(out *dto.Metric) error                       { return v.h.Write(out) }
func (v *VerifC18Hist) Collector() Collector                              { return v.h }
func (v *VerifC18Hist) Buckets() []float64                                { return append([]float64{}, v.h.buckets...) }

// VerifC18MatchRules runs matchRuntimeMetricsRules and returns the exposed runtime/metrics names in order.
func VerifC18MatchRules(matchers []*regexp.Regexp, deny []bool) []string {
	rules := make([]internal.GoCollectorRule, len(matchers))
	for i := range matchers {
		rules[i] = internal.GoCollectorRule{Matcher: matchers[i], Deny: deny[i]}
	}
	var out []string
	for _, d := range matchRuntimeMetricsRules(rules) {
		out = append(out, d.Name)
	}
	return out
}

func VerifC18ToProm(d *metrics.Description) (fq string, valid bool) {
	ns, sub, name, ok := internal.RuntimeMetricsToProm(d)
	return BuildFQName(ns, sub, name), ok
}

// VerifC18Layout returns, for a collector made by NewGoCollector, the names in the sample buffer and the
// fully qualified names of the exposed runtime metrics (index i of the second belongs to index i of the first),
// and the names whose sampleMap entry does not point at the sample of that name inside sampleBuf.
func VerifC18Layout(c Collector) (sampleNames, exposedFq, stale []string, ok bool) {
	g, ok := c.(*goCollector)
	if !ok {
		return nil, nil, nil, false
	}
	at := map[string]*metrics.Sample{}
	for i := range g.sampleBuf {
		sampleNames = append(sampleNames, g.sampleBuf[i].Name)
		at[g.sampleBuf[i].Name] = &g.sampleBuf[i]
	}
	for _, m := range g.rmExposedMetrics {
		exposedFq = append(exposedFq, m.Desc().fqName)
	}
	for name, p := range g.sampleMap {
		if at[name] != p {
			stale = append(stale, name)
		}
	}
	sort.Strings(stale)
	return sampleNames, exposedFq, stale, true
}
