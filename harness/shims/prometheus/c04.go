//go:build verif

package prometheus

// Verification shim for property C04 (native histogram accounting, histogram.go):
// builds a real histogram with an injected clock and an injected afterFunc (the unexported
// HistogramOpts.now / afterFunc fields), captures the scheduled reset callback so that the driver
// can fire it on demand, and gives read-only access to pickSchema, the boundary table and the
// values of the native exemplars currently held (input of the driver's math.Log oracle).
// Overlaid at build time; nothing is written to the repository.

import (
	"time"

	dto "github.com/prometheus/client_model/go"
)

type VerifC04Hist struct {
	h         *histogram
	now       time.Time
	pending   []func()
	scheduled []time.Duration
}

func VerifC04New(opts HistogramOpts, start time.Time) *VerifC04Hist {
	v := &VerifC04Hist{now: start}
	opts.now = func() time.Time { return v.now }
	opts.afterFunc = func(d time.Duration, f func()) *time.Timer {
		v.pending = append(v.pending, f)
		v.scheduled = append(v.scheduled, d)
		return nil
	}
	v.h = NewHistogram(opts).(*histogram)
	return v
}

func (v *VerifC04Hist) Observe(x float64) { v.h.Observe(x) }

func (v *VerifC04Hist) ObserveWithExemplar(x float64, l Labels) { v.h.ObserveWithExemplar(x, l) }

// ExemplarState: values of the native exemplars currently held, their capacity, and whether the
// feature is enabled (read-only).
func (v *VerifC04Hist) ExemplarState() (vals []float64, capacity int, enabled bool) {
	for _, e := range v.h.nativeExemplars.exemplars {
		vals = append(vals, e.GetValue())
	}
	return vals, cap(v.h.nativeExemplars.exemplars), v.h.nativeExemplars.isEnabled()
}

func (v *VerifC04Hist) Write(out *dto.Metric) error { return v.h.Write(out) }
func (v *VerifC04Hist) Advance(d time.Duration)     { v.now = v.now.Add(d) }

// Fire runs the oldest captured timer callback; false if none is pending.
func (v *VerifC04Hist) Fire() bool {
	if len(v.pending) == 0 {
		return false
	}
	f := v.pending[0]
	v.pending = v.pending[1:]
	f()
	return true
}

// TakeScheduled returns and clears the durations handed to afterFunc so far.
func (v *VerifC04Hist) TakeScheduled() []time.Duration {
	s := v.scheduled
	v.scheduled = nil
	return s
}

func (v *VerifC04Hist) InitialSchema() int32 { return v.h.nativeHistogramSchema }

func VerifC04PickSchema(f float64) int32 { return pickSchema(f) }

// VerifC04Bounds returns a copy of nativeHistogramBounds[schema] (schema 0..8).
func VerifC04Bounds(schema int) []float64 {
	return append([]float64{}, nativeHistogramBounds[schema]...)
}
