//go:build verif

package prometheus

// Verification shim for property C04 (native histogram accounting, histogram.go):
// builds a real histogram with an injected clock and an injected afterFunc (the unexported
// HistogramOpts.now / afterFunc fields), captures the scheduled reset callback so that the driver
// can fire it on demand, and gives read-only access to pickSchema, the boundary table and the
// values of the native exemplars currently held (input of the driver's math.Log oracle).
// Overlaid at build time; nothing is written to the repository.

import (
	"time"

	dto "github.com/prometheus/client_model/go"
)

type verifC04Clock struct{ now time.Time }

type VerifC04Hist struct {
	h         *histogram
	clock     *verifC04Clock
	vec       *VerifC04Vec // nil for a plain histogram
	pending   []func()
	scheduled []time.Duration
}

func VerifC04New(opts HistogramOpts, start time.Time) *VerifC04Hist {
	v := &VerifC04Hist{clock: &verifC04Clock{now: start}}
	opts.now = func() time.Time { return v.clock.now }
	opts.afterFunc = func(d time.Duration, f func()) *time.Timer {
		v.pending = append(v.pending, f)
		v.scheduled = append(v.scheduled, d)
		return nil
	}
	v.h = NewHistogram(opts).(*histogram)
	return v
}

// VerifC04Vec: the children of one real HistogramVec, all on one injected clock. The options
// (with now/afterFunc) are passed on by NewHistogramVec to every child; a timer scheduled during a
// child's Observe is attributed to that child (the driver is sequential).
type VerifC04Vec struct {
	vec   *HistogramVec
	clock *verifC04Clock
	cur   *VerifC04Hist
}

func VerifC04NewVec(opts HistogramOpts, labelNames []string, start time.Time) *VerifC04Vec {
	v := &VerifC04Vec{clock: &verifC04Clock{now: start}}
	opts.now = func() time.Time { return v.clock.now }
	opts.afterFunc = func(d time.Duration, f func()) *time.Timer {
		if v.cur != nil {
			v.cur.pending = append(v.cur.pending, f)
			v.cur.scheduled = append(v.cur.scheduled, d)
		}
		return nil
	}
	v.vec = NewHistogramVec(opts, labelNames)
	return v
}

// Child creates (or finds) the child for the label values; its created timestamp is the clock now.
func (v *VerifC04Vec) Child(lvs ...string) *VerifC04Hist {
	return &VerifC04Hist{h: v.vec.WithLabelValues(lvs...).(*histogram), clock: v.clock, vec: v}
}

// Advance moves the clock shared by all children.
func (v *VerifC04Vec) Advance(d time.Duration) { v.clock.now = v.clock.now.Add(d) }

func (v *VerifC04Hist) enter() {
	if v.vec != nil {
		v.vec.cur = v
	}
}

func (v *VerifC04Hist) Observe(x float64) { v.enter(); v.h.Observe(x) }

func (v *VerifC04Hist) ObserveWithExemplar(x float64, l Labels) {
	v.enter()
	v.h.ObserveWithExemplar(x, l)
}

// ExemplarState: values of the native exemplars currently held, their capacity, and whether the
// feature is enabled (read-only).
func (v *VerifC04Hist) ExemplarState() (vals []float64, capacity int, enabled bool) {
	for _, e := range v.h.nativeExemplars.exemplars {
		vals = append(vals, e.GetValue())
	}
	return vals, cap(v.h.nativeExemplars.exemplars), v.h.nativeExemplars.isEnabled()
}

func (v *VerifC04Hist) Write(out *dto.Metric) error { return v.h.Write(out) }
func (v *VerifC04Hist) Advance(d time.Duration)     { v.clock.now = v.clock.now.Add(d) }

// Fire runs the oldest captured timer callback; false if none is pending.
func (v *VerifC04Hist) Fire() bool {
	if len(v.pending) == 0 {
		return false
	}
	f := v.pending[0]
	v.pending = v.pending[1:]
	f()
	return true
}

// TakeScheduled returns and clears the durations handed to afterFunc so far.
func (v *VerifC04Hist) TakeScheduled() []time.Duration {
	s := v.scheduled
	v.scheduled = nil
	return s
}

func (v *VerifC04Hist) InitialSchema() int32 { return v.h.nativeHistogramSchema }

func VerifC04PickSchema(f float64) int32 { return pickSchema(f) }

// VerifC04Bounds returns a copy of nativeHistogramBounds[schema] (schema 0..8).
func VerifC04Bounds(schema int) []float64 {
	return append([]float64{}, nativeHistogramBounds[schema]...)
}
