//go:build verif

package testutil

import (
	"io"

	dto "github.com/prometheus/client_model/go"
)

// VerifConvert re-exports convertReaderToMetricFamily (parse, fill empty help, normalise) for C17.
func VerifConvert(r io.Reader) ([]*dto.MetricFamily, error) { return convertReaderToMetricFamily(r) }
