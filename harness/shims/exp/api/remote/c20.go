//go:build verif

package remote

import (
	"net/http"
	"time"

	"github.com/prometheus/client_golang/exp/internal/github.com/efficientgo/core/backoff"
)

// VerifWithBackoff is WithAPIBackoff for callers outside the module (backoff.Config lives in an internal package).
func VerifWithBackoff(min, max time.Duration, maxRetries int) APIOption {
	return WithAPIBackoff(backoff.Config{Min: min, Max: max, MaxRetries: maxRetries})
}

// VerifRetryAfterDuration exposes retryAfterDuration.
func VerifRetryAfterDuration(t string) time.Duration { return retryAfterDuration(t) }

// VerifParseWriteResponseStats exposes parseWriteResponseStats and the unexported confirmation flag.
func VerifParseWriteResponseStats(h http.Header) (samples, histograms, exemplars int, confirmed, failed bool) {
	s, err := parseWriteResponseStats(&http.Response{Header: h})
	return s.Samples, s.Histograms, s.Exemplars, s.confirmed, err != nil
}
