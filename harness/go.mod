module verifharness

go 1.22

require (
	github.com/prometheus/client_golang v1.20.4
	github.com/prometheus/client_model v0.6.1
	github.com/prometheus/common v0.63.0
	google.golang.org/protobuf v1.36.6
)

require (
	github.com/beorn7/perks v1.0.1 // indirect
	github.com/cespare/xxhash/v2 v2.3.0 // indirect
	github.com/kylelemons/godebug v1.1.0 // indirect
	github.com/modern-go/concurrent v0.0.0-20180306012644-bacd9c7ef1dd // indirect
	github.com/modern-go/reflect2 v1.0.2 // indirect
	github.com/munnerz/goautoneg v0.0.0-20191010083416-a7dc8b61c822 // indirect
	github.com/prometheus/procfs v0.16.0 // indirect
	golang.org/x/sys v0.30.0 // indirect
)

replace github.com/prometheus/client_golang => /repo

require (
	github.com/json-iterator/go v1.1.12
	github.com/klauspost/compress v1.18.0
	github.com/prometheus/client_golang/exp v0.0.0
)

replace github.com/prometheus/client_golang/exp => /repo/exp
