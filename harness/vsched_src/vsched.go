// Package vsched is a deterministic cooperative scheduler used ONLY by /verif's instrumented
// builds (it is added to the build through `go build -overlay`, never committed to the
// repository). Instrumented copies of the lock-free sources call these wrappers instead of
// sync/atomic, sync.Mutex, sync.RWMutex, sync.Map and runtime.Gosched; every wrapper is a
// schedule point. When no exploration is active the wrappers are plain pass-throughs.
//
// Model of execution: managed threads run one at a time (baton passing). A thread parks
// BEFORE each shared operation; granting it one step executes that operation and the
// thread-local code up to its next schedule point. A schedule is therefore a list of
// thread ids, one per shared operation, exactly the granularity of the Coq step machines.
package vsched

import (
	"fmt"
	"runtime"
	"sort"
	"sync"
	"sync/atomic"
)

type thread struct {
	id       int
	grant    chan struct{}
	label    string      // pending operation
	enabled  func() bool // nil = always enabled
	spinAt   int64       // >=0: parked in a spin-wait at this global step; enabled once another step happened
	finished bool
	panicVal interface{}
}

type event struct {
	t        *thread
	finished bool
}

var (
	active  int32
	cur     *thread
	events  chan event
	steps   int64
	nextID  int
	threads []*thread
	trace   []Step
	mu      sync.Mutex // protects threads slice for dynamically spawned goroutines
)

// Step is one executed schedule point.
type Step struct {
	Tid   int
	Label string
}

// Active reports whether an exploration is running.
func Active() bool { return atomic.LoadInt32(&active) == 1 }

// Now is the number of steps executed so far: a logical clock for invocation/response times.
func Now() int64 { return steps }

func park(label string, enabled func() bool, spin bool) {
	t := cur
	t.label = label
	t.enabled = enabled
	if spin {
		t.spinAt = steps
	} else {
		t.spinAt = -1
	}
	events <- event{t: t}
	<-t.grant
	cur = t
}

// Point is a schedule point before a shared operation.
func Point(label string) {
	if atomic.LoadInt32(&active) == 0 {
		return
	}
	park(label, nil, false)
}

// Result of a Run.
type Result struct {
	Trace     []Step
	Deadlock  bool
	StepLimit bool
	Panics    map[int]interface{}
	Blocked   []string // labels of the threads blocked at a deadlock
}

func startThread(fn func()) *thread {
	mu.Lock()
	t := &thread{id: nextID, grant: make(chan struct{}), spinAt: -1}
	nextID++
	threads = append(threads, t)
	mu.Unlock()
	go func() {
		<-t.grant
		cur = t
		defer func() {
			if r := recover(); r != nil {
				t.panicVal = r
			}
			t.finished = true
			events <- event{t: t, finished: true}
		}()
		fn()
	}()
	return t
}

// Go starts a managed goroutine from instrumented code (`go f()` is rewritten to vsched.Go).
// The new thread is created parked at the pseudo operation "go-start"; its first step runs its
// body up to its first schedule point.
// PlainGo: when set (by a driver, before Run), Go starts fn as an ordinary unmanaged goroutine even during a
// Run. For code whose spawned goroutines touch no shared state through the wrappers and are joined through a
// channel by the spawning thread within the same step (registry.go's Describe goroutines): a managed thread
// parked at go-start could never be granted there, because the spawner blocks on the channel while it holds
// the baton. Default false.
var PlainGo bool

func Go(fn func()) {
	if atomic.LoadInt32(&active) == 0 || PlainGo {
		go fn()
		return
	}
	t := startThread(fn)
	t.label = "go-start"
}

// Run executes the thread bodies under the scheduler. pick chooses the next thread among the
// enabled ones (ids and pending labels are passed); it returns an index into ids.
// maxSteps bounds the run (StepLimit is set when it is hit).
func Run(bodies []func(), pick func(ids []int, labels []string) int, maxSteps int) Result {
	if !atomic.CompareAndSwapInt32(&active, 0, 1) {
		panic("vsched: nested Run")
	}
	events = make(chan event)
	steps = 0
	nextID = 0
	threads = nil
	trace = nil
	res := Result{Panics: map[int]interface{}{}}
	// start every thread and let its prelude run up to the first schedule point, one at a time
	for _, b := range bodies {
		t := startThread(b)
		t.grant <- struct{}{}
		<-events
	}
	for {
		var ids []int
		var labels []string
		var cand []*thread
		live := 0
		mu.Lock()
		ts := append([]*thread(nil), threads...)
		mu.Unlock()
		for _, t := range ts {
			if t.finished {
				continue
			}
			live++
			if t.spinAt >= 0 && t.spinAt == steps {
				continue // nothing changed since it started spinning
			}
			if t.enabled != nil && !t.enabled() {
				continue
			}
			ids = append(ids, t.id)
			labels = append(labels, t.label)
			cand = append(cand, t)
		}
		if live == 0 {
			break
		}
		if len(cand) == 0 {
			res.Deadlock = true
			for _, t := range ts {
				if !t.finished {
					res.Blocked = append(res.Blocked, fmt.Sprintf("%d:%s", t.id, t.label))
				}
			}
			break
		}
		if int(steps) >= maxSteps {
			res.StepLimit = true
			break
		}
		k := pick(ids, labels)
		if k < 0 || k >= len(cand) {
			k = 0
		}
		t := cand[k]
		trace = append(trace, Step{Tid: t.id, Label: t.label})
		steps++
		t.grant <- struct{}{}
		<-events
	}
	mu.Lock()
	for _, t := range threads {
		if t.panicVal != nil {
			res.Panics[t.id] = t.panicVal
		}
	}
	mu.Unlock()
	res.Trace = trace
	atomic.StoreInt32(&active, 0)
	// threads that never finished (deadlock / step limit) stay parked forever; they are leaked on
	// purpose: the driver reports the run and does not reuse the objects.
	return res
}

// ---------------------------------------------------------------- sync/atomic wrappers
func AddUint64(p *uint64, d uint64, what string) uint64 {
	Point("AddUint64 " + what)
	return atomic.AddUint64(p, d)
}
func LoadUint64(p *uint64, what string) uint64 {
	Point("LoadUint64 " + what)
	return atomic.LoadUint64(p)
}
func StoreUint64(p *uint64, v uint64, what string) {
	Point("StoreUint64 " + what)
	atomic.StoreUint64(p, v)
}
func SwapUint64(p *uint64, v uint64, what string) uint64 {
	Point("SwapUint64 " + what)
	return atomic.SwapUint64(p, v)
}
func CompareAndSwapUint64(p *uint64, o, n uint64, what string) bool {
	Point("CompareAndSwapUint64 " + what)
	return atomic.CompareAndSwapUint64(p, o, n)
}
func AddInt64(p *int64, d int64, what string) int64 {
	Point("AddInt64 " + what)
	return atomic.AddInt64(p, d)
}
func LoadInt64(p *int64, what string) int64 {
	Point("LoadInt64 " + what)
	return atomic.LoadInt64(p)
}
func StoreInt64(p *int64, v int64, what string) {
	Point("StoreInt64 " + what)
	atomic.StoreInt64(p, v)
}
func AddUint32(p *uint32, d uint32, what string) uint32 {
	Point("AddUint32 " + what)
	return atomic.AddUint32(p, d)
}
func LoadUint32(p *uint32, what string) uint32 {
	Point("LoadUint32 " + what)
	return atomic.LoadUint32(p)
}
func StoreUint32(p *uint32, v uint32, what string) {
	Point("StoreUint32 " + what)
	atomic.StoreUint32(p, v)
}
func AddInt32(p *int32, d int32, what string) int32 {
	Point("AddInt32 " + what)
	return atomic.AddInt32(p, d)
}
func LoadInt32(p *int32, what string) int32 {
	Point("LoadInt32 " + what)
	return atomic.LoadInt32(p)
}
func StoreInt32(p *int32, v int32, what string) {
	Point("StoreInt32 " + what)
	atomic.StoreInt32(p, v)
}
func CompareAndSwapUint32(p *uint32, o, n uint32, what string) bool {
	Point("CompareAndSwapUint32 " + what)
	return atomic.CompareAndSwapUint32(p, o, n)
}

// Value wraps atomic.Value.
type Value struct{ v atomic.Value }

func (x *Value) Load() interface{}   { Point("Value.Load"); return x.v.Load() }
func (x *Value) Store(v interface{}) { Point("Value.Store"); x.v.Store(v) }

// Gosched replaces runtime.Gosched in spin-wait loops.
func Gosched() {
	if atomic.LoadInt32(&active) == 0 {
		runtime.Gosched()
		return
	}
	park("spin", nil, true)
}

// ---------------------------------------------------------------- mutexes
type Mutex struct {
	mu   sync.Mutex
	held int32
}

func (m *Mutex) Lock() {
	if atomic.LoadInt32(&active) == 0 {
		m.mu.Lock()
		atomic.StoreInt32(&m.held, 1)
		return
	}
	park("Mutex.Lock", func() bool { return atomic.LoadInt32(&m.held) == 0 }, false)
	m.mu.Lock()
	atomic.StoreInt32(&m.held, 1)
}
func (m *Mutex) Unlock() {
	Point("Mutex.Unlock")
	atomic.StoreInt32(&m.held, 0)
	m.mu.Unlock()
}

type RWMutex struct {
	mu      sync.RWMutex
	writer  int32
	readers int32
}

func (m *RWMutex) Lock() {
	if atomic.LoadInt32(&active) == 0 {
		m.mu.Lock()
		atomic.StoreInt32(&m.writer, 1)
		return
	}
	park("RWMutex.Lock", func() bool { return atomic.LoadInt32(&m.writer) == 0 && atomic.LoadInt32(&m.readers) == 0 }, false)
	m.mu.Lock()
	atomic.StoreInt32(&m.writer, 1)
}
func (m *RWMutex) Unlock() {
	Point("RWMutex.Unlock")
	atomic.StoreInt32(&m.writer, 0)
	m.mu.Unlock()
}
func (m *RWMutex) RLock() {
	if atomic.LoadInt32(&active) == 0 {
		m.mu.RLock()
		atomic.AddInt32(&m.readers, 1)
		return
	}
	park("RWMutex.RLock", func() bool { return atomic.LoadInt32(&m.writer) == 0 }, false)
	m.mu.RLock()
	atomic.AddInt32(&m.readers, 1)
}
func (m *RWMutex) RUnlock() {
	Point("RWMutex.RUnlock")
	atomic.AddInt32(&m.readers, -1)
	m.mu.RUnlock()
}

// ---------------------------------------------------------------- sync.Map
type Map struct{ m sync.Map }

func (x *Map) Load(k interface{}) (interface{}, bool) { Point("Map.Load"); return x.m.Load(k) }
func (x *Map) Store(k, v interface{})                 { Point("Map.Store"); x.m.Store(k, v) }
func (x *Map) LoadOrStore(k, v interface{}) (interface{}, bool) {
	Point("Map.LoadOrStore")
	return x.m.LoadOrStore(k, v)
}
func (x *Map) LoadAndDelete(k interface{}) (interface{}, bool) {
	Point("Map.LoadAndDelete")
	return x.m.LoadAndDelete(k)
}
func (x *Map) Delete(k interface{}) { Point("Map.Delete"); x.m.Delete(k) }

// Range takes the key set at its schedule point and visits int keys in ascending order, skipping keys deleted
// meanwhile: one of the orders sync.Map.Range allows, chosen so that runs are reproducible from the seed and
// comparable with Model/NativeConc.v (Go's map order is random).
func (x *Map) Range(f func(k, v interface{}) bool) {
	Point("Map.Range")
	var keys []interface{}
	allInt := true
	x.m.Range(func(k, v interface{}) bool {
		keys = append(keys, k)
		if _, ok := k.(int); !ok {
			allInt = false
		}
		return true
	})
	if allInt {
		sort.Slice(keys, func(i, j int) bool { return keys[i].(int) < keys[j].(int) })
	}
	for _, k := range keys {
		if v, ok := x.m.Load(k); ok {
			if !f(k, v) {
				return
			}
		}
	}
}
func (x *Map) Clear() { Point("Map.Clear"); x.m.Clear() }

// ---------------------------------------------------------------- sync.Pool
type Pool struct {
	New func() any
	p   sync.Pool
	ini sync.Once
}

func (x *Pool) init() { x.ini.Do(func() { x.p.New = x.New }) }
func (x *Pool) Get() any {
	x.init()
	Point("Pool.Get")
	return x.p.Get()
}
func (x *Pool) Put(v any) {
	x.init()
	Point("Pool.Put")
	x.p.Put(v)
}
